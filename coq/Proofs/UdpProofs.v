(* UdpProofs.v -- lemmas behind C15 (UDP-over-TCP datagram framing). *)
From Coq Require Import List NArith ZArith Lia Bool.
From AnyTLS Require Import Bytes Reader ReaderProg Generated FactsCore FactsParsers Dest Udp BytesFacts ReaderProofs DestProofs.
Import ListNotations.
Open Scope N_scope.
Ltac Zify.zify_post_hook ::= Z.to_euclidean_division_equations.

Definition dgram_ok (mx : N) (d : bytes) : Prop := lenN d <= mx.

Section Udp.
Variable mx : N.
Hypothesis Hmx : mx <= 65535.

Lemma udp_encode_some d : lenN d <= mx -> udp_encode mx d = Some (udp_frame d).
Proof.
  intros H. unfold udp_encode, udp_frame, u16_of.
  destruct (N.ltb_spec mx (lenN d)); [lia|]. replace (lenN d mod 65536) with (lenN d) by lia. reflexivity.
Qed.

Lemma udp_encode_none d : mx < lenN d -> udp_encode mx d = None.
Proof. intros H. unfold udp_encode. destruct (N.ltb_spec mx (lenN d)); [reflexivity | lia]. Qed.

Lemma udp_read1_frame d rest : dgram_ok mx d -> udp_read1 mx (udp_frame d ++ rest) = Accept d rest.
Proof.
  intros H2. unfold dgram_ok in H2. unfold udp_read1, udp_read1_prog, udp_frame. rewrite <- app_assoc.
  rewrite run_exact_app by reflexivity. rewrite de16_of_be16 by lia.
  destruct (N.eqb_spec (lenN d) 0) as [E0|E0].
  - apply lenN_zero_nil in E0. subst d. reflexivity.
  - destruct (N.ltb_spec mx (lenN d)); [lia|].
    rewrite run_exact_app by reflexivity. reflexivity.
Qed.

Lemma udp_read1_exact_only : exact_only E_EOF (udp_read1_prog mx).
Proof.
  unfold udp_read1_prog. constructor. intros l. destruct (de16_of l =? 0); [constructor|].
  destruct (mx <? de16_of l); constructor. intros d. constructor.
Qed.

(* the decode loop returns exactly the datagrams that were framed, in order, one per frame *)
Lemma udp_loop_frames ds : forall fuel rest,
  Forall (dgram_ok mx) ds -> udp_read1 mx rest = NeedMore -> (length ds < fuel)%nat ->
  udp_loop fuel false mx (concat (map udp_frame ds) ++ rest) = (ds, UMore rest).
Proof.
  induction ds as [|d ds IH]; intros fuel rest Hall Hn Hf.
  - destruct fuel as [|k]; [lia|]. cbn [map concat app udp_loop]. rewrite Hn. reflexivity.
  - destruct fuel as [|k]; [cbn in Hf; lia|]. inversion Hall as [|? ? Hd Hds]; subst.
    cbn [map concat udp_loop]. rewrite <- app_assoc, (udp_read1_frame d _ Hd). cbn [andb].
    rewrite (IH k rest Hds Hn) by (cbn in Hf; lia). reflexivity.
Qed.

Lemma frames_length ds : (length ds <= length (concat (map udp_frame ds)))%nat.
Proof.
  induction ds as [|d ds IH]; [cbn; lia|]. cbn [map concat]. rewrite app_length.
  unfold udp_frame at 1, be16. cbn [app length]. lia.
Qed.

Lemma udp_roundtrip ds :
  Forall (dgram_ok mx) ds -> udp_decode_all false mx (concat (map udp_frame ds)) = (ds, UMore []).
Proof.
  intros Hall. unfold udp_decode_all.
  rewrite <- (app_nil_r (concat (map udp_frame ds))) at 2.
  apply udp_loop_frames; [exact Hall | reflexivity|]. pose proof (frames_length ds). lia.
Qed.

(* a truncated trailing frame is left undecoded, nothing before it is lost *)
Lemma udp_roundtrip_tail ds tail :
  Forall (dgram_ok mx) ds -> udp_read1 mx tail = NeedMore ->
  udp_decode_all false mx (concat (map udp_frame ds) ++ tail) = (ds, UMore tail).
Proof.
  intros Hall Hn. unfold udp_decode_all. apply udp_loop_frames; [exact Hall | exact Hn|].
  rewrite app_length. pose proof (frames_length ds). lia.
Qed.

(* ---- over the reader, any chunking ---- *)
Lemma udp_loop_rd_frames ds : forall fuel st rest,
  rd_wf st -> rd_pending_bytes st = concat (map udp_frame ds) ++ rest ->
  Forall (dgram_ok mx) ds -> udp_read1 mx rest = NeedMore -> (length ds < fuel)%nat ->
  exists st', udp_loop_rd fuel false mx st = (st', ds, if rclosed st then SFail E_EOF else SPending).
Proof.
  induction ds as [|d ds IH]; intros fuel st rest Hwf Hp Hall Hn Hf.
  - destruct fuel as [|k]; [lia|]. cbn [map concat app] in Hp. cbn [udp_loop_rd].
    destruct (run_rd_needmore (udp_read1_prog mx) st E_EOF Hwf udp_read1_exact_only) as (st' & Hr).
    + rewrite Hp. exact Hn.
    + rewrite Hr. exists st'. destruct (rclosed st); reflexivity.
  - destruct fuel as [|k]; [cbn in Hf; lia|]. inversion Hall as [|? ? Hd Hds]; subst.
    cbn [map concat] in Hp. rewrite <- app_assoc in Hp. cbn [udp_loop_rd].
    destruct (run_rd_accept (udp_read1_prog mx) st d (concat (map udp_frame ds) ++ rest) Hwf)
      as (st' & Hr & Hp' & Hc' & Hwf').
    + rewrite Hp. apply udp_read1_frame. exact Hd.
    + rewrite Hr. cbn [andb].
      destruct (IH k st' rest Hwf' Hp' Hds Hn ltac:(cbn in Hf; lia)) as (st'' & Hl).
      rewrite Hl, Hc'. exists st''. reflexivity.
Qed.

Lemma udp_chunking ds chunks closed :
  Forall (dgram_ok mx) ds -> concat chunks = concat (map udp_frame ds) ->
  udp_stream_rd false mx chunks closed = (ds, if closed then SFail E_EOF else SPending).
Proof.
  intros Hall Hc. unfold udp_stream_rd.
  destruct (udp_loop_rd_frames ds (S (length (concat chunks))) (rd_of_chunks chunks closed) []
              (rd_wf_of_chunks _ _)) as (st' & Hl).
  - rewrite rd_pending_of_chunks, app_nil_r. exact Hc.
  - exact Hall.
  - reflexivity.
  - rewrite Hc. pose proof (frames_length ds). lia.
  - rewrite Hl. reflexivity.
Qed.

(* for ARBITRARY byte streams (malformed included) the reader loop and the flat loop agree while the
   stream is open *)
Definition sres_of_uend (e : uend) : sres unit :=
  match e with UMore _ => SPending | UStop _ => SDone tt | UErr x => SFail x end.

Lemma udp_loop_rd_open stop fuel : forall st,
  rd_wf st -> rclosed st = false ->
  exists st', udp_loop_rd fuel stop mx st =
    (st', fst (udp_loop fuel stop mx (rd_pending_bytes st)), sres_of_uend (snd (udp_loop fuel stop mx (rd_pending_bytes st)))).
Proof.
  induction fuel as [|k IH]; intros st Hwf Hc.
  - exists st. reflexivity.
  - cbn [udp_loop_rd udp_loop]. unfold udp_read1.
    pose proof (run_rd_open (udp_read1_prog mx) st Hwf Hc) as Ho.
    destruct (run_bytes (udp_read1_prog mx) (rd_pending_bytes st)) as [|e|d r].
    + destruct Ho as (st' & ->). exists st'. reflexivity.
    + destruct Ho as (st' & ->). exists st'. reflexivity.
    + destruct Ho as (st' & -> & Hp & Hc' & Hwf'). destruct (stop && is_nil d).
      * exists st'. reflexivity.
      * destruct (IH st' Hwf' Hc') as (st'' & Hl). rewrite Hl, Hp.
        destruct (udp_loop k stop mx r) as [ds e]. exists st''. reflexivity.
Qed.

End Udp.

(* one datagram of legal UDP size plus its prefix fits one frame payload *)
Lemma udp_fits_frame d : lenN d <= 65507 -> lenN (udp_frame d) <= encode_max_payload.
Proof.
  intros H. unfold udp_frame. rewrite lenN_app, encode_max_payload_u16. unfold be16, lenN at 1. cbn [length]. lia.
Qed.

(* the code's parameters (regenerated): both sides allow 65535, neither loop stops at an empty datagram,
   and the server's socket follows the family of the target *)
Lemma udp_code_params : forall side,
  udp_max side <= 65535 /\ udp_stop side = false.
Proof.
  destruct udp_max_both_u16 as [Hc Hs]. destruct udp_empty_datagram_forwarded as [Ec Es].
  intros [|]; unfold udp_max, udp_stop; rewrite ?Hc, ?Hs, ?Ec, ?Es; split; (lia || reflexivity).
Qed.

Lemma udp_bind_can_send t : udp_can_send (udp_bind_fam t) t = true.
Proof. unfold udp_bind_fam. rewrite udp_bind_follows_target. destruct t; reflexivity. Qed.
