(* C01 -- every stream is a lossless, ordered, exact byte pipe.
   Setting of the statements:
     sender    : any session state that is not closed; `wops` = the data submissions (any chunk sizes,
                 0 and > 65535 included) in the order in which they reach write_data_frame -- a merge of the
                 per-stream submission orders, which is what all interleavings of writer tasks and of the
                 forwarding task reduce to (C11) -- mixed with arbitrary control frames;
     padding   : `w` is ANY byte string whose decoded frames, Waste frames deleted, are the submitted frames
                 (the conclusion of C04_wellformed for every scheme and every draw; a session never submits a
                 Waste frame itself, so `not_padding f := fcmd f <> Waste` loses nothing);
     transport : `ops` interleaves transport reads `ORecv chunk` (any fragmentation of w or of a prefix of w)
                 with application reads `ORead sid k cap` on any stream object with any capacity > 0;
     receiver  : any live session state in which stream b is registered with a fresh queue.
   `quiet_for cR b` = among the submitted frames there is no Alert and no FIN / (server side) SYN for b,
   i.e. the stream and the session stay up while the data flows; how a stream ENDS is C01_complete_at_end
   (session end) and C08_fin_after_data (FIN).
   Only statements, `exact`, and Print Assumptions live here. *)
From Coq Require Import List NArith ZArith.
From AnyTLS Require Import Bytes Cmd Generated Frame Reader Session FrameProofs ReaderProofs
  SessTable SessHandle SessRecv SessPipe SessEnd SessionLegacy Text Padding PaddingProofs PipePadded
  Relay RelayProofs.
Import ListNotations.
Import Sess.
Open Scope N_scope.

(* nothing lost, duplicated, altered or reordered: at every point, and in particular once the whole wire
   has been read, delivered ++ still-queued (++ not yet arrived) = written; a reader that is answered
   `Pending` after the whole wire arrived has received all of it *)
Theorem C01_pipe : forall cR stR b s w gs ops stS wops rest,
  s_closed stS = false ->
  decode_all w = (gs, []) ->
  filter not_padding gs = sent_frames (run_wops stS wops) ->
  quiet_for cR b (sent_frames (run_wops stS wops)) ->
  cfg_ok cR -> wf_sess stR -> s_closed stR = false -> dead stR = false ->
  lookup b (tbl stR) = Some s -> rd s = rd_init ->
  concat (recv_chunks ops) ++ rest = w -> caps_pos ops ->
  let '(stR', _, lg) := run_rops cR stR [] ops in
  exists s' later, lookup b (tbl stR') = Some s' /\ rd_open (rd s') /\
    delivered b (length (only b (gone stR))) lg ++ rd_pending_bytes (rd s') ++ later = written b wops /\
    saw_eof b (length (only b (gone stR))) lg = false /\
    (rest = [] -> later = []) /\
    s_closed stR' = false /\ dead stR' = false /\ sclosed s' = sclosed s.
Proof. exact pipe_main. Qed.
Print Assumptions C01_pipe.

(* C01 composed with C04: for EVERY padding scheme the parser accepts, every grouping `pk` of the submitted
   frames into packets (write_frame sends pending ++ [frame] as one packet), every packet counter and all draws
   inside the ranges (pkts_ok), padded (client) or plain (server): the bursts the sender puts on the transport
   form a wire for which the pipe statement holds, under every fragmentation and every read schedule *)
Theorem C01_padded : forall pads sc (pk : list (list Z * list frame)) c cR stR b s stS wops,
  s_closed stS = false ->
  concat (map snd pk) = sent_frames (run_wops stS wops) ->
  Forall (fun dfs => frames_ok (snd dfs)) pk ->
  pkts_ok pads sc c (to_pkts pk) ->
  Forall (fun dfs => Forall (fun f => not_padding f = true) (snd dfs)) pk ->
  quiet_for cR b (sent_frames (run_wops stS wops)) ->
  cfg_ok cR -> wf_sess stR -> s_closed stR = false -> dead stR = false ->
  lookup b (tbl stR) = Some s -> rd s = rd_init ->
  exists bursts,
    run_packets pads sc c (to_pkts pk) = map Writes bursts /\
    forall ops rest,
      concat (recv_chunks ops) ++ rest = concat (map (@concat N) bursts) -> caps_pos ops ->
      let '(stR', _, lg) := run_rops cR stR [] ops in
      exists s' later, lookup b (tbl stR') = Some s' /\ rd_open (rd s') /\
        delivered b (length (only b (gone stR))) lg ++ rd_pending_bytes (rd s') ++ later = written b wops /\
        saw_eof b (length (only b (gone stR))) lg = false /\
        (rest = [] -> later = []) /\
        s_closed stR' = false /\ dead stR' = false /\ sclosed s' = sclosed s.
Proof.
  intros pads sc pk c cR stR b s stS wops Hs Hpk Hf Hok Hn Hq Hc Hw Hsc Hd Hl Hr.
  destruct (padded_wire_ok pads sc pk c Hf Hok Hn) as (bursts & gs & E & D & F).
  exists bursts. split; [exact E|]. intros ops rest Hops Hcaps.
  apply (pipe_main cR stR b s (concat (map (@concat N) bursts)) gs ops stS wops rest); auto.
  rewrite F. exact Hpk.
Qed.
Print Assumptions C01_padded.

(* while the stream is open the reader has always seen a prefix of what was written, and is never told Eof *)
Theorem C01_prefix : forall cR stR b s w gs ops stS wops rest,
  s_closed stS = false ->
  decode_all w = (gs, []) ->
  filter not_padding gs = sent_frames (run_wops stS wops) ->
  quiet_for cR b (sent_frames (run_wops stS wops)) ->
  cfg_ok cR -> wf_sess stR -> s_closed stR = false -> dead stR = false ->
  lookup b (tbl stR) = Some s -> rd s = rd_init ->
  concat (recv_chunks ops) ++ rest = w -> caps_pos ops ->
  let '(_, _, lg) := run_rops cR stR [] ops in
  (exists more, delivered b (length (only b (gone stR))) lg ++ more = written b wops) /\
  saw_eof b (length (only b (gone stR))) lg = false.
Proof. exact pipe_prefix. Qed.
Print Assumptions C01_prefix.

(* a reader that is answered Pending after the whole wire arrived holds everything that was written *)
Theorem C01_pending_means_all : forall r cap r',
  rd_open r -> 0 < cap -> rd_read r cap = (r', RPending) -> rd_pending_bytes r = [].
Proof. exact pending_means_drained. Qed.
Print Assumptions C01_pending_means_all.

(* when the stream ends because the session ends, the reader obtains the rest and only then Eof *)
Theorem C01_complete_at_end : forall cR stR b s w gs ops stS wops,
  s_closed stS = false ->
  decode_all w = (gs, []) ->
  filter not_padding gs = sent_frames (run_wops stS wops) ->
  quiet_for cR b (sent_frames (run_wops stS wops)) ->
  cfg_ok cR -> wf_sess stR -> s_closed stR = false -> dead stR = false ->
  lookup b (tbl stR) = Some s -> rd s = rd_init ->
  concat (recv_chunks ops) = w -> caps_pos ops ->
  let '(stR', _, lg) := run_rops cR stR [] ops in
  let stE := fst (recv_eof stR') in
  tbl stE = [] /\
  exists sf, only b (gone stE) = only b (gone stR') ++ [sf] /\
    forall caps, Forall (fun cap => 0 < cap) caps ->
      let '(_, got, e) := rd_read_script (rd sf) caps in
      (exists rest, delivered b (length (only b (gone stR))) lg ++ got ++ rest = written b wops) /\
      (e = true -> delivered b (length (only b (gone stR))) lg ++ got = written b wops).
Proof. exact pipe_end. Qed.
Print Assumptions C01_complete_at_end.

(* a read returns Eof only after the queue was closed, and only once everything pushed before has been
   returned (rd_wf holds for every reader state of the model: rd_open_wf, rd_wf_close, rd_read_data/empty) *)
Theorem C01_no_spurious_eof : forall r cap r',
  rd_wf r -> rd_read r cap = (r', REof) -> rclosed r = true /\ rd_pending_bytes r = [].
Proof. exact rd_eof_only_when_done. Qed.
Print Assumptions C01_no_spurious_eof.

(* the sender's half in isolation: splitting loses nothing and every frame fits the 16-bit length field *)
Theorem C01_split : forall sid d,
  concat (split_chunk d) = d /\
  Forall (fun f => fcmd f = Push /\ fsid f = sid /\ lenN (fdata f) <= max_payload) (data_frames sid d).
Proof. exact split_ok. Qed.
Print Assumptions C01_split.

(* any fragmentation of the transport bytes dispatches the same frames in the same order *)
Theorem C01_fragmentation : forall c chunks st carry,
  cd_inv st -> decode1_raw carry = None ->
  let '(st', carry', o) := recv_all c st carry chunks in
  (st', o) = handle_all c st (fst (decode_all (carry ++ concat chunks))) /\
  (dead st' = false -> carry' = snd (decode_all (carry ++ concat chunks))).
Proof. exact recv_all_spec. Qed.
Print Assumptions C01_fragmentation.

(* the pinned (pre-fix) data path violates the property: machine-checked witnesses *)
Theorem C01_refuted_big_legacy : exists chunks, pipe_legacy 1 chunks <> concat chunks.
Proof. exact C01_refuted_big. Qed.
Theorem C01_refuted_empty_legacy : exists chunks, reader_legacy chunks <> concat chunks.
Proof. exact C01_refuted_empty. Qed.

(* non-vacuity: a server session with stream 1 registered, a sender writing 3 chunks (one empty) mixed with
   a control frame, a wire with an inserted padding frame, cut into 3 fragments with a cut inside a header,
   reads of capacity 2 interleaved: all hypotheses hold and the bytes come out *)
Example C01_nonvacuous :
  let cR := {| c_role := Server; c_md5 := []; c_scheme := [] |} in
  let cS := {| c_role := Client; c_md5 := []; c_scheme := [] |} in
  let stR := fst (handle cR (init_sess cR) (mk Syn 1 [])) in
  let stS := init_sess cS in
  let wops := [WData 1 [1; 2; 3]; WCtrl (mk HeartRequest 0 []); WData 1 []; WData 1 [4]] in
  let sent := sent_frames (run_wops stS wops) in
  let w := encode_raw (raw_of (mk Push 1 [1; 2; 3])) ++ encode_raw (raw_of (mk Waste 0 [0; 0])) ++
           concat (map encode_raw (map raw_of (skipn 1 sent))) in
  let ops := [ORecv (firstn 3 w); ORead 1 0 2; ORecv (firstn 9 (skipn 3 w)); ORead 1 0 2; ORead 1 0 2;
              ORecv (skipn 12 w); ORead 1 0 2; ORead 1 0 2] in
  s_closed stS = false /\ snd (decode_all w) = [] /\
  filter not_padding (fst (decode_all w)) = sent /\
  quiet_for cR 1 sent /\ cfg_ok cR /\ wf_sess stR /\ s_closed stR = false /\ dead stR = false /\
  (exists s, lookup 1 (tbl stR) = Some s /\ rd s = rd_init) /\
  concat (recv_chunks ops) = w /\ caps_pos ops /\
  (let '(_, _, lg) := run_rops cR stR [] ops in delivered 1 0 lg) = [1; 2; 3; 4] /\
  written 1 wops = [1; 2; 3; 4].
Proof.
  cbv zeta.
  split; [reflexivity|]. split; [vm_compute; reflexivity|]. split; [vm_compute; reflexivity|].
  split.
  { match goal with |- quiet_for ?c ?b ?l => let l' := eval vm_compute in l in change (quiet_for c b l') end.
    unfold quiet_for.
    repeat (apply Forall_cons; [split; [unfold no_alert; cbn; discriminate | vm_compute; reflexivity]|]).
    apply Forall_nil. }
  split; [unfold cfg_ok; vm_compute; discriminate|].
  split; [unfold wf_sess; vm_compute; constructor; [intros [] | constructor]|].
  split; [reflexivity|]. split; [reflexivity|].
  split; [eexists; split; vm_compute; reflexivity|].
  split; [vm_compute; reflexivity|].
  split; [unfold caps_pos; repeat constructor|].
  split; vm_compute; reflexivity.
Qed.

(* ---------------------------------------------------------------- the relays at the two ends of a tunnel
   (Model/Relay.v: the six copy loops of server/handler.rs, client/socks5.rs, client/http_proxy.rs).
   A loop with a buffer of ANY size, whatever earlier iterations left in it, hands its sink exactly the chunks it
   read, whole and in order, up to the first end of input / read error / refused write *)
Theorem C01_relay_exact : forall cap es, relay cap es = relay_spec es.
Proof. exact relay_exact. Qed.
Print Assumptions C01_relay_exact.

Theorem C01_relay_prefix_and_complete : forall es,
  (exists rest, concat (relay_spec es) ++ rest = source_bytes es) /\
  (ran_to_eof es = true -> concat (relay_spec es) = source_bytes es) /\
  Forall (fun c => c <> []) (relay_spec es).
Proof. intros es. exact (conj (relay_spec_prefix es) (conj (relay_spec_complete es) (relay_spec_nonempty es))). Qed.
Print Assumptions C01_relay_prefix_and_complete.

(* a chunk handed to write_data_frame / send_data by a relay never exceeds the relay's buffer *)
Theorem C01_relay_chunks_fit : forall cap es, reads_fit cap es ->
  Forall (fun c => lenN c <= cap) (relay cap es) /\ lenN (lbuf (lp_run (lp_init cap) es)) = cap.
Proof. intros cap es H. rewrite relay_exact. exact (conj (relay_spec_fit cap es H) (relay_buffer_bounded cap es H)). Qed.
Print Assumptions C01_relay_chunks_fit.

(* Stream::send_data + the forwarding task: the queued chunks become the same submissions in the same order *)
Theorem C01_forwarding_task_submits_queue : forall st, s_closed st = false ->
  snd (pump_all st) = run_wops st (wops_of_queue (sendq st)).
Proof. exact forwarding_task_submits_queue. Qed.
Print Assumptions C01_forwarding_task_submits_queue.

Theorem C01_relay_submissions : forall b ops cs, merge_ok b cs ops -> written b ops = concat cs.
Proof. exact written_of_merge. Qed.
Print Assumptions C01_relay_submissions.

(* END TO END, either direction: source --relay(es1)--> submissions of stream b --[session pipe: any padded
   wire, any fragmentation, any read schedule with capacities > 0]--> reader of b --relay(write results ws)-->
   sink.  Whatever the sink has received is a prefix of what the source produced ... *)
Theorem C01_tunnel_prefix : forall capC capS es1 ws cR stR b s w gs ops stS wops rest,
  written b wops = concat (relay capC es1) ->
  s_closed stS = false ->
  decode_all w = (gs, []) ->
  filter not_padding gs = sent_frames (run_wops stS wops) ->
  quiet_for cR b (sent_frames (run_wops stS wops)) ->
  cfg_ok cR -> wf_sess stR -> s_closed stR = false -> dead stR = false ->
  lookup b (tbl stR) = Some s -> rd s = rd_init ->
  concat (recv_chunks ops) ++ rest = w -> caps_pos ops ->
  let '(_, _, lg) := run_rops cR stR [] ops in
  exists missing, to_target capS b (length (only b (gone stR))) lg ws ++ missing = source_bytes es1.
Proof. exact tunnel_upload_prefix. Qed.
Print Assumptions C01_tunnel_prefix.

(* ... and once the source has ended, the whole wire has arrived and the reader has drained its queue, a sink
   that accepted every write has received all of it *)
Theorem C01_tunnel_complete : forall capC capS es1 cR stR b s w gs ops stS wops,
  written b wops = concat (relay capC es1) -> ran_to_eof es1 = true ->
  s_closed stS = false ->
  decode_all w = (gs, []) ->
  filter not_padding gs = sent_frames (run_wops stS wops) ->
  quiet_for cR b (sent_frames (run_wops stS wops)) ->
  cfg_ok cR -> wf_sess stR -> s_closed stR = false -> dead stR = false ->
  lookup b (tbl stR) = Some s -> rd s = rd_init ->
  concat (recv_chunks ops) = w -> caps_pos ops ->
  let '(stR', _, lg) := run_rops cR stR [] ops in
  forall s', lookup b (tbl stR') = Some s' -> rd_pending_bytes (rd s') = [] ->
  to_target capS b (length (only b (gone stR))) lg [] = source_bytes es1.
Proof. exact tunnel_upload_complete. Qed.
Print Assumptions C01_tunnel_complete.

(* non-vacuity of the relay statements: a 4-byte buffer, a long read, then a short one over the stale tail, a
   refused write: the sink got [1;2;3;4] and [5] -- not [5;2;3;4] -- and nothing after the refusal *)
Example C01_relay_nonvacuous :
  let es := [(GotN [1; 2; 3; 4], WrOk); (GotN [5], WrOk); (GotN [6; 7], WrErr); (GotN [8], WrOk)] in
  relay 4 es = [[1; 2; 3; 4]; [5]] /\ lbuf (lp_run (lp_init 4) es) = [6; 7; 3; 4] /\
  source_bytes es = [1; 2; 3; 4; 5; 6; 7; 8] /\ reads_fit 4 es /\
  ran_to_eof [(GotN [1], WrOk); (GotEof, WrOk)] = true.
Proof.
  cbv zeta. split; [vm_compute; reflexivity|]. split; [vm_compute; reflexivity|]. split; [reflexivity|].
  split; [|reflexivity]. unfold reads_fit. repeat constructor; vm_compute; discriminate.
Qed.
