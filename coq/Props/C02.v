(* C02 -- streams sharing a session never see each other's bytes.
   `view b st` = everything the session and the application hold for stream id b: the live table entry
   (inbound queue + reader state, pending-open slot, closed flag) and the detached objects of earlier
   incarnations of b.  The statements are about handle_frame applied to ANY frame sequence (every arrival
   order of open / data / close frames of any ids, ids reused after close, ids never opened); `no_alert`
   excludes only the Alert frame, which ends the whole session (C09).  `cfg_ok` = the session's padding scheme
   text fits into a frame (otherwise the Settings reply cannot be encoded and the receive loop stops).
   A duplicate SYN for an id that is open replaces that stream's OWN queue (vstep, Syn arm: the old object is
   detached with its queue closed); it touches no other id.  Recorded here, not a violation. *)
From Coq Require Import List NArith ZArith.
From AnyTLS Require Import Bytes Cmd Generated Frame Reader Session FrameProofs
  SessTable SessHandle SessRecv SessPipe SessFin SessOpen.
From AnyTLS Require Conc ConcInv ConcIds.
Import ListNotations.
Import Sess.
Open Scope N_scope.

(* frames of stream a are invisible to stream b *)
Theorem C02_noninterference : forall c st fs a b,
  cfg_ok c -> a <> b -> Forall no_alert fs -> dead st = false ->
  view b (fst (handle_all c st fs)) =
  view b (fst (handle_all c st (filter (fun f => negb (fsid f =? a)) fs))).
Proof. exact noninterference. Qed.
Print Assumptions C02_noninterference.

(* one frame changes the view of its own id only, and by a function of that view alone *)
Theorem C02_locality : forall c st f b,
  no_alert f ->
  view b (fst (handle c st f)) = if fsid f =? b then vstep c f (view b st) else view b st.
Proof. exact handle_view. Qed.
Print Assumptions C02_locality.

(* the queue of b holds exactly the payloads of the PSH frames with id b that arrive while b is registered *)
Theorem C02_content : forall c st b s fs,
  cfg_ok c -> dead st = false -> lookup b (tbl st) = Some s ->
  Forall no_alert fs -> Forall (fun f => ends c b f = false) fs ->
  exists s', lookup b (tbl (fst (handle_all c st fs))) = Some s' /\
    rd s' = rd_pushes (rd s) (pushes b fs) /\ sclosed s' = sclosed s /\
    only b (gone (fst (handle_all c st fs))) = only b (gone st).
Proof. exact content. Qed.
Print Assumptions C02_content.

(* PSH / FIN / SYNACK for an id that is not registered (never opened, not yet opened, already finished)
   change nothing and produce nothing *)
Theorem C02_unknown_dropped : forall c st f,
  lookup (fsid f) (tbl st) = None ->
  fcmd f = Push \/ fcmd f = Fin \/ fcmd f = SynAck ->
  handle c st f = (st, []).
Proof. exact unknown_dropped. Qed.
Print Assumptions C02_unknown_dropped.

(* every data frame carries the id it was submitted under; ids handed out by open_stream are pairwise
   distinct while fewer than 2^32 streams were opened *)
Theorem C02_stamp : forall sid d n st,
  Forall (fun f => fcmd f = Push /\ fsid f = sid /\ lenN (fdata f) <= max_payload) (data_frames sid d) /\
  (s_closed st = false -> next_id st < 4294967296 -> N.of_nat n <= 4294967296 ->
   NoDup (snd (open_many n st))).
Proof. exact stamp. Qed.
Print Assumptions C02_stamp.

(* a received FIN takes exactly the entry of its own id out of the tables *)
Theorem C02_fin_own_id_only : forall c st sid d,
  wf_sess st ->
  let st' := fst (handle c st (mk Fin sid d)) in
  lookup sid (tbl st') = None /\
  (forall b, b <> sid -> lookup b (tbl st') = lookup b (tbl st) /\ only b (gone st') = only b (gone st)).
Proof. exact fin_own_id_only. Qed.
Print Assumptions C02_fin_own_id_only.

(* non-vacuity: a server session with streams 1 and 2 open; an interleaving with data for both, a stale
   id (3 after its FIN), a never-opened id (9) and a duplicate SYN for 1 *)
Example C02_nonvacuous :
  let c := {| c_role := Server; c_md5 := []; c_scheme := [] |} in
  let fs := [mk Syn 1 []; mk Syn 2 []; mk Syn 3 []; mk Push 1 [1; 1]; mk Fin 3 []; mk Push 3 [3];
             mk Push 2 [2]; mk Push 9 [9]; mk Syn 1 []; mk Push 1 [1]; mk Fin 9 []; mk Push 2 [2; 2]] in
  cfg_ok c /\ Forall no_alert fs /\ dead (init_sess c) = false /\
  view 2 (fst (handle_all c (init_sess c) fs)) =
    view 2 (fst (handle_all c (init_sess c) (filter (fun f => negb (fsid f =? 1)) fs))) /\
  (match fst (view 2 (fst (handle_all c (init_sess c) fs))) with Some s => rq (rd s) | None => [] end) = [[2]; [2; 2]] /\
  map (fun s => rq (rd s)) (snd (view 1 (fst (handle_all c (init_sess c) fs)))) = [[[1; 1]]] /\
  keys (tbl (fst (handle_all c (init_sess c) fs))) = [2; 1].
Proof.
  cbv zeta. split; [unfold cfg_ok; vm_compute; discriminate|].
  split; [repeat (apply Forall_cons; [unfold no_alert; cbn; discriminate|]); apply Forall_nil|].
  repeat split; vm_compute; reflexivity.
Qed.

(* streams opened CONCURRENTLY: on the interleaving model of the open / write / close paths (Model/Conc.v: open_stream
   examines the flag, allocates the id, inserts into the two tables and submits the SYN in separate steps, any number
   of tasks, any schedule, faults and closes included) every id a task holds was handed out by the counter, and no
   two tasks ever hold the same id -- two streams with one id would share an inbound queue *)
Theorem C02_concurrent_opens_distinct_ids : forall progs buf pend sched,
  let s := Conc.run (Conc.init progs buf pend) sched in
  (forall t sid, Conc.t_sid (Conc.tasks s t) = Some sid -> sid < Conc.next_sid s) /\
  (forall t1 t2 sid, Conc.t_sid (Conc.tasks s t1) = Some sid -> Conc.t_sid (Conc.tasks s t2) = Some sid -> t1 = t2).
Proof. exact ConcIds.run_ids_ok. Qed.
Print Assumptions C02_concurrent_opens_distinct_ids.

(* ... and neither stream table (`streams`, `stream_receive_tx`) ever holds an id twice, although the id is allocated and
   the two inserts are made in three separate steps that any other task's open, any FIN and any close() may interleave with *)
Theorem C02_one_stream_per_id : forall progs buf pend sched,
  let s := Conc.run (Conc.init progs buf pend) sched in
  NoDup (map fst (Conc.table s)) /\ NoDup (map fst (Conc.rtable s)) /\
  (forall sid u, In (sid, u) (Conc.table s) -> sid < Conc.next_sid s) /\
  (forall sid u, In (sid, u) (Conc.rtable s) -> sid < Conc.next_sid s).
Proof.
  intros progs buf pend sched s. destruct (ConcIds.run_tab_ok progs buf pend sched) as (R1 & T1 & R2 & T2 & _).
  repeat split; assumption.
Qed.
Print Assumptions C02_one_stream_per_id.

(* non-vacuity: two tasks whose opens are interleaved step by step hold the ids 1 and 2 *)
Example C02_concurrent_opens_nonvacuous :
  let s := Conc.run (Conc.init [[]; [Conc.COpen]; [Conc.COpen]] false []) [1;2;1;2;1;2;1;2;1;2;1;2;1;2;1;2;1;2]%nat in
  Conc.t_sid (Conc.tasks s 1%nat) = Some 1 /\ Conc.t_sid (Conc.tasks s 2%nat) = Some 2 /\ Conc.next_sid s = 3.
Proof. cbv zeta. repeat split; vm_compute; reflexivity. Qed.
