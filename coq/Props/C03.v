(* C03 -- frame encoding is a faithful, chunking-independent bijection.
   Only statements, `exact`, and Print Assumptions live here. *)
From Coq Require Import List NArith ZArith.
From AnyTLS Require Import Bytes Cmd Generated Frame FrameProofs.
Import ListNotations.
Open Scope N_scope.

(* encode then decode yields the same command, stream id and payload, and leaves
   whatever follows untouched *)
Theorem C03_roundtrip : forall f rest,
  wf_frame f -> lenN (fdata f) <= 65535 ->
  exists e, encode f = Some e /\ decode1 (e ++ rest) = Some (f, rest).
Proof. exact roundtrip. Qed.
Print Assumptions C03_roundtrip.

(* the encoder never emits a header whose length field differs from the payload *)
Theorem C03_len_field : forall f e,
  encode f = Some e ->
  exists c s3 s2 s1 s0 l1 l0,
    e = c :: s3 :: s2 :: s1 :: s0 :: l1 :: l0 :: fdata f /\
    de16 l1 l0 = lenN (fdata f) /\ lenN e = 7 + lenN (fdata f).
Proof. exact len_field. Qed.
Print Assumptions C03_len_field.

Theorem C03_oversize : forall f, 65535 < lenN (fdata f) -> encode f = None.
Proof. exact oversize. Qed.
Print Assumptions C03_oversize.

(* every byte string decodes without failure into frames + an undecodable rest, consuming
   exactly header+payload per frame and nothing of an incomplete frame *)
Theorem C03_total : forall b,
  wfb b ->
  exists rs r, decode_all_raw b = (rs, r) /\ decode_all b = (map cook rs, r) /\
    b = concat (map encode_raw rs) ++ r /\ decode1 r = None /\ Forall wf_rframe rs.
Proof. exact decode_total. Qed.
Print Assumptions C03_total.

Theorem C03_incomplete_untouched : forall b, decode1 b = None -> decode_all b = ([], b).
Proof. exact incomplete_untouched. Qed.
Print Assumptions C03_incomplete_untouched.

(* any concatenation of encodable frames followed by an incomplete tail decodes to those frames *)
Theorem C03_sequence : forall fs rest,
  Forall wf_frame fs -> Forall (fun f => lenN (fdata f) <= 65535) fs -> decode1 rest = None ->
  decode_all (concat (map encode_raw (map raw_of fs)) ++ rest) = (fs, rest).
Proof. exact decode_frames. Qed.
Print Assumptions C03_sequence.

(* feeding the decoder any fragmentation yields the same frames and remainder as feeding it whole *)
Theorem C03_chunking : forall chunks, feed_all [] chunks = decode_all (concat chunks).
Proof. exact chunking. Qed.
Print Assumptions C03_chunking.

Theorem C03_unknown_is_waste : forall c, 10 < c -> cmd_of_byte c = Waste.
Proof. exact cmd_of_byte_unknown. Qed.
Print Assumptions C03_unknown_is_waste.

Theorem C03_cmd_byte : forall c, cmd_of_byte (byte_of_cmd c) = c /\ byte_of_cmd c < 256.
Proof. intro c; split; [apply cmd_byte_roundtrip | apply byte_of_cmd_lt]. Qed.
Print Assumptions C03_cmd_byte.

(* non-vacuity: a concrete frame meets the hypotheses and the round trip computes *)
Example C03_nonvacuous :
  let f := {| fcmd := Push; fsid := 4294967295; fdata := [1; 2; 255] |} in
  wf_frame f /\ encode f = Some [2; 255; 255; 255; 255; 0; 3; 1; 2; 255] /\
  decode_all ([2; 255; 255; 255; 255; 0; 3; 1; 2; 255] ++ [200; 0; 0]) = ([f], [200; 0; 0]).
Proof.
  cbv zeta. split; [|split]; [| vm_compute; reflexivity | vm_compute; reflexivity].
  split; [vm_compute; reflexivity|]. repeat constructor.
Qed.
