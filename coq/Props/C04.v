(* C04 -- padding is invisible to the payload and keeps the wire well-formed.
   Only statements, `exact`, Print Assumptions and non-vacuity examples live here.
   Model: Model/Padding.v (write_packet = write_with_padding of session.rs; line_entries/sizes =
   generate_record_payload_sizes of factory.rs, one explicit draw per non-degenerate range). *)
From Coq Require Import List NArith ZArith.
From AnyTLS Require Import Bytes Cmd Generated Frame FrameProofs Text Padding PaddingProofs.
Import ListNotations.
Open Scope N_scope.

(* For every scheme the parser accepts, every packet counter value, every list of draws inside the ranges and
   every payload that is a concatenation of encodable frames: the writes of the packet concatenate to the
   payload followed by padding frames; the wire parses into complete frames with nothing left over; the first
   |fs| frames are exactly the submitted ones, in order, and all the others are the inserted padding frames.
   (Payload frames may themselves be Waste frames: padding is identified by position, not by command.) *)
Theorem C04_wellformed : forall raw sc counter draws fs ws,
  factory_new raw = Some sc ->
  Forall wf_frame fs -> Forall (fun f => lenN (fdata f) <= 65535) fs ->
  draws_ok (line_entries sc (pkt_index counter)) draws ->
  fst (write_packet true sc counter draws (payload_of fs)) = Writes ws ->
  exists ns, Forall (fun n => n <= 65535) ns /\
    concat ws = payload_of fs ++ concat (map waste ns) /\
    decode_all (concat ws) = (fs ++ map waste_f ns, []) /\
    firstn (length fs) (fst (decode_all (concat ws))) = fs /\
    skipn (length fs) (fst (decode_all (concat ws))) = map waste_f ns.
Proof. exact wellformed_packet. Qed.
Print Assumptions C04_wellformed.

(* the same for arbitrary pending bytes, client or server: nothing is altered, reordered, dropped or spliced,
   and no transport write is empty *)
Theorem C04_bytes_preserved : forall raw sc pads counter draws buf,
  factory_new raw = Some sc -> draws_ok (line_entries sc (pkt_index counter)) draws ->
  exists ws ns, fst (write_packet pads sc counter draws buf) = Writes ws /\
    concat ws = buf ++ concat (map waste ns) /\ Forall (fun n => n <= 65535) ns /\
    Forall (fun w : bytes => w <> []) ws.
Proof. exact bytes_preserved. Qed.
Print Assumptions C04_bytes_preserved.

(* no accepted scheme can make the sender crash (capacity overflow, out-of-range slice, add overflow) *)
Theorem C04_no_crash : forall raw sc pads counter draws buf,
  factory_new raw = Some sc -> draws_ok (line_entries sc (pkt_index counter)) draws ->
  fst (write_packet pads sc counter draws buf) <> Crash.
Proof. exact no_crash. Qed.
Print Assumptions C04_no_crash.

(* every size the generator hands to the loop is the check mark or fits one record *)
Theorem C04_sizes_expressible : forall raw sc k draws,
  factory_new raw = Some sc -> draws_ok (line_entries sc k) draws ->
  Forall (fun s => s = check_mark \/ (1 <= s <= 65535)%Z) (sizes (line_entries sc k) draws).
Proof. exact sizes_expressible. Qed.
Print Assumptions C04_sizes_expressible.

(* an inserted frame is cmd 0 (Waste), stream 0, zero-filled, and its length field is the number of zeros *)
Theorem C04_waste_shape : forall n rest,
  n <= 65535 ->
  decode1 (waste n ++ rest) = Some ({| fcmd := Waste; fsid := 0; fdata := zeros n |}, rest) /\
  lenN (waste n) = 7 + n.
Proof. exact waste_decodes. Qed.
Print Assumptions C04_waste_shape.

(* the whole life of a session: any number of packets, each a list of frames; every packet ends on a frame
   boundary and the wire decodes to the submitted frames with padding frames only after each packet's frames *)
Theorem C04_session : forall pads sc (pk : list (list Z * list frame)) c,
  Forall (fun dfs => frames_ok (snd dfs)) pk ->
  pkts_ok pads sc c (to_pkts pk) ->
  exists bursts nss,
    run_packets pads sc c (to_pkts pk) = map Writes bursts /\
    length nss = length pk /\ Forall (Forall (fun n => n <= 65535)) nss /\
    Forall2 (fun b x => concat b = payload_of (snd (fst x)) ++ concat (map waste (snd x))) bursts (combine pk nss) /\
    decode_all (concat (map (@concat N) bursts)) = (expected_frames pk nss, []).
Proof. exact session_wire. Qed.
Print Assumptions C04_session.

(* non-vacuity: the built-in scheme, second session packet (counter value 1 -> line 2 = 400-500,c,500-1000,...),
   draws inside the ranges, a payload of two frames one of which is itself a Waste frame *)
Example C04_nonvacuous :
  let fs := [ {| fcmd := Push; fsid := 1; fdata := [1; 2; 3] |}; {| fcmd := Waste; fsid := 9; fdata := [0; 7] |} ] in
  let draws := [450; 600; 700; 800; 900]%Z in
  factory_new default_scheme = Some builtin_scheme /\
  draws_ok (line_entries builtin_scheme (pkt_index 1)) draws /\
  Forall wf_frame fs /\
  exists ws, fst (write_packet true builtin_scheme 1 draws (payload_of fs)) = Writes ws /\
             map (@length N) ws = [450%nat] /\
             fst (decode_all (concat ws)) = fs ++ [waste_f 424].
Proof.
  cbv zeta. split; [vm_compute; reflexivity|]. split; [vm_compute; intuition discriminate|].
  split; [repeat constructor; vm_compute; reflexivity|].
  eexists. split; [vm_compute; reflexivity|]. split; vm_compute; reflexivity.
Qed.
