(* C05 -- early client packets are shaped as the scheme prescribes; the server never pads; no padding from
   packet `stop` on.  (Part (d), the order of bursts under concurrent writers, belongs to the write-path
   package: C11.)  Model: Model/Padding.v; `accepts` is the reference acceptor written from the property text
   (range based, no knowledge of the draws). *)
From Coq Require Import List NArith ZArith.
From AnyTLS Require Import Bytes Cmd Generated Frame FrameProofs Text Padding PaddingProofs.
From AnyTLS Require Conc ConcInv ConcLin.
Import ListNotations.
Open Scope N_scope.

(* part (d), ordering under concurrent writers: on the interleaving model of the write path (Model/Conc.v), for
   ALL programs and ALL schedules, while the transport has not failed the n-th burst that reaches the transport
   was numbered client_pkt_start + n + 1 -- so, by C05_index / C05_packet below, line n+1 of the scheme shaped it *)
Theorem C05_order : forall progs buf pend sched n i h,
  let s := Conc.run (Conc.init progs buf pend) sched in
  ConcLin.calm s -> nth_error (Conc.wire s) n = Some (i, h) -> i = (client_pkt_start + N.of_nat n + 1)%N.
Proof.
  intros progs buf pend sched n i h s C.
  apply (proj2 (ConcLin.run_idx_ok client_pkt_start sched _ (ConcInv.inv_init progs buf pend)
                  (ConcLin.idx_ok_init progs buf pend) C)).
Qed.
Print Assumptions C05_order.

(* whatever the shaping loop writes for line k is accepted by the reference acceptor for line k *)
Theorem C05_model_accepted : forall raw sc k draws p ws,
  factory_new raw = Some sc -> draws_ok (line_entries sc k) draws ->
  shape_loop (sizes (line_entries sc k) draws) p = Writes ws -> accepts (line_entries sc k) p ws = true.
Proof. exact model_accepted_entries. Qed.
Print Assumptions C05_model_accepted.

(* the acceptor is sound for C04: accepted writes are the payload followed by padding frames only *)
Theorem C05_accept_sound : forall es p ws,
  accepts es p ws = true ->
  exists ns, concat ws = p ++ concat (map waste ns) /\ Forall (fun n => n <= 65535) ns.
Proof. exact accept_sound. Qed.
Print Assumptions C05_accept_sound.

(* one packet at counter value c (index pkt_index c = c + 1): accepted by its line below stop, plain from stop on *)
Theorem C05_packet : forall raw sc counter draws p ws,
  factory_new raw = Some sc ->
  draws_ok (line_entries sc (pkt_index counter)) draws ->
  fst (write_packet true sc counter draws p) = Writes ws ->
  (pkt_index counter < sc_stop sc -> accepts (line_entries sc (pkt_index counter)) p ws = true) /\
  (sc_stop sc <= pkt_index counter -> ws = wr p).
Proof. exact accepted_packet. Qed.
Print Assumptions C05_packet.

(* (b) the k-th packet of a client session, k = i+1 = 1, 2, ..., is shaped by line k (the preamble is packet 0) *)
Theorem C05_index : forall raw sc pkts i d p,
  factory_new raw = Some sc ->
  nth_error pkts i = Some (d, p) -> N.of_nat i + 1 < 4294967296 ->
  draws_ok (line_entries sc (N.of_nat i + 1)) d ->
  exists ws, nth_error (run_packets true sc client_pkt_start pkts) i = Some (Writes ws) /\
    (N.of_nat i + 1 < sc_stop sc -> accepts (line_entries sc (N.of_nat i + 1)) p ws = true) /\
    (sc_stop sc <= N.of_nat i + 1 -> ws = wr p).
Proof. exact session_numbering. Qed.
Print Assumptions C05_index.

(* (c) from packet `stop` on: one plain write of the pending bytes, whatever the draws *)
Theorem C05_stop : forall raw sc pkts i d p,
  factory_new raw = Some sc ->
  nth_error pkts i = Some (d, p) -> N.of_nat i + 1 < 4294967296 -> sc_stop sc <= N.of_nat i + 1 ->
  nth_error (run_packets true sc client_pkt_start pkts) i = Some (Writes (wr p)).
Proof. exact stop_is_final. Qed.
Print Assumptions C05_stop.

(* (c) the server never pads *)
Theorem C05_server_plain : forall sc pkts c,
  server_send_padding = false /\
  run_packets server_send_padding sc c pkts = map (fun dp => Writes (wr (snd dp))) pkts.
Proof. exact server_plain. Qed.
Print Assumptions C05_server_plain.

(* (a) the authentication preamble is hash ++ be16 L ++ L zero bytes, L inside the first entry of line 0
   (L = 0 when line 0 is missing, empty or starts with a check mark) *)
Theorem C05_preamble : forall raw sc hash draws,
  factory_new raw = Some sc -> draws_ok (line_entries sc 0) draws ->
  exists L, concat (auth_writes hash (sizes (line_entries sc 0) draws)) = hash ++ be16 L ++ zeros L /\
    L <= 65535 /\
    match line_entries sc 0 with
    | ERange lo hi :: _ => (lo <= Z.of_N L <= hi)%Z
    | _ => L = 0
    end.
Proof. exact preamble. Qed.
Print Assumptions C05_preamble.

(* non-vacuity: built-in scheme, first session packet of 20 bytes with draw 150, and the preamble *)
Example C05_nonvacuous :
  factory_new default_scheme = Some builtin_scheme /\
  line_entries builtin_scheme 1 = [ERange 100 400] /\ draws_ok (line_entries builtin_scheme 1) [150%Z] /\
  (exists ws, fst (write_packet true builtin_scheme 0 [150%Z] (zeros 20)) = Writes ws /\
              map (@length N) ws = [150%nat] /\ accepts (line_entries builtin_scheme 1) (zeros 20) ws = true) /\
  accepts (line_entries builtin_scheme 1) (zeros 20) [zeros 20 ++ waste 400] = false /\
  lenN (concat (auth_writes (zeros 32) (sizes (line_entries builtin_scheme 0) []))) = 32 + 2 + 30.
Proof.
  split; [vm_compute; reflexivity|]. split; [vm_compute; reflexivity|].
  split; [vm_compute; intuition discriminate|].
  split; [eexists; split; [vm_compute; reflexivity|]; split; vm_compute; reflexivity|].
  split; vm_compute; reflexivity.
Qed.
