(* C06 -- only holders of the password get a session; the declared padding is skipped exactly.
   Only statements, `exact`, Print Assumptions and non-vacuity examples live here.
   H is the expected 32-byte hash (SHA-256 itself is the `sha2` crate: trusted). *)
From Coq Require Import List NArith ZArith.
From AnyTLS Require Import Bytes Reader ReaderProg Generated FactsParsers Auth ReaderProofs AuthProofs.
Import ListNotations.
Open Scope N_scope.

(* premises of the model, re-read from the sources on every run: the hash is 32 bytes, it is compared as a
   whole array with `!=`, and handle_connection propagates authenticate_client's result directly with
   `.await?` before the session is built (no timeout/select wrapper, no branch that goes on without an Ok) *)
Theorem C06_model_premises :
  auth_hash_len = 32 /\ auth_compares_whole_arrays = true /\ auth_result_propagated_directly = true.
Proof. exact (conj auth_hash_len_32 (conj auth_whole_array_comparison auth_gate_direct)). Qed.
Print Assumptions C06_model_premises.

(* accepted iff the first 32 bytes ARE the hash and the declared padding is completely there; what is
   left for frame parsing starts at the first byte after the padding, for every declared length *)
Theorem C06_iff : forall H b r, lenN H = 32 ->
  (auth_parse H b = Accept tt r <->
   takeN 32 b = H /\ 34 + auth_L b <= lenN b /\ r = dropN (34 + auth_L b) b).
Proof. intros H b r Hl. exact (auth_iff H Hl b r). Qed.
Print Assumptions C06_iff.

(* any other 32 bytes, however close, are refused *)
Theorem C06_reject : forall H b, 32 <= lenN b -> takeN 32 b <> H -> auth_parse H b = Reject E_AUTH.
Proof. exact auth_reject. Qed.
Print Assumptions C06_reject.

(* every proper prefix of an accepted preamble is incomplete; if the transport ends there the result
   is an error, not a session *)
Theorem C06_truncated : forall H p s,
  auth_parse H (p ++ s) = Accept tt [] -> s <> [] ->
  auth_parse H p = NeedMore /\ run_eof (auth_prog H) p = FFail E_EOF.
Proof. exact auth_truncated. Qed.
Print Assumptions C06_truncated.

(* the client's own preamble is accepted and consumed exactly for every padding0 length 0..65535 *)
Theorem C06_padding_skipped : forall H n rest, lenN H = 32 -> n < 65536 ->
  auth_parse H (auth_preamble H n ++ rest) = Accept tt rest.
Proof. intros H n rest Hl Hn. exact (auth_preamble_accepted H Hl n rest Hn). Qed.
Print Assumptions C06_padding_skipped.

(* handle_connection, any fragmentation of the transport: session events (frames parsed, streams,
   dials, replies) occur only after an accepted preamble and are exactly those of the session run on
   the bytes after it; a refused or truncated preamble yields no session event at all *)
Theorem C06_no_effects : forall H (ev : Type) (session : bytes -> bool -> list ev) chunks closed,
  (forall e, In (CSession e) (server_conn ev session H chunks closed) ->
     exists r, auth_parse H (concat chunks) = Accept tt r /\ In e (session r closed)) /\
  (In CAuthOk (server_conn ev session H chunks closed) ->
     exists r, auth_parse H (concat chunks) = Accept tt r) /\
  (forall r, auth_parse H (concat chunks) = Accept tt r ->
     server_conn ev session H chunks closed = CAuthOk :: map CSession (session r closed)).
Proof. intros H ev session chunks closed. exact (server_conn_no_effects H ev session chunks closed). Qed.
Print Assumptions C06_no_effects.

Theorem C06_conn_cases : forall H (ev : Type) (session : bytes -> bool -> list ev) chunks closed,
  server_conn ev session H chunks closed =
  match auth_parse H (concat chunks) with
  | Accept _ r => CAuthOk :: map CSession (session r closed)
  | Reject e => [CAuthFail e]
  | NeedMore => if closed then [CAuthFail E_EOF] else []
  end.
Proof. intros H ev session chunks closed. exact (server_conn_eq H ev session chunks closed). Qed.
Print Assumptions C06_conn_cases.

(* fragmentation independence: an answer is final, whatever arrives later *)
Theorem C06_prefix_stable : forall H b m,
  auth_parse H b <> NeedMore ->
  auth_parse H (b ++ m) = match auth_parse H b with Accept v r => Accept v (r ++ m) | x => x end.
Proof. intros H b m. exact (run_bytes_prefix_stable (auth_prog H) b m). Qed.
Print Assumptions C06_prefix_stable.

Theorem C06_fragmentation : forall H c1 c2 closed,
  concat c1 = concat c2 -> run_chunks (auth_prog H) c1 closed = run_chunks (auth_prog H) c2 closed.
Proof. intros H c1 c2 closed. exact (run_chunks_fragmentation (auth_prog H) c1 c2 closed). Qed.
Print Assumptions C06_fragmentation.

(* non-vacuity: a 32-byte hash, padding of 3, two bytes of frame data after it, split in the middle
   of the hash and of the length field *)
Example C06_nonvacuous :
  let H := repeat 7 32 in
  lenN H = 32 /\
  auth_parse H (H ++ [0; 3; 9; 9; 9; 200; 201]) = Accept tt [200; 201] /\
  auth_parse H (repeat 7 31 ++ [8; 0; 0]) = Reject E_AUTH /\
  server_conn N (fun r _ => r) H [repeat 7 10; repeat 7 22 ++ [0]; [3; 9]; [9; 9; 200]; [201]] false
    = [CAuthOk; CSession 200; CSession 201] /\
  server_conn N (fun r _ => r) H [repeat 7 31 ++ [6]; [0; 0; 200]] false = [CAuthFail E_AUTH].
Proof. cbv zeta. repeat split; vm_compute; reflexivity. Qed.
