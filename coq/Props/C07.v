(* C07 -- traffic goes to exactly the destination that was requested.
   (a) destination codec: client encoder (client.rs create_proxy_stream) . server decoder
       (handler.rs read_socks_addr) = identity, in any fragmentation; same for the UDP initial request;
   (b) the resolver cache never changes the port/host outcome.
   Environment as explicit arguments: parse_v4/parse_v6/parse_ip (std's address parsers, trusted),
   resolve (the resolver's answers over time).  A destination is V4 (4 octets) | V6 (16 octets) |
   Name (1..255 bytes of UTF-8); "is an IP literal" is decided by the parse oracles, exactly as the
   client decides it. *)
From Coq Require Import List NArith ZArith.
From AnyTLS Require Import Bytes Reader ReaderProg Generated Dest DnsCache ReaderProofs DestProofs DnsProofs.
Import ListNotations.
Open Scope N_scope.

Theorem C07_roundtrip : forall d p rest,
  wf_dest d -> p < 65536 -> dest_decode (dest_wire d p ++ rest) = Accept (d, p) rest.
Proof. exact dest_roundtrip. Qed.
Print Assumptions C07_roundtrip.

(* the client's encoder followed by the server's decoder yields the destination the application asked
   for (as the client itself classifies the host string) and the same port, leaving what follows *)
Theorem C07_client_roundtrip : forall parse_v4 parse_v6 host p rest,
  wf_dest (classify parse_v4 parse_v6 host) -> p < 65536 ->
  exists w, client_encode parse_v4 parse_v6 host p = Some w /\
            dest_decode (w ++ rest) = Accept (classify parse_v4 parse_v6 host, p) rest.
Proof. exact client_roundtrip. Qed.
Print Assumptions C07_client_roundtrip.

(* a name that is not an IP literal travels byte for byte; names above 255 bytes are refused by the
   client instead of being truncated *)
Theorem C07_name_verbatim : forall parse_v4 parse_v6 host,
  parse_v4 host = None -> parse_v6 host = None -> classify parse_v4 parse_v6 host = DName host.
Proof. exact classify_name. Qed.
Print Assumptions C07_name_verbatim.

Theorem C07_name_too_long : forall parse_v4 parse_v6 host p,
  parse_v4 host = None -> parse_v6 host = None -> 255 < lenN host ->
  client_encode parse_v4 parse_v6 host p = None.
Proof. exact client_encode_too_long. Qed.
Print Assumptions C07_name_too_long.

Theorem C07_udp_roundtrip : forall d p rest,
  wf_dest d -> p < 65536 -> udp_init_decode (udp_init_encode d p ++ rest) = Accept (d, p) rest.
Proof. exact udp_init_roundtrip. Qed.
Print Assumptions C07_udp_roundtrip.

(* every fragmentation of the stream across frames and reads *)
Theorem C07_chunking : forall d p rest chunks closed,
  wf_dest d -> p < 65536 -> concat chunks = dest_wire d p ++ rest ->
  exists st', run_rd dest_prog (rd_of_chunks chunks closed) = (st', SDone (d, p)) /\
              rd_pending_bytes st' = rest /\ rclosed st' = closed.
Proof. exact dest_chunking. Qed.
Print Assumptions C07_chunking.

Theorem C07_prefix_stable : forall b m,
  (dest_decode b <> NeedMore ->
   dest_decode (b ++ m) = match dest_decode b with Accept v r => Accept v (r ++ m) | x => x end) /\
  (udp_init_decode b <> NeedMore ->
   udp_init_decode (b ++ m) = match udp_init_decode b with Accept v r => Accept v (r ++ m) | x => x end).
Proof.
  intros b m. split; [exact (run_bytes_prefix_stable dest_prog b m) | exact (run_bytes_prefix_stable udp_init_prog b m)].
Qed.
Print Assumptions C07_prefix_stable.

(* what the server does with the decoded destination: the UDP handler exactly for names containing
   the reserved infix (the reference protocol's reservation, see DESIGN.md C07), TCP dial otherwise *)
Theorem C07_route : forall d,
  route d = RUdp <-> exists n, d = DName n /\ is_infix udp_magic_infix n.
Proof. exact route_udp_iff. Qed.
Print Assumptions C07_route.

(* (b) for every history of requests and cache clears, from ANY initial cache (this covers entries
   put there by earlier requests for the same host with other ports, for other hosts, and seeded
   entries of any age): the answer to a request for (host, p) has port p ... *)
Theorem C07_cache_port : forall parse_ip resolve c0 h a i p,
  In a (dns_run parse_ip resolve c0 h) -> a_res a = Some (i, p) -> p = a_port a.
Proof. intros parse_ip resolve c0 h a i p. exact (dns_run_port parse_ip resolve h c0 a i p). Qed.
Print Assumptions C07_cache_port.

(* ... and its address is the literal itself, or an address the resolver gave for THIS host at a fill
   at most one TTL old, or an address of the initial cache's entry for this host that has not expired *)
Theorem C07_cache_host : forall parse_ip resolve c0 h t,
  times_sorted t h -> forall a, In a (dns_run parse_ip resolve c0 h) ->
  match a_res a with
  | None => True
  | Some (i, p) =>
      p = a_port a /\
      (parse_ip (a_host a) = Some i \/
       (exists t0, (t0 <= a_time a <= t0 + dns_ttl)%Z /\ In i (resolve t0 (a_host a))) \/
       (exists e0, c_find c0 (a_host a) = Some e0 /\ In i (map fst (c_addrs e0)) /\ (a_time a <= c_expires e0)%Z))
  end.
Proof. intros parse_ip resolve c0 h t Hs a Hin. exact (dns_cache_sound parse_ip resolve c0 h t Hs a Hin). Qed.
Print Assumptions C07_cache_host.

Example C07_nonvacuous :
  let name := [101; 120; 97; 109; 112; 108; 101] in
  wf_dest (DName name) /\ wf_dest (DV4 [10; 0; 0; 1]) /\ wf_dest (DV6 (repeat 1 16)) /\
  dest_decode (dest_wire (DName name) 443 ++ [7]) = Accept (DName name, 443) [7] /\
  (exists st', run_rd dest_prog (rd_of_chunks [[3]; []; [7; 101; 120]; [97; 109; 112; 108; 101; 1]; [187; 7]] false)
               = (st', SDone (DName name, 443)) /\ rd_pending_bytes st' = [7]) /\
  map a_res (dns_run (fun _ => None) (fun _ _ => [[127; 0; 0; 1]]) []
               [(0%Z, HReq name 80); (5%Z, HReq name 443); (70000%Z, HReq name 8080)])
  = [Some ([127; 0; 0; 1], 80); Some ([127; 0; 0; 1], 443); Some ([127; 0; 0; 1], 8080)] /\
  times_sorted 0%Z [(0%Z, HReq name 80); (5%Z, HReq name 443); (70000%Z, HReq name 8080)].
Proof.
  cbv zeta. repeat split; try (vm_compute; reflexivity); try (vm_compute; discriminate).
  eexists. split; vm_compute; reflexivity.
Qed.
