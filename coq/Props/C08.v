(* C08 -- end of stream reaches the other side, after all the data.
   What holds (receive side, ordering, other direction, nothing retained) is proved below.
   What does NOT hold: C08_propagates ("when endpoint A's sender finishes, endpoint B's reader eventually
   returns Eof").  The faithful model of the four places where a local end of input is noticed
   (`site`: SOCKS5 client->proxy EOF, HTTP client->proxy EOF, server handler target->client EOF,
   Stream::poll_shutdown) writes nothing at all, and no local operation of a session ever produces a FIN
   frame, so B's reader stays Pending as long as the session lives: C08_propagates_refuted.
   This is KNOWN FINDING F1 (known_findings.json); the real-time driver `c08lo` confirms the four sites on
   every run.  "No task is retained" is observed by the driver, not proved. *)
From Coq Require Import List NArith ZArith.
From AnyTLS Require Import Bytes Cmd Generated Frame Reader Session FrameProofs ReaderProofs
  SessTable SessHandle SessRecv SessPipe SessFin SessEnd.
Import ListNotations.
Import Sess.
Open Scope N_scope.

(* a FIN cannot overtake data: everything dispatched for b before the FIN is queued before the queue is
   closed, and the reader obtains all of it before it is told Eof *)
Theorem C08_fin_after_data : forall c st b s gs1 d,
  cfg_ok c -> wf_sess st -> dead st = false ->
  lookup b (tbl st) = Some s -> rd_open (rd s) -> quiet_for c b gs1 ->
  let st' := fst (handle_all c st (gs1 ++ [mk Fin b d])) in
  lookup b (tbl st') = None /\
  exists sf, only b (gone st') = only b (gone st) ++ [sf] /\
    rclosed (rd sf) = true /\ rd_wf (rd sf) /\ sclosed sf = sclosed s /\
    rd_pending_bytes (rd sf) = rd_pending_bytes (rd s) ++ concat (pushes b gs1) /\
    forall caps, Forall (fun cap => 0 < cap) caps ->
      let '(_, got, e) := rd_read_script (rd sf) caps in
      (exists rest, got ++ rest = rd_pending_bytes (rd s) ++ concat (pushes b gs1)) /\
      (e = true -> got = rd_pending_bytes (rd s) ++ concat (pushes b gs1)).
Proof. exact fin_after_data. Qed.
Print Assumptions C08_fin_after_data.

(* a received FIN removes exactly the entries of its own id, touches nothing else, writes nothing *)
Theorem C08_fin_exact : forall c st sid d,
  wf_sess st ->
  let st' := fst (handle c st (mk Fin sid d)) in
  snd (handle c st (mk Fin sid d)) = [] /\
  lookup sid (tbl st') = None /\
  (forall b, b <> sid -> lookup b (tbl st') = lookup b (tbl st)) /\
  only sid (gone st') = detached (lookup sid (tbl st)) (only sid (gone st)) /\
  (forall b, b <> sid -> only b (gone st') = only b (gone st)) /\
  length (tbl st') = match lookup sid (tbl st) with Some _ => pred (length (tbl st)) | None => length (tbl st) end /\
  s_closed st' = s_closed st /\ dead st' = dead st /\ sendq st' = sendq st /\
  peer_version st' = peer_version st /\ next_id st' = next_id st.
Proof. exact fin_effect. Qed.
Print Assumptions C08_fin_exact.

(* after a FIN in one direction the other direction keeps working: at the endpoint that received it the
   session still frames data for that id and the stream object still accepts send_data; at the endpoint
   that sent it nothing changed, so data for that id is still queued *)
Theorem C08_other_direction : forall c st sid s d chunk gs,
  cfg_ok c -> wf_sess st -> s_closed st = false -> dead st = false ->
  lookup sid (tbl st) = Some s -> sclosed s = false -> quiet_for c sid gs ->
  let st' := fst (handle c st (mk Fin sid d)) in
  write_data st' sid chunk = (map Send (data_frames sid chunk), WOk) /\
  stream_send st' sid (length (only sid (gone st))) chunk = (with_sendq st' (sendq st' ++ [(sid, chunk)]), WOk) /\
  fst (write_ctrl st (mk Fin sid [])) = [Send (mk Fin sid [])] /\
  exists s', lookup sid (tbl (fst (handle_all c st gs))) = Some s' /\ rd s' = rd_pushes (rd s) (pushes sid gs).
Proof. exact other_direction. Qed.
Print Assumptions C08_other_direction.

(* receive-side cleanup: after the FIN no table contains the id; when the session ends no table contains
   anything *)
Theorem C08_cleanup : forall c st sid d,
  wf_sess st ->
  lookup sid (tbl (fst (handle c st (mk Fin sid d)))) = None /\
  (s_closed st = false -> tbl (fst (close st)) = []).
Proof. exact cleanup. Qed.
Print Assumptions C08_cleanup.

(* KNOWN FINDING F1: at none of the four sites is anything written when the local input ends, and no
   local operation (open, write_data_frame, the forwarding task, the dispatch of any received frame) ever
   produces a FIN frame.  Together with C01_prefix (a reader of an open stream is never told Eof unless a
   FIN / SYN for its id or the end of the session is dispatched) this refutes C08_propagates at all sites. *)
Theorem C08_propagates_refuted : forall site st sid k,
  snd (local_eof site st sid k) = [] /\
  (forall st2 sid2 chunk, no_fin (fst (write_data st2 sid2 chunk))) /\
  (forall st2, no_fin (snd (fst (open st2)))) /\
  (forall st2, no_fin (snd (pump st2))) /\
  (forall c st2 f, no_fin (snd (handle c st2 f))).
Proof. exact propagates_refuted. Qed.
Print Assumptions C08_propagates_refuted.

(* the concrete run behind the finding, for each site: A opens stream 1, writes data, its input ends;
   everything A ever wrote is delivered to B; B's reader of stream 1 then gets the data and Pending, not Eof *)
Example C08_refuted_witness : forall site,
  let cA := {| c_role := Client; c_md5 := []; c_scheme := [] |} in
  let cB := {| c_role := Server; c_md5 := []; c_scheme := [] |} in
  let '(stA1, o1, _) := open (init_sess cA) in
  let o2 := fst (write_data stA1 1 [7; 7]) in
  let '(stA2, o3) := local_eof site stA1 1 0 in
  let stB := fst (handle_all cB (init_sess cB) (sent_frames (o1 ++ o2 ++ o3))) in
  match lookup 1 (tbl stB) with
  | Some s => let '(_, got, e) := rd_read_script (rd s) [10; 10; 10] in (got, e) = ([7; 7], false)
  | None => False
  end.
Proof. intros site. destruct site; vm_compute; reflexivity. Qed.

(* non-vacuity of the positive statements: 5 bytes queued, 3 more dispatched, then the FIN *)
Example C08_nonvacuous :
  let c := {| c_role := Server; c_md5 := []; c_scheme := [] |} in
  let st := fst (handle_all c (init_sess c) [mk Syn 4 []; mk Syn 6 []; mk Push 4 [1; 2; 3; 4; 5]]) in
  let gs1 := [mk Push 6 [9]; mk Push 4 [6; 7; 8]] in
  let st' := fst (handle_all c st (gs1 ++ [mk Fin 4 []])) in
  cfg_ok c /\ wf_sess st /\ dead st = false /\ quiet_for c 4 gs1 /\
  (exists s, lookup 4 (tbl st) = Some s /\ rd_open (rd s)) /\
  keys (tbl st') = [6] /\
  (match only 4 (gone st') with
   | [sf] => let '(_, got, e) := rd_read_script (rd sf) [3; 3; 3; 3] in (got, e)
   | _ => ([], false)
   end) = ([1; 2; 3; 4; 5; 6; 7; 8], true).
Proof.
  cbv zeta. split; [unfold cfg_ok; vm_compute; discriminate|].
  split; [unfold wf_sess; vm_compute; repeat (constructor; [cbn; intuition discriminate|]); constructor|].
  split; [reflexivity|].
  split; [unfold quiet_for; repeat (apply Forall_cons; [split; [unfold no_alert; cbn; discriminate | vm_compute; reflexivity]|]); apply Forall_nil|].
  split; [eexists; split; [vm_compute; reflexivity | split; reflexivity]|].
  split; vm_compute; reflexivity.
Qed.
