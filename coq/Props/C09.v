(* C09 -- a dying session releases everyone waiting on it, promptly.
   Model: Model/Conc.v. Termination causes: owner close (CClose), peer EOF / read error / fatal Alert
   (CFeed InEof | InErr | InAlert, handled by the receive task), transport write failure (CFail, then any
   write), all at any point of any schedule. Every theorem quantifies over all programs and schedules. *)
From Coq Require Import List NArith Arith.
From AnyTLS Require Import Bytes Cmd Generated Frame Conc ConcInv ConcLin ConcDeath ConcTerm ConcStall ConcFair.
Import ListNotations.

(* 1. nothing can be blocked by the session's own locks: in every reachable state every task is finished,
      waiting for the PEER (data not yet sent / verdict not yet sent: released by 3. below or by the open
      timer CTimeout), the forwarding task waiting for the local APPLICATION's next chunk (parked in recv() of
      the outbound channel; woken by the next send or by close()), able to step, or queued on the writer
      mutex behind a holder that is able to step.
      The model includes the transport that stops accepting bytes (CStall: the peer no longer reads; nothing
      fails). `in_transport s t`: t is inside `writer.write_all(..).await` on such a transport, holding the writer
      mutex -- the one await under a session lock that no timer bounds. The full statement, true of the code as it
      is, therefore has two more alternatives (the last two below); they are the known finding F4, see 1b. *)
Theorem C09_no_deadlock : forall progs buf pend sched t,
  let s := run (init progs buf pend) sched in
  finished s t \/ (awaits_peer s t \/ awaits_app s t) \/ step s t <> None \/
  (waits_pc (pcof s t) = true /\ exists h, wr s = Some h /\ (step s h <> None \/ in_transport s h)) \/
  in_transport s t.
Proof. intros. apply no_deadlock. apply run_inv. apply inv_init. Qed.
Print Assumptions C09_no_deadlock.

(* 1a. as long as the transport has not stalled (every cause of termination the property lists: owner close, peer
       EOF, read error, fatal Alert, write failure), the statement the property asks for *)
Theorem C09_no_deadlock_live : forall progs buf pend sched t,
  let s := run (init progs buf pend) sched in
  stalled s = false ->
  finished s t \/ (awaits_peer s t \/ awaits_app s t) \/ step s t <> None \/
  (waits_pc (pcof s t) = true /\ exists h, wr s = Some h /\ step s h <> None).
Proof. intros progs buf pend sched t s St. apply no_deadlock_live; [apply run_inv; apply inv_init | exact St]. Qed.
Print Assumptions C09_no_deadlock_live.

(* 1b. KNOWN FINDING F4, proved of the model for every program and schedule: once a write is inside the stalled
       transport, it is there for ever, it keeps the writer mutex for ever, the transport is never shut down, and
       everything queued on the mutex stays queued: a close() -- whoever calls it: the owner, the receive task
       after EOF / error / Alert, the liveness monitor -- never returns, a queued writer never gets its error *)
Theorem C09_known_F4_wedged_forever : forall progs buf pend sched0 h sched,
  let s := run (init progs buf pend) sched0 in
  wedged s h ->
  let s' := run s sched in
  wedged s' h /\ forall w, In w (waiters s) -> In w (waiters s') /\ pcof s' w = pcof s w.
Proof. intros progs buf pend sched0 h sched s W. apply wedged_forever; [apply run_inv; apply inv_init | exact W]. Qed.
Print Assumptions C09_known_F4_wedged_forever.

Theorem C09_known_F4_close_never_returns : forall progs buf pend sched0 h w a k sched,
  let s := run (init progs buf pend) sched0 in
  wedged s h -> pcof s w = PC2wait a k ->
  let s' := run s sched in
  pcof s' w = PC2wait a k /\ shut s' = false /\ ~ quiescent_close s' /\ ~ finished s' w.
Proof.
  intros progs buf pend sched0 h w a k sched s W P.
  apply (wedged_close_never_returns s h w a k sched); [apply run_inv; apply inv_init | exact W | exact P].
Qed.
Print Assumptions C09_known_F4_close_never_returns.

(* 1c. ... and what F4 does NOT block: once the drain of close() has run (nobody is between the flag and the drain),
       every entry left in the stream tables is a late entry and every stream handle's inbound queue is closed --
       readers get end-of-stream, pending opens have their verdict (C09_drain_releases) -- whether or not that
       close() is now queued for ever behind the stalled write. No hypothesis about the transport. *)
Theorem C09_released_despite_stall : forall progs buf pend sched,
  let s := run (init progs buf pend) sched in
  closed s = true -> drained s ->
  (forall sid u, In (sid, u) (table s) -> late_entry s sid u) /\
  (forall sid u, In (sid, u) (rtable s) -> late_entry_r s sid u) /\
  (forall u sid, t_sid (tasks s u) = Some sid -> t_rclosed (tasks s u) = true \/ in_window_r (pcof s u) sid).
Proof. exact (fun progs buf pend sched => released_after_drain sched progs buf pend). Qed.
Print Assumptions C09_released_despite_stall.

(* both at once: task 1 is parked in a read; task 2's write is inside the transport when task 3 makes it stall; the
   owner (task 4) closes: its close() is queued behind task 2 for ever (1b) -- and task 1's read has returned
   end-of-stream all the same *)
Example C09_released_despite_stall_nonvacuous :
  let progs := [[]; [COpen; CRead]; [CWrite {| fcmd := Waste; fsid := 0; fdata := [1] |}]; [CStall]; [CClose]] in
  let s := run (init progs false []) [1;1;1;1;1;1;1;1;1; 2;2;2;2; 3; 2; 4;4;4;4; 1;1]%nat in
  wedged s 2%nat /\ closed s = true /\ drained s /\ shut s = false /\ pcof s 4%nat = PC2wait AfterClose WkPlain /\
  t_res (tasks s 1%nat) = [ResOk; ResEof] /\ finished s 1%nat.
Proof.
  cbv zeta. unfold wedged, in_transport, finished, drained. repeat split; try (vm_compute; reflexivity).
  - vm_compute. eauto.
  - intros x. destruct x as [|[|[|[|[|x]]]]]; vm_compute; reflexivity.
Qed.

(* the finding is not vacuous: task 1 writes a frame and is inside the transport when task 2 makes it stall; the
   owner (task 3) calls close(): the session is flagged closed, the tables are drained -- and close() sits in the
   lock queue behind task 1, under every continuation *)
Example C09_known_F4_witness :
  let progs := [[]; [CDisableBuf; CWrite {| fcmd := Waste; fsid := 0; fdata := [1] |}]; [CStall]; [CClose]] in
  let s := run (init progs false []) [1;1;1;1;1;2;1;3;3;3;3]%nat in
  wedged s 1%nat /\ closed s = true /\ shut s = false /\ pcof s 3%nat = PC2wait AfterClose WkPlain /\
  step s 1%nat = None /\ step s 3%nat = None.
Proof. cbv zeta. unfold wedged, in_transport. repeat split; try (vm_compute; reflexivity). vm_compute. eauto. Qed.

(* 2. ... and never for long: under ANY schedule a task takes at most `progw program` steps in total
      (8 per write, 11 per open, 3 per close, 9 per iteration of the forwarding loop, 4 per injected peer event, 1 otherwise), so every granted step is progress towards the end *)
Theorem C09_bounded_steps : forall progs buf pend sched t,
  t <> rtid -> (steps_of t (init progs buf pend) sched <= progw (nth t progs []))%nat.
Proof. intros. apply budget. assumption. Qed.
Print Assumptions C09_bounded_steps.

(* 2a. "promptly", as one statement: from EVERY reachable state, round-robin scheduling of the tasks brings the
       session's machinery to rest within (sum of the programs' budgets + 1) rounds, and at rest every task has
       finished its program, waits for the peer (data / verdict not yet sent), the forwarding task waits for the
       application, or the task is blocked by the stalled transport (F4: inside the write, or queued on the writer
       mutex behind such a write) -- nothing else: no other way of being stuck exists *)
Theorem C09_released_promptly : forall progs buf pend sched0,
  let n := length progs in
  let s0 := run (init progs buf pend) sched0 in
  let N := S (sumf (fun t => progw (nth t progs [])) (seq 0 n)) in
  let s := run s0 (rounds n N) in
  forall t, finished s t \/ awaits_peer s t \/ awaits_app s t \/ transport_blocked s t.
Proof. exact fair_release. Qed.
Print Assumptions C09_released_promptly.

(* 2a'. the same under ANY fair schedule, not only round-robin: a schedule that can be cut into more than
        (sum of budgets) segments each of which grants every task at least once, in any order, with any repetitions *)
Theorem C09_released_promptly_any_fair_schedule : forall progs buf pend sched0 segs,
  let n := length progs in
  let s0 := run (init progs buf pend) sched0 in
  Forall (covering n) segs ->
  (sumf (fun t => progw (nth t progs [])) (seq 0 n) < length segs)%nat ->
  let s := run s0 (concat segs) in
  forall t, finished s t \/ awaits_peer s t \/ awaits_app s t \/ transport_blocked s t.
Proof. exact fair_release_any. Qed.
Print Assumptions C09_released_promptly_any_fair_schedule.

(* 2b. ... and when that session is dead (closed, by whatever cause) and its transport has not stalled, nobody is
       parked in a read and nobody is inside close(): every task has finished, except the forwarding task parked
       in recv() (the missed notification: a leaked task, not a caller) and an open whose stream the peer's FIN
       removed before close() ran (its verdict comes from the open timer, CTimeout) *)
Theorem C09_dead_session_at_rest : forall progs buf pend sched0,
  let n := length progs in
  let s0 := run (init progs buf pend) sched0 in
  let N := S (sumf (fun t => progw (nth t progs [])) (seq 0 n)) in
  let s := run s0 (rounds n N) in
  closed s = true -> stalled s = false ->
  forall t, finished s t \/ awaits_app s t \/ awaits_verdict s t.
Proof. exact dead_at_rest. Qed.
Print Assumptions C09_dead_session_at_rest.

(* non-vacuity: a parked reader, a pending open and a writer whose fifth write hits the failed transport; after
   the 84 round-robin rounds of the bound the session is dead and shut down, the reader has seen end-of-stream,
   the pending open has its error, and all four tasks have finished *)
Example C09_promptly_nonvacuous :
  let w := {| fcmd := Waste; fsid := 0; fdata := [] |} in
  let progs := [[]; [COpen; CDisableBuf; CData [1]; CRead]; [COpen; CData [2]; CAwait];
                [CDisableBuf; CWrite w; CWrite w; CWrite w; CWrite w; CFail; CWrite w]] in
  let n := length progs in
  let N := S (sumf (fun t => progw (nth t progs [])) (seq 0 n)) in
  let s := run (init progs false []) (rounds n N) in
  N = 84%nat /\ closed s = true /\ stalled s = false /\ shut s = true /\
  t_res (tasks s 1%nat) = [ResOk; ResOk; ResOk; ResEof] /\ t_res (tasks s 2%nat) = [ResOk; ResOk; ResClosed] /\
  t_res (tasks s 3%nat) = [ResOk; ResOk; ResOk; ResOk; ResOk; ResOk; ResIo].
Proof. cbv zeta. repeat split; vm_compute; reflexivity. Qed.

(* 3. once the session is closed -- by whatever cause -- and nobody is still inside close(), the transport
      is shut down (or has stalled: close() gives its shutdown one second, `shutdown_tr`) and the two stream tables (`streams`, `stream_receive_tx`) hold nothing that any caller can reach:
      open_stream examines the closed flag, allocates the id, inserts the inbound queue into one table and the stream
      into the other -- four separate steps, no lock spans any two. An entry left in a table of a dead session was
      inserted by an open_stream call that had examined the flag BEFORE close() ran and did its insert AFTER the
      drain; that call is still in progress (between its inserts, or with its SYN not yet attempted) or has already
      failed and dropped the handle (`late_entry`, `late_entry_r`) *)
Theorem C09_dead_session : forall progs buf pend sched,
  let s := run (init progs buf pend) sched in
  closed s = true -> quiescent_close s ->
  (shut s = true \/ stalled s = true) /\
  (forall sid u, In (sid, u) (table s) -> late_entry s sid u) /\
  (forall sid u, In (sid, u) (rtable s) -> late_entry_r s sid u).
Proof. exact (fun progs buf pend sched => dead_session_released sched progs buf pend). Qed.
Print Assumptions C09_dead_session.

(* 3a. in EVERY state: an inbound queue without a `streams` entry belongs to an open_stream between its two inserts *)
Theorem C09_tables_consistent : forall progs buf pend sched,
  half_ok (run (init progs buf pend) sched).
Proof.
  intros. apply (run_invariant half_ok); [| apply inv_init | apply half_ok_init].
  intros s t s' HI Hh H. eapply step_half_ok; eauto.
Qed.
Print Assumptions C09_tables_consistent.

(* 3b. ... and every task that holds a stream handle has that stream's inbound queue closed: its reads
       return what was already queued and then end-of-stream; they never park. Exempt: a task whose
       open_stream is still inside the windows above -- it has no handle yet and never gets one (3c) *)
Theorem C09_readers_released : forall progs buf pend sched,
  let s := run (init progs buf pend) sched in
  closed s = true -> quiescent_close s ->
  forall u sid, t_sid (tasks s u) = Some sid -> t_rclosed (tasks s u) = true \/ in_window_r (pcof s u) sid.
Proof. exact (fun progs buf pend sched => dead_session_readers sched progs buf pend). Qed.
Print Assumptions C09_readers_released.

(* 3c. the concurrent open: an open_stream that registered its stream on an already closed session returns
       SessionClosed; nothing is written, the caller holds no handle *)
Theorem C09_concurrent_open_fails : forall s t sid,
  closed s = true -> pcof s t = PO1 sid ->
  exists s1 s2, step s t = Some s1 /\ step s1 t = Some s2 /\
    wire s2 = wire s /\ pending s2 = pending s /\ table s2 = table s /\
    t_sid (tasks s2 t) = None /\ exists pre, t_res (tasks s2 t) = pre ++ [ResClosed].
Proof. exact window_open_fails. Qed.
Print Assumptions C09_concurrent_open_fails.

(* 4. the drain step of close() releases every registered stream: its reader's queue is closed (EOF after the
      data already queued) and its pending open is resolved (with an error if it was still pending) *)
Theorem C09_drain_releases : forall s t a k s',
  pcof s t = PC1 a k -> step s t = Some s' ->
  table s' = [] /\
  forall sid o, In (sid, o) (table s) -> o <> t ->
    t_rclosed (tasks s' o) = true /\ t_verdict (tasks s' o) <> None.
Proof. exact close_drain_step. Qed.
Print Assumptions C09_drain_releases.

Theorem C09_pending_open_gets_error : forall tb ts sid o,
  In (sid, o) tb -> t_verdict (ts o) = None -> NoDup (map snd tb) ->
  t_verdict (drain tb ts o) = Some ResClosed.
Proof.
  induction tb as [|[sid' o'] tb IH]; intros ts sid o Hin Hv Hnd; [destruct Hin|].
  cbn [drain]. cbn in Hnd. inversion Hnd as [|? ? Hn Hnd']; subst. destruct Hin as [E|Hin].
  - inversion E; subst. rewrite drain_other by exact Hn. rewrite upd_same. cbn. rewrite Hv. reflexivity.
  - assert (o <> o') as Hne.
    { intros ->. apply Hn. apply in_map_iff. exists (sid, o'). split; [reflexivity | exact Hin]. }
    apply (IH _ sid); [exact Hin | rewrite upd_other by exact Hne; exact Hv | exact Hnd'].
Qed.
Print Assumptions C09_pending_open_gets_error.

(* 5. every later attempt fails with an error and leaves the transport untouched *)
Theorem C09_write_after_close_fails : forall s t k f,
  closed s = true -> pcof s t = PW0 k f ->
  exists s', step s t = Some s' /\ wire s' = wire s /\ pending s' = pending s /\
             exists pre, t_res (tasks s' t) = pre ++ [ResClosed].
Proof. exact write_on_closed_fails. Qed.
Print Assumptions C09_write_after_close_fails.

Theorem C09_open_after_close_fails : forall s t rest,
  closed s = true -> pcof s t = PIdle -> t_prog (tasks s t) = COpen :: rest ->
  exists s', step s t = Some s' /\ table s' = table s /\ exists pre, t_res (tasks s' t) = pre ++ [ResClosed].
Proof. exact open_on_closed_fails. Qed.
Print Assumptions C09_open_after_close_fails.

Theorem C09_write_after_shutdown_fails : forall s t k held,
  shut s = true -> pcof s t = PW4 k held ->
  exists s', step s t = Some s' /\ wire s' = wire s /\ pcof s' t = PE0 AfterIoErr k.
Proof. exact write_on_shut_fails. Qed.
Print Assumptions C09_write_after_shutdown_fails.

(* 6. a transport failure closes the session: the failing writer releases the lock first (PE0 is reached
      with the lock free or handed over), so close() can take it -- the lock discipline of C11 holds on
      every path, including the failing ones *)
Theorem C09_lock_discipline : forall progs buf pend sched, Inv (run (init progs buf pend) sched).
Proof. intros. apply run_inv. apply inv_init. Qed.
Print Assumptions C09_lock_discipline.

(* non-vacuity: a writer parked in the lock queue, a parked reader and a pending open while the transport
   fails under the lock holder; after the drain everybody is done, the session is closed, shut and empty *)
Example C09_nonvacuous :
  let progs := [[]; [COpen; CDisableBuf; CData [1]; CRead]; [COpen; CData [2]; CTimeout]; [CFail]] in
  let sched := [1;1;1;1;1;1;1;1;1;1;2;2;2;2;2;2;2;1;1;2;3;1;2;1;2;1;2;1;2;1;2;1;2;1;2;1;2;1;2;1;2;1;2]%nat in
  let s := run (init progs false []) sched in
  closed s = true /\ shut s = true /\ table s = [] /\ quiescent_close s /\
  t_res (tasks s 1%nat) = [ResOk; ResOk; ResIo; ResEof] /\
  t_res (tasks s 2%nat) = [ResOk; ResIo; ResClosed].
Proof.
  cbv zeta. repeat split; try (vm_compute; reflexivity).
  intros x. destruct x as [|[|[|[|x]]]]; vm_compute; reflexivity.
Qed.

(* non-vacuity of the windows: task 1 passes the closed check of open_stream, task 2 closes the session
   completely, then task 1 allocates its id and does its two inserts into the drained tables: the session is dead,
   the entries are there, task 1 is inside the window; two steps later its open has failed and it holds no handle *)
Example C09_window_nonvacuous :
  let progs := [[]; [COpen; CRead]; [CClose]] in
  let s1 := run (init progs false []) [1;2;2;2;1]%nat in
  let s := run s1 [1]%nat in
  closed s1 = true /\ quiescent_close s1 /\ table s1 = [] /\ rtable s1 = [(1%N, 1%nat)] /\ pcof s1 1%nat = PO0b 1 /\
  closed s = true /\ shut s = true /\ quiescent_close s /\ table s = [(1%N, 1%nat)] /\
  pcof s 1%nat = PO1 1 /\ t_sid (tasks s 1%nat) = Some 1%N /\ t_rclosed (tasks s 1%nat) = false /\
  let s2 := run s [1;1;1]%nat in
  t_res (tasks s2 1%nat) = [ResClosed; ResNoStream] /\ t_sid (tasks s2 1%nat) = None /\ wire s2 = [].
Proof.
  cbv zeta. repeat split; try (vm_compute; reflexivity);
    intros x; destruct x as [|[|[|x]]]; vm_compute; reflexivity.
Qed.
