(* C10 -- opening a stream reports the server's verdict exactly once.
   The opener of stream sid (client.rs create_proxy_stream) waits on the one-shot slot of its stream object
   with a 30 s timer; `crun` runs any history of events (frames dispatched, local close, transport end,
   timers of any opener) and polls the opener after each; `expect` is the specification written from the
   property text: the first event among {SYNACK for sid while sid is registered (empty payload = success,
   otherwise the server's reason), end of the session while sid is registered, sid's own timer} decides, and
   nothing after it -- later, duplicated or foreign-id events -- changes the outcome.
   (An id that was taken out of the tables by a FIN before any verdict is no longer resolved by SYNACK or by
   the end of the session: its opener gets the timeout error.  Recorded by `expect`, reg = false.) *)
From Coq Require Import List NArith ZArith.
From AnyTLS Require Import Bytes Cmd Generated Frame Reader Session FrameProofs
  SessTable SessHandle SessRecv SessOpen.
Import ListNotations.
Import Sess.
Open Scope N_scope.

Theorem C10_exactly_once : forall c sid es st,
  cfg_ok c -> is_client c = true ->
  ((reg_inv st sid /\ alive_of st = true) \/ unreg_inv st sid) ->
  snd (crun c sid (st, Waiting) es) =
  expect sid (match lookup sid (tbl st) with Some _ => true | None => false end) (alive_of st) es.
Proof. exact crun_expect. Qed.
Print Assumptions C10_exactly_once.

(* once the opener has its outcome no further history changes it (model and specification) *)
Theorem C10_no_second_outcome : forall c sid es st o es1 reg alive es2,
  snd (crun c sid (st, Done o) es) = Done o /\
  (expect sid reg alive es1 = Done o -> expect sid reg alive (es1 ++ es2) = Done o).
Proof. exact no_second_outcome. Qed.
Print Assumptions C10_no_second_outcome.

(* the hypotheses of C10_exactly_once hold right after open_stream on a live session for a fresh id *)
Theorem C10_open_registers : forall st st' o sid,
  lookup (next_id st) (tbl st) = None -> only (next_id st) (gone st) = [] ->
  open st = (st', o, Some sid) ->
  sid = next_id st /\ reg_inv st' sid /\ alive_of st' = alive_of st /\ s_closed st = false /\
  o = [Send (mk Syn sid [])].
Proof. exact open_registers. Qed.
Print Assumptions C10_open_registers.

(* server half: SYNACK(ok) only after a successful dial (the UDP-over-TCP pseudo destination has no dial),
   SYNACK(text) only after a failed or timed-out one, nothing for a peer below version 2, and never any
   other frame; the peer version only moves by a Settings frame carrying v >= 2 *)
Theorem C10_success_after_dial : forall st sid d,
  s_closed st = false -> dial_wf d ->
  (In (Send (mk SynAck sid [])) (serve_open st sid d) <-> (2 <= peer_version st /\ (d = DialOk \/ d = DialUdp))) /\
  (forall m, m <> [] -> In (Send (mk SynAck sid m)) (serve_open st sid d) <->
                        (2 <= peer_version st /\ (d = DialFail m \/ d = DialTimeout m))) /\
  (peer_version st < 2 -> serve_open st sid d = []) /\
  (forall o, In o (serve_open st sid d) -> exists m, o = Send (mk SynAck sid m)).
Proof. exact success_after_dial. Qed.
Print Assumptions C10_success_after_dial.

Theorem C10_peer_version : forall c st f,
  peer_version (fst (handle c st f)) <> peer_version st ->
  (fcmd f = Settings /\ is_client c = false /\ 2 <= peer_version (fst (handle c st f))) \/
  (fcmd f = ServerSettings /\ is_client c = true).
Proof. exact pv_changes_only_by_settings. Qed.
Print Assumptions C10_peer_version.

(* front-ends: 'succeeded' / '200' only when the open succeeded, every other outcome is answered with the
   failure reply and nothing else, and no application byte is forwarded unless the open succeeded (for
   SOCKS5 and CONNECT: not before the success reply) *)
Theorem C10_front_end : forall fe o early app,
  (In ReplyOk (front_end fe o early app) -> o = OOk) /\
  (forall x, In (ToStream x) (front_end fe o early app) -> o = OOk) /\
  (o <> OOk -> front_end fe o early app = [ReplyFail]) /\
  (o = OOk -> fe <> HttpPlain -> front_end fe o early app = ReplyOk :: map ToStream app).
Proof. exact front_end_spec. Qed.
Print Assumptions C10_front_end.

(* non-vacuity: open on a fresh client; a foreign SYNACK, a PSH, then SYNACK(error), then a late SYNACK(ok),
   a close and the timer: the outcome is the server's reason, once *)
Example C10_nonvacuous :
  let c := {| c_role := Client; c_md5 := []; c_scheme := [] |} in
  let '(st, _, _) := open (init_sess c) in
  let es := [EFrame (mk SynAck 2 []); EFrame (mk Push 1 [5]); ETimeout 2; EFrame (mk SynAck 1 [110; 111]);
             EFrame (mk SynAck 1 []); EClose; ETimeout 1] in
  cfg_ok c /\ is_client c = true /\ reg_inv st 1 /\ alive_of st = true /\
  snd (crun c 1 (st, Waiting) es) = Done (OErr [110; 111]) /\
  snd (crun c 1 (st, Waiting) [EFrame (mk Fin 1 []); EFrame (mk SynAck 1 []); EEof; ETimeout 1]) = Done OTimeout /\
  snd (crun c 1 (st, Waiting) [EFrame (mk Alert 0 [33]); EFrame (mk SynAck 1 [])]) = Done OClosed.
Proof.
  cbv zeta. split; [unfold cfg_ok; vm_compute; discriminate|]. split; [reflexivity|].
  split; [eexists; repeat split; vm_compute; reflexivity|].
  repeat split; vm_compute; reflexivity.
Qed.
