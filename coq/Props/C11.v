(* C11 -- placeholder until the proofs land (replaced below) *)
From AnyTLS Require Import Conc.
Theorem C11_placeholder : forall s t, step_or_skip s t = match step s t with Some s' => s' | None => s end.
Proof. reflexivity. Qed.
