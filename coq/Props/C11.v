(* C11 -- concurrent writers cannot scramble the wire.
   Model: Model/Conc.v (small-step interleaving semantics of write_frame / open_stream / close at the
   granularity of the scheduling hook points). All theorems quantify over every program list, every
   initial buffering mode and pending buffer, and EVERY schedule (list of task ids of any length). *)
From Coq Require Import List NArith.
From AnyTLS Require Import Bytes Cmd Generated FactsConc Frame Conc ConcInv ConcLin ConcOrder ConcPump.
Import ListNotations.

(* writer-lock discipline in every reachable state: the holder is exactly the task inside its
   critical section, the FIFO queue holds exactly the parked tasks, no duplicates *)
Theorem C11_lock_discipline : forall progs buf pend sched,
  Inv (run (init progs buf pend) sched).
Proof. intros. apply run_inv. apply inv_init. Qed.
Print Assumptions C11_lock_discipline.

Theorem C11_mutual_exclusion : forall progs buf pend sched t1 t2,
  let s := run (init progs buf pend) sched in
  holds_pc (pcof s t1) = true -> holds_pc (pcof s t2) = true -> t1 = t2.
Proof. intros. eapply holder_unique; eauto. apply run_inv. apply inv_init. Qed.
Print Assumptions C11_mutual_exclusion.

(* contiguity: a step changes the wire only by appending one whole burst (pending ++ [frame], taken
   under the lock), and only the lock holder does so *)
Theorem C11_burst_atomic : forall s t s',
  Inv s -> step s t = Some s' ->
  wire s' = wire s \/
  exists k held, pcof s t = PW4 k held /\ wr s = Some t /\ wire s' = wire s ++ [((pkt s + 1)%N, held)].
Proof. exact step_wire. Qed.
Print Assumptions C11_burst_atomic.

(* nothing dropped, duplicated or reordered: while the transport has not failed, the frames on the wire,
   followed by the burst in flight and the pending buffer, are exactly the linearisation log *)
Theorem C11_wire_is_log : forall progs buf pend sched,
  let s := run (init progs buf pend) sched in
  calm s -> flat_wire s ++ inflight s ++ pending s = lin s.
Proof. intros. apply (run_lin_ok sched _ (inv_init progs buf pend) (lin_ok_init progs buf pend)). assumption. Qed.
Print Assumptions C11_wire_is_log.

(* the log is append-only, and a task appends exactly the frame of the write_frame call it is executing:
   since a task executes its calls one after the other, its frames enter the log -- hence the wire -- in the
   order it submitted them; a stream's SYN is logged inside open_stream, before the opener can submit data *)
Theorem C11_log_append_only : forall progs buf pend sched,
  exists l, lin (run (init progs buf pend) sched) = pend ++ l.
Proof. intros. apply (run_lin_grows sched _ (inv_init progs buf pend)). Qed.
Print Assumptions C11_log_append_only.

Theorem C11_linearisation_point : forall s t s',
  Inv s -> step s t = Some s' ->
  lin s' = lin s \/
  exists k f, (pcof s t = PW1 k f \/ pcof s t = PW3 k f) /\ lin s' = lin s ++ [(t, f)].
Proof. exact step_lin_point. Qed.
Print Assumptions C11_linearisation_point.

(* per-task order, directly: for every schedule, while the session is open, the frames of task t in the log (hence, by
   C11_wire_is_log, on the wire / in flight / pending, in that order) are exactly the frames t has submitted so far --
   `t_sub`, appended whenever t enters write_frame: the SYN inside open_stream, then its data frames in program
   order -- except the one it is still submitting (`in_hand`) *)
Theorem C11_task_order : forall progs buf pend sched t,
  Forall (fun x => fst x <> t) pend ->
  let s := run (init progs buf pend) sched in
  closed s = false -> mine t (lin s) ++ in_hand (pcof s t) = t_sub (tasks s t).
Proof. exact run_order. Qed.
Print Assumptions C11_task_order.

(* the client's settings frame (buffered by start_client before any other task exists) is the first
   frame of the session *)
Theorem C11_settings_first : forall progs x pend sched,
  let s := run (init progs true (x :: pend)) sched in
  calm s -> forall y rest, flat_wire s = y :: rest -> y = x.
Proof. exact settings_first. Qed.
Print Assumptions C11_settings_first.

(* ordering clause of C05: the n-th burst on the transport was numbered n (so padding line n shaped it) *)
Theorem C11_packet_order : forall progs buf pend sched n i h,
  let s := run (init progs buf pend) sched in
  calm s -> nth_error (wire s) n = Some (i, h) -> i = (client_pkt_start + N.of_nat n + 1)%N.
Proof.
  intros progs buf pend sched n i h s C.
  apply (proj2 (run_idx_ok client_pkt_start sched _ (inv_init progs buf pend) (idx_ok_init progs buf pend) C)).
Qed.
Print Assumptions C11_packet_order.

(* the outbound data path of proxied streams (Stream::send_data -> unbounded channel -> forwarding task ->
   write_data_frame): for every program list in which task p does nothing but run the forwarding loop and nobody
   else runs it, every schedule, and as long as the session is open: what p has submitted to write_frame, then the
   chunk it holds, then the channel are -- in this order -- exactly what the applications pushed. Nothing is dropped,
   duplicated or reordered between the application and write_frame; with C11_task_order (p's submissions are, in order,
   p's entries of the log) and C11_wire_is_log (the log is the wire) the chunks of one stream reach the wire in the
   order the application wrote them. *)
Theorem C11_forwarding_fifo : forall p progs buf pend sched,
  p <> rtid -> only_pump (nth p progs []) -> (forall u, u <> p -> ~ In CPump (nth u progs [])) ->
  let s := run (init progs buf pend) sched in
  closed s = false ->
  t_sub (tasks s p) ++ pre_hand (pcof s p) ++ map snd (dq s) = map snd (pushed s).
Proof. intros p progs buf pend sched Hp. exact (pump_fifo p Hp progs buf pend sched). Qed.
Print Assumptions C11_forwarding_fifo.

(* ... and after the stream's SYN: in the linearisation log (= the wire, C11_wire_is_log) every frame logged by the
   forwarding task is preceded by the SYN frame of its stream, and everything still in the channel belongs to a stream
   whose SYN is already logged. The SYN is written directly by open_stream (task u), the data by the forwarding task p:
   this is an ordering ACROSS tasks, obtained from the invariant "a task that holds a stream id is either still inside
   open_stream with that stream's SYN in hand, or the SYN is in the log" (open_ok), the FIFO above and C11_task_order.
   "A stream opened on a brand-new or shared session never has its first data frame overtaken or dropped." *)
Theorem C11_forwarding_syn_first : forall p progs buf pend sched,
  p <> rtid -> only_pump (nth p progs []) -> (forall u, u <> p -> ~ In CPump (nth u progs [])) ->
  Forall (fun x => fst x <> p) pend ->
  let s := run (init progs buf pend) sched in
  closed s = false ->
  (forall l1 l2 f, lin s = l1 ++ (p, f) :: l2 -> exists u, In (u, syn_frame (fsid f)) l1) /\
  (forall u f, In (u, f) (pushed s) -> In (u, syn_frame (fsid f)) (lin s)).
Proof. intros p progs buf pend sched Hp A B C. exact (run_syn_first p Hp progs buf pend sched A B C). Qed.
Print Assumptions C11_forwarding_syn_first.

(* non-vacuity: two openers racing on a fresh session with pre-emption in the middle of both opens *)
Example C11_nonvacuous :
  let progs := [[]; [COpen; CDisableBuf; CData [1]]; [COpen; CDisableBuf; CData [2]]] in
  let settings := (99%nat, {| fcmd := Settings; fsid := 0; fdata := [] |}) in
  let s := run (init progs true [settings])
               [1;1;1;1;1;1;1;2;2;2;2;2;2;2;1;2;1;2;1;2;1;2;1;2;1;2;1;2;1;2]%nat in
  calm s /\ map snd (flat_wire s) =
    [ {| fcmd := Settings; fsid := 0; fdata := [] |}; syn_frame 1; syn_frame 2;
      psh_frame 1 [1]; psh_frame 2 [2] ]%N /\ map fst (wire s) = [1; 2; 3]%N.
Proof. vm_compute. repeat split; reflexivity. Qed.

(* non-vacuity of the forwarding path: a sender opens a stream and pushes two chunks while the forwarding task is
   pre-empted in the middle of writing the first; at the end both are on the wire in order, after the SYN *)
Example C11_forwarding_nonvacuous :
  let progs := [[]; [COpen; CDisableBuf; CSend [1]; CSend [2]]; [CPump; CPump; CPump; CPump]] in
  let sched := [2;1;1;1;1;1;1;1;1;1;1;1;1;2;1;2;2;1;2;2;2;2;2;2;2;2;2;2;2;2;2]%nat in
  let s := run (init progs true []) sched in
  closed s = false /\ map snd (pushed s) = [psh_frame 1 [1]; psh_frame 1 [2]] /\
  map snd (flat_wire s) = [syn_frame 1; psh_frame 1 [1]; psh_frame 1 [2]] /\ dq s = [].
Proof. cbv zeta. repeat split; vm_compute; reflexivity. Qed.
