(* C12 -- the session pool never hands out or destroys the wrong session.
   Model: Model/Pool.v (session_pool.rs + the create_stream / create_new_session glue of client.rs).
   Only statements, `exact`, Print Assumptions and non-vacuity examples live here.
   Reaper passes: copy 0 = cleanup_expired(), copy 1 = the periodic task (`copy_ok copy`). *)
From Coq Require Import List NArith ZArith Bool.
From AnyTLS Require Import Generated Pool PoolProofs PoolReuseProofs PoolF2Proofs TimedLegacy.
Import ListNotations.
Open Scope Z_scope.

(* whatever the state of the pool (hence: after every history, under every configuration), a session handed
   out by get_idle_session / create_stream / create_new_session is not closed at that step *)
Theorem C12_get_not_closed : forall c now st o st' r sid,
  pool_step c now st o = (st', r) -> handed_out r sid -> p_closed st' sid = false.
Proof. exact step_hands_out_open. Qed.
Print Assumptions C12_get_not_closed.

(* after every reaper pass the number of live idle sessions is at least min(min_idle, live idle sessions before);
   for every history, every timeout and every min_idle including 0 *)
Theorem C12_min_idle : forall copy c now h, copy_ok copy ->
  let st := pool_run c pool_init h in
  let st' := pool_reap_step copy c now st in
  (N.min (c_min c) (N.of_nat (live_cnt (p_closed st) (p_idle st)))
   <= N.of_nat (live_cnt (p_closed st') (p_idle st')))%N.
Proof. intros copy c now h Hc. apply tick_min_idle; [assumption|apply wf_run]. Qed.
Print Assumptions C12_min_idle.

(* surplus, per pass: of the sessions a reaper pass leaves in the map, at most min_idle have been idle for
   the timeout or longer -- every other expired session is closed by that very pass (any state) *)
Theorem C12_surplus_each_pass : forall copy c now st, copy_ok copy ->
  (N.of_nat (expired_cnt (c_timeout c) now (p_idle (pool_reap_step copy c now st))) <= c_min c)%N.
Proof. exact tick_expired_bound. Qed.
Print Assumptions C12_surplus_each_pass.

(* surplus, eventually: if nothing is inserted after instant t, then after a reaper pass at any instant
   >= t + timeout, and from then on, at most min_idle sessions are idle; the periodic reaper (interval I > 0,
   passes at the multiples of I) has such a pass before t + timeout + I *)
Theorem C12_surplus : forall copy c h1 h2 h3 t now, copy_ok copy ->
  Forall (fun x => fst x <= t) h1 ->
  Forall (fun x => ~ inserts (snd x)) h2 -> Forall (fun x => ~ inserts (snd x)) h3 ->
  t + c_timeout c <= now ->
  let st := pool_run c pool_init (h1 ++ h2) in
  (N.of_nat (length (p_idle (pool_run c (pool_reap_step copy c now st) h3))) <= c_min c)%N.
Proof. exact surplus_quiet. Qed.
Print Assumptions C12_surplus.

Theorem C12_reaper_schedule : forall I t, 0 < I -> exists k, t <= k * I < t + I.
Proof. exact tick_within_interval. Qed.
Print Assumptions C12_reaper_schedule.

(* a reaper pass closes nothing but live, expired sessions that sit in the idle map (any state) *)
Theorem C12_reaper_closes_only_idle_expired : forall copy c now st, copy_ok copy -> forall sid,
  p_closed st sid = false -> p_closed (pool_reap_step copy c now st) sid = true ->
  exists e, In e (p_idle st) /\ e_sid e = sid /\ (Z.max 0 (now - e_since e) <? c_timeout c) = false.
Proof. exact tick_closes_only_idle. Qed.
Print Assumptions C12_reaper_closes_only_idle_expired.

(* KNOWN FINDING F2. `reaper closes only sessions without open streams` holds outside the known class
   "the idle map holds a session that carries a stream" ... *)
Theorem C12_reaper_only_unused_outside_known : forall copy c now st, copy_ok copy ->
  (forall e, In e (p_idle st) -> p_busy st (e_sid e) = 0%N) ->
  forall sid, p_closed st sid = false -> p_closed (pool_reap_step copy c now st) sid = true ->
    p_busy st sid = 0%N.
Proof. exact tick_only_unused_if_map_clean. Qed.
Print Assumptions C12_reaper_only_unused_outside_known.

(* ... and fails inside it: the minimal history (min_idle = 0: one request, stream still open, pass after the
   timeout); a new session is put into the idle map while its first stream is being opened *)
Theorem C12_known_F2_witness :
  let st := pool_run cfg0 pool_init h_F2_min0 in
  Forall (fun x => client_op (snd x)) h_F2_min0 /\
  p_closed st 0%nat = false /\ p_busy st 0%nat = 1%N /\
  (exists e, In e (p_idle st) /\ e_sid e = 0%nat) /\
  p_closed (fst (pool_step cfg0 90000 st PTick)) 0%nat = true.
Proof. exact C12_known_F2_witness_min_idle_0. Qed.
Print Assumptions C12_known_F2_witness.

(* the reach of F2 on client histories: whatever a reaper pass closes carries at most ONE stream -- the first stream
   of a session that was never reused (a reuse takes the session out of the map for good) *)
Theorem C12_known_F2_reach : forall copy c now h, copy_ok copy ->
  Forall (fun x => client_op (snd x)) h ->
  let st := pool_run c pool_init h in
  forall sid, p_closed st sid = false -> p_closed (pool_reap_step copy c now st) sid = true ->
    (p_busy st sid <= 1)%N.
Proof. exact reaper_kills_at_most_first_stream. Qed.
Print Assumptions C12_known_F2_reach.

(* non-vacuity: three idle sessions, two of them expired, min_idle = 1: the pass keeps the oldest expired one and
   the fresh one, closes the other; counts before/after are 3 and 2 *)
Example C12_nonvacuous :
  let c := {| c_timeout := 60000; c_min := 1%N |} in
  let h := [(0, PNew 5%N); (0, PNew 3%N); (0, PNew 9%N); (1000, PAdd 0%nat); (2000, PAdd 1%nat); (50000, PAdd 2%nat)] in
  let st := pool_run c pool_init h in
  let st' := pool_reap_step 1 c 70000 st in
  live_cnt (p_closed st) (p_idle st) = 3%nat /\ live_cnt (p_closed st') (p_idle st') = 2%nat /\
  map e_sid (p_idle st') = [1%nat; 2%nat] /\ p_closed st' 0%nat = true /\
  snd (pool_step c 70001 st' PGet) = QGot 2%nat.
Proof. cbv zeta. repeat split; vm_compute; reflexivity. Qed.
