(* C13 -- sessions are reused instead of re-dialled.
   Model: Model/Pool.v, client histories (create_stream = PAcq [+ PCreate], stream completions, deaths, reaper).
   KNOWN FINDING F3: a reused session is taken out of the idle map and never put back. The theorems state what
   holds outside that class (no reuse has happened yet), what holds in general (the exact leak), and the witnesses. *)
From Coq Require Import List NArith ZArith Bool.
From AnyTLS Require Import Generated Pool PoolProofs PoolReuseProofs TimedLegacy.
Import ListNotations.
Open Scope Z_scope.

(* a request dials only when the idle map holds no live session (any state) *)
Theorem C13_dials_only_if_map_dead : forall c now st st',
  pool_step c now st PAcq = (st', QMiss) ->
  Forall (fun e => p_closed st (e_sid e) = true) (p_idle st) /\ p_idle st' = [].
Proof. exact acq_dials_only_if_map_dead. Qed.
Print Assumptions C13_dials_only_if_map_dead.

(* sequential reuse, outside the known class: in every client history in which no reuse has happened yet, every
   live session is in the idle map ... *)
Theorem C13_live_sessions_in_map_until_first_reuse : forall c h,
  Forall (fun x => client_op (snd x)) h ->
  p_hits (pool_run c pool_init h) = 0%N -> complete (pool_run c pool_init h).
Proof. exact complete_until_first_reuse. Qed.
Print Assumptions C13_live_sessions_in_map_until_first_reuse.

(* ... and then a request that finds an established healthy session reuses it: no dial, a session that is not
   closed, no new session object (in particular: the second of two sequential requests always reuses) *)
Theorem C13_sequential_reuse_outside_known : forall c now h,
  Forall (fun x => client_op (snd x)) h ->
  let st := pool_run c pool_init h in
  p_hits st = 0%N ->
  (exists sid, (sid < p_n st)%nat /\ p_closed st sid = false) ->
  exists sid st', pool_step c now st PAcq = (st', QHit sid) /\
                  p_dials st' = p_dials st /\ p_closed st sid = false /\ p_n st' = p_n st.
Proof.
  intros c now h Hc st H0 Hl. apply acq_reuses_if_complete; [|assumption].
  apply complete_until_first_reuse; assumption.
Qed.
Print Assumptions C13_sequential_reuse_outside_known.

(* inside the known class it fails: the third sequential request dials although session 0 is live and unused *)
Theorem C13_known_F3_witness_third_request_dials :
  let st := pool_run cfg1 pool_init h_F3 in
  Forall (fun x => client_op (snd x)) h_F3 /\
  p_hits st = 1%N /\ p_closed st 0%nat = false /\ p_busy st 0%nat = 0%N /\ p_streams st = 0%N /\
  p_idle st = [] /\ snd (pool_step cfg1 5000 st PAcq) = QMiss /\
  p_dials (fst (pool_step cfg1 5000 st PAcq)) = 2%N.
Proof. exact C13_known_F3_witness. Qed.
Print Assumptions C13_known_F3_witness_third_request_dials.

(* bounded, the part that holds for every client history: live sessions that are still in the idle map, plus dials
   in flight, never exceed the peak number of simultaneous requests *)
Theorem C13_bounded_map : forall c h, Forall (fun x => client_op (snd x)) h ->
  let st := pool_run c pool_init h in
  (N.of_nat (live_in_map st) + p_pending st <= p_peak st)%N.
Proof. exact map_bounded_by_peak. Qed.
Print Assumptions C13_bounded_map.

(* bounded, what holds of all live sessions: peak + one per reuse so far (the exact size of the F3 leak) *)
Theorem C13_bounded_leak : forall c h, Forall (fun x => client_op (snd x)) h ->
  let st := pool_run c pool_init h in
  (N.of_nat (live st) <= p_peak st + p_hits st)%N.
Proof. exact live_bounded_by_peak_plus_reuses. Qed.
Print Assumptions C13_bounded_leak.

(* bounded, outside the known class *)
Theorem C13_bounded_outside_known : forall c h, Forall (fun x => client_op (snd x)) h ->
  let st := pool_run c pool_init h in
  p_hits st = 0%N -> (N.of_nat (live st) <= p_peak st + c_min c)%N.
Proof. exact live_bounded_outside_known. Qed.
Print Assumptions C13_bounded_outside_known.

(* inside it fails without bound: strictly sequential requests, n live sessions for every n *)
Theorem C13_known_F3_witness_unbounded : forall c n,
  let st := pool_run c pool_init (rounds n) in
  Forall (fun x => client_op (snd x)) (rounds n) /\ (p_peak st <= 1)%N /\ live st = n.
Proof. exact C13_known_F3_unbounded. Qed.
Print Assumptions C13_known_F3_witness_unbounded.

(* non-vacuity: after one request the hypotheses of C13_sequential_reuse_outside_known hold, and the second request
   reuses session 0 without dialling *)
Example C13_nonvacuous :
  let h := [(1000, PAcq); (1000, PCreate); (2000, PDone 0%nat)] in
  let st := pool_run cfg1 pool_init h in
  Forall (fun x => client_op (snd x)) h /\ p_hits st = 0%N /\ p_closed st 0%nat = false /\ p_n st = 1%nat /\
  snd (pool_step cfg1 3000 st PAcq) = QHit 0%nat /\ p_dials (fst (pool_step cfg1 3000 st PAcq)) = 1%N.
Proof. cbv zeta. split; [repeat constructor|]. repeat split; vm_compute; reflexivity. Qed.
