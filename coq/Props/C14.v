(* C14 -- the liveness monitor closes dead sessions and only dead sessions.
   Model: Model/Heartbeat.v (the heartbeat task of start_client after the repair of D9: a deadline per
   outstanding keep-alive request). T = timeout, I = interval (ms); the command line accepts every pair of
   positive whole seconds (FactsTimed.cli_positive_seconds), the theorems cover every Z. *)
From Coq Require Import List NArith ZArith Bool Lia.
From AnyTLS Require Import Generated Pool Heartbeat HeartbeatProofs HeartbeatSimProofs TimedLegacy HeartbeatStall HeartbeatStallProofs.
From AnyTLS Require Conc ConcInv ConcDeath ConcStall.
Import ListNotations.
Open Scope Z_scope.

(* a session whose peer answers every keep-alive request less than T after it was sent (or the observation ends
   before that deadline) is never closed by the monitor -- for every time-ordered trace: any tick instants (every
   interval, timeout < interval and timeout = interval included), any delays below the timeout, any number of
   requests in flight *)
Theorem C14_no_false_close : forall T evs,
  sorted_ev evs -> peer_in_time T evs -> hb_closed (hb_run T hb_init evs) = None.
Proof. exact no_false_close. Qed.
Print Assumptions C14_no_false_close.

(* the same for the recursive form of the hypothesis (no ordering assumption needed) *)
Theorem C14_no_false_close_trace : forall T evs,
  in_time T evs -> hb_closed (hb_run T hb_init evs) = None.
Proof. exact no_false_close_trace. Qed.
Print Assumptions C14_no_false_close_trace.

(* the form with explicit interval and delays, about the very function the correspondence check executes
   (hb_sim: ticks at 0, I, 2I, ..; the k-th request answered script[k] ms later; observation until H): if every request
   sent within the horizon is answered after a delay in [0, T), the session is never closed -- every I, every T *)
Theorem C14_no_false_close_sim : forall I T H script,
  (forall k, Z.of_nat k * I <= H -> exists d, nth_error script k = Some (Some d) /\ 0 <= d < T) ->
  hb_closed (hb_sim I T H script) = None.
Proof. exact sim_no_false_close. Qed.
Print Assumptions C14_no_false_close_sim.

(* a silent peer: st0 is the monitor right after the peer's last answer at instant a (or at session start, a = 0):
   not closed, nothing outstanding (see C14_after_answer). Afterwards only ticks happen; the interval timer fires
   next at s1 <= a + I (C14_timer_period). Once the clock has reached s1 + T the session is closed; it was closed
   at s1 + T <= a + T + I. Closing is Session::close (C09 covers the release of all waiters). *)
Theorem C14_detects : forall T I st0 a s1 more t,
  hb_closed st0 = None -> hb_out st0 = None ->
  s1 <= a + I -> s1 + T <= t ->
  hb_closed (hb_expire T (hb_run T st0 (map HTick (s1 :: more))) t) = Some (s1 + T) /\
  s1 + T <= a + T + I.
Proof. exact detects. Qed.
Print Assumptions C14_detects.

Theorem C14_after_answer : forall T st a,
  hb_closed (hb_step T st (HResp a)) = None -> hb_out (hb_step T st (HResp a)) = None.
Proof. exact resp_clears. Qed.
Print Assumptions C14_after_answer.

Theorem C14_timer_period : forall I a, 0 < I -> exists k, a < k * I <= a + I.
Proof. exact next_tick_within. Qed.
Print Assumptions C14_timer_period.

(* only dead sessions: the monitor closes at instant c only if a request sent at c - T was followed by no answer *)
Theorem C14_closes_only_at_deadline : forall T evs c,
  hb_closed (hb_run T hb_init evs) = Some c -> exists s, c = s + T /\ In (HTick s) evs.
Proof.
  intros T evs c H. destruct (close_instant T evs hb_init c eq_refl H) as [s [E [D|D]]]; [discriminate|eauto].
Qed.
Print Assumptions C14_closes_only_at_deadline.

(* the pinned rule (check `now - last answer > T` at the next tick) is refuted on traces that satisfy the hypothesis
   of C14_no_false_close, and the repaired model keeps those sessions open *)
Theorem C14_refuted_pinned_rule :
  (in_time 10000 w_T_lt_I /\ l_closed (lhb_run 10000 lhb_init w_T_lt_I) = Some 30000 /\
   hb_closed (hb_run 10000 hb_init w_T_lt_I) = None) /\
  (in_time 40000 w_T_gt_I /\ l_closed (lhb_run 40000 lhb_init w_T_gt_I) = Some 60000 /\
   hb_closed (hb_run 40000 hb_init w_T_gt_I) = None).
Proof. split; [exact C14_refuted_timeout_below_interval|exact C14_refuted_interval_not_dividing_timeout]. Qed.
Print Assumptions C14_refuted_pinned_rule.

(* the exact class of the pinned rule (D9): with ticks at 0, I, 2I, .. and ties between an answer and a tick resolved
   adversarially, it keeps every session whose peer answers in time open  <->  the interval divides the timeout *)
Theorem C14_pinned_rule_sound_class : forall I T, 0 < I -> 0 < T -> (legacy_sound I T <-> T mod I = 0).
Proof. exact C14_legacy_sound_class. Qed.
Print Assumptions C14_pinned_rule_sound_class.

(* the monitor's own write. All theorems above are about the monitor whose HeartRequest write returns at once. With
   writes that always return, the monitor that may stall (Model/HeartbeatStall.v) is that monitor: *)
Theorem C14_writes_return_refines : forall T evs st,
  w_blocked st = false ->
  hbw_run T st (map (fun e => (e, false)) evs) = {| w_hb := hb_run T (w_hb st) evs; w_blocked := false |}.
Proof. exact hbw_run_never_stalls. Qed.
Print Assumptions C14_writes_return_refines.

(* KNOWN FINDING F4 (known_findings.json: F4-stalled-transport-monitor-never-fires): if the write of one tick never returns
   -- the transport is full and the peer no longer reads, or the writer mutex is held by such a write -- the task stays
   inside that await: right after an answer (open, nothing outstanding), for every later sequence of ticks and every
   horizon t, the session is never closed. "Closed within timeout + interval of the last answer" fails for this class of
   peers; the correspondence check exhibits it on the real code (driver hb, mode z) *)
Theorem C14_known_F4_stalled_write_never_detected : forall T st0 s more t,
  w_blocked st0 = false -> hb_closed (w_hb st0) = None -> hb_out (w_hb st0) = None ->
  hb_closed (w_hb (hbw_expire T (hbw_run T st0 ((HTick s, true) :: more)) t)) = None.
Proof. exact stalled_write_never_detected. Qed.
Print Assumptions C14_known_F4_stalled_write_never_detected.

(* ... and that the monitor's write really can block for ever is a theorem of the interleaving model of the
   session's write path (Model/Conc.v with the stalled transport): the HeartRequest is an ordinary write_frame;
   queued on the writer mutex behind a write that is inside the stalled transport it stays queued under every
   continuation of every schedule (and the close() the monitor would call stays queued just the same) *)
Theorem C14_known_F4_request_queued_forever : forall progs buf pend sched0 h w k f sched,
  let s := Conc.run (Conc.init progs buf pend) sched0 in
  ConcStall.wedged s h -> ConcInv.pcof s w = Conc.PW2wait k f ->
  ConcInv.pcof (Conc.run s sched) w = Conc.PW2wait k f.
Proof.
  intros progs buf pend sched0 h w k f sched s W P.
  apply (ConcStall.wedged_writer_never_returns s h w k f sched); [apply ConcInv.run_inv; apply ConcInv.inv_init | exact W | exact P].
Qed.
Print Assumptions C14_known_F4_request_queued_forever.

(* non-vacuity: I = 30 s, T = 10 s (timeout < interval); the peer answers after 9.999 s each time: the trace is
   time-ordered, satisfies peer_in_time, and stays open; when the peer falls silent after its answer at
   39 999 ms, the session is closed at 70 000 ms = next tick (60 000) + T <= 39 999 + T + I *)
Example C14_nonvacuous :
  let evs := [HTick 0; HResp 9999; HTick 30000; HResp 39999] in
  in_time 10000 evs /\ hb_closed (hb_run 10000 hb_init evs) = None /\
  hb_out (hb_run 10000 hb_init evs) = None /\
  hb_closed (hb_expire 10000 (hb_run 10000 (hb_run 10000 hb_init evs) (map HTick [60000; 90000])) 100000) = Some 70000.
Proof. cbv zeta. split; [cbn; lia|]. repeat split; vm_compute; reflexivity. Qed.
