(* C15 -- UDP datagrams keep their boundaries and contents through the tunnel.
   mx   = MAX_UDP_PACKET_SIZE of the side that runs the function (udp_max side, regenerated),
   stop = "an empty datagram ends the direction" as found in that side's stream_to_udp loop (udp_stop side,
          regenerated).  C15_code_params states what the current sources give: 65535 and false, both sides. *)
From Coq Require Import List NArith ZArith.
From AnyTLS Require Import Bytes Reader ReaderProg Generated FactsCore FactsParsers Dest Udp ReaderProofs DestProofs UdpProofs.
Import ListNotations.
Open Scope N_scope.

Theorem C15_code_params : forall side, udp_max side <= 65535 /\ udp_stop side = false.
Proof. exact udp_code_params. Qed.
Print Assumptions C15_code_params.

(* what is framed is what is decoded: same datagrams (empty ones included), same order, same
   boundaries, nothing left *)
Theorem C15_roundtrip : forall mx ds, mx <= 65535 ->
  Forall (fun d => lenN d <= mx) ds ->
  udp_decode_all false mx (concat (map udp_frame ds)) = (ds, UMore []).
Proof. intros mx ds Hmx. exact (udp_roundtrip mx Hmx ds). Qed.
Print Assumptions C15_roundtrip.

(* the encoders produce exactly that framing for every size up to the maximum and refuse above it *)
Theorem C15_encode : forall mx d, mx <= 65535 ->
  (lenN d <= mx -> udp_encode mx d = Some (udp_frame d)) /\ (mx < lenN d -> udp_encode mx d = None).
Proof. intros mx d Hmx. split; [exact (udp_encode_some mx Hmx d) | exact (udp_encode_none mx Hmx d)]. Qed.
Print Assumptions C15_encode.

(* the same through the per-stream reader for EVERY chunking of the byte stream (split length prefixes,
   merged datagrams, empty chunks); when the stream then ends the loop stops with EOF after delivering all *)
Theorem C15_chunking : forall mx ds chunks closed, mx <= 65535 ->
  Forall (fun d => lenN d <= mx) ds ->
  concat chunks = concat (map udp_frame ds) ->
  udp_stream_rd false mx chunks closed = (ds, if closed then SFail E_EOF else SPending).
Proof. intros mx ds chunks closed Hmx. exact (udp_chunking mx Hmx ds chunks closed). Qed.
Print Assumptions C15_chunking.

(* a truncated trailing frame delivers nothing and loses nothing before it *)
Theorem C15_partial_tail : forall mx ds tail, mx <= 65535 ->
  Forall (fun d => lenN d <= mx) ds -> udp_read1 mx tail = NeedMore ->
  udp_decode_all false mx (concat (map udp_frame ds) ++ tail) = (ds, UMore tail).
Proof. intros mx ds tail Hmx. exact (udp_roundtrip_tail mx Hmx ds tail). Qed.
Print Assumptions C15_partial_tail.

(* 2 + 65507 <= 65535: a datagram of any legal UDP size is one frame payload, never truncated.
   (Frames of 65534/65535-byte datagrams would exceed one payload and are split by write_data_frame;
   the reader reassembles them by C15_chunking.) *)
Theorem C15_fits_frame : forall d, lenN d <= 65507 -> lenN (udp_frame d) <= encode_max_payload.
Proof. exact udp_fits_frame. Qed.
Print Assumptions C15_fits_frame.

(* the association's target: the initial request decodes to the requested (address, port) in any
   fragmentation, and what follows it is the first datagram frame *)
Theorem C15_target : forall d p rest chunks closed,
  wf_dest d -> p < 65536 -> concat chunks = udp_init_encode d p ++ rest ->
  exists st', run_rd udp_init_prog (rd_of_chunks chunks closed) = (st', SDone (d, p)) /\
              rd_pending_bytes st' = rest /\ rclosed st' = closed.
Proof. exact udp_init_chunking. Qed.
Print Assumptions C15_target.

(* the server's UDP socket can reach the target whatever its address family *)
Theorem C15_target_family : forall t, udp_can_send (udp_bind_fam t) t = true.
Proof. exact udp_bind_can_send. Qed.
Print Assumptions C15_target_family.

(* the magic destination selects the UDP handler *)
Theorem C15_magic_routed : route (DName udp_magic_addr) = RUdp /\ wf_dest (DName udp_magic_addr).
Proof. exact magic_addr_routes_udp. Qed.
Print Assumptions C15_magic_routed.

Example C15_nonvacuous :
  udp_stream_rd (udp_stop false) (udp_max false) [[0]; [1; 65; 0]; []; [0; 0; 2; 66]; [67; 0]; [1]] false
    = ([[65]; []; [66; 67]], SPending) /\
  udp_stream_rd (udp_stop true) (udp_max true) [[0; 1; 65; 0; 2; 66; 67]] true = ([[65]; [66; 67]], SFail E_EOF) /\
  udp_decode_all false 65535 (udp_frame [65] ++ udp_frame [] ++ udp_frame [66; 67]) = ([[65]; []; [66; 67]], UMore []).
Proof. repeat split; vm_compute; reflexivity. Qed.
