(* C16 -- the SOCKS5 front-end follows the protocol for every client byte stream.
   open_ok d p is the verdict of the tunnel open for destination (d, p) (C10): an explicit oracle. *)
From Coq Require Import List NArith ZArith.
From AnyTLS Require Import Bytes Reader ReaderProg Generated Dest Socks5 ReaderProofs DestProofs SocksProofs.
Import ListNotations.
Open Scope N_scope.

(* 'no authentication' is selected exactly when it was offered; otherwise 'no acceptable methods' and
   the connection ends; nothing is written before the greeting is complete *)
Theorem C16_method : forall open_ok b,
  match run_bytes greeting_prog b with
  | NeedMore => socks_session open_ok b = []
  | Reject _ => socks_session open_ok b = [SEnd]
  | Accept ms r =>
      (In 0 ms /\ socks_session open_ok b = SWrite [5; 0] :: socks_after_greeting open_ok r) \/
      (~ In 0 ms /\ socks_session open_ok b = [SWrite [5; 255]; SEnd])
  end.
Proof. exact session_cases. Qed.
Print Assumptions C16_method.

Theorem C16_method_only_offered : forall open_ok b tl,
  socks_session open_ok b = SWrite [5; 0] :: tl ->
  exists ms r, run_bytes greeting_prog b = Accept ms r /\ In 0 ms.
Proof. exact session_selects_only_offered. Qed.
Print Assumptions C16_method_only_offered.

Theorem C16_greeting_roundtrip : forall ms rest, lenN ms <= 255 ->
  run_bytes greeting_prog ([5; lenN ms] ++ ms ++ rest) = Accept ms rest.
Proof. exact greeting_ok. Qed.
Print Assumptions C16_greeting_roundtrip.

(* exactly the requested command, address type, address and port are extracted, for IPv4, IPv6 and
   every name of 1..255 bytes, every port, every command and reserved byte *)
Theorem C16_request_roundtrip : forall rsv q rest,
  wf_dest (q_dest q) -> q_port q < 65536 ->
  run_bytes request_prog (request_wire rsv q ++ rest) = Accept q rest.
Proof. exact request_roundtrip. Qed.
Print Assumptions C16_request_roundtrip.

(* a tunnel is opened only for CONNECT and only to the (address, port) of the request ... *)
Theorem C16_connect_only : forall open_ok b d p,
  In (SOpen d p) (socks_session open_ok b) ->
  exists ms r q r2, run_bytes greeting_prog b = Accept ms r /\ In 0 ms /\
    run_bytes request_prog r = Accept q r2 /\ q_cmd q = 1 /\ d = q_dest q /\ p = q_port q.
Proof. exact session_connect_only. Qed.
Print Assumptions C16_connect_only.

(* ... every other command is answered 'command not supported' (7) and the connection ends *)
Theorem C16_other_command : forall open_ok b ms r q r2,
  run_bytes greeting_prog b = Accept ms r -> In 0 ms ->
  run_bytes request_prog r = Accept q r2 -> q_cmd q <> 1 ->
  socks_session open_ok b = [SWrite [5; 0]; SWrite (reply_bytes 7); SEnd].
Proof. exact session_other_command. Qed.
Print Assumptions C16_other_command.

(* REP = 0 is written iff the open for exactly the requested destination succeeded, and then the
   session is: selection, open, 'succeeded', forwarding of everything that followed the request *)
Theorem C16_reply : forall open_ok b w,
  In (SWrite w) (socks_session open_ok b) -> lenN w = 10 ->
  (reply_rep w = 0 <->
   exists ms r q r2, run_bytes greeting_prog b = Accept ms r /\ run_bytes request_prog r = Accept q r2 /\
     q_cmd q = 1 /\ open_ok (q_dest q) (q_port q) = true /\
     socks_session open_ok b = [SWrite [5; 0]; SOpen (q_dest q) (q_port q); SWrite (reply_bytes 0); STunnel r2]).
Proof. exact session_reply. Qed.
Print Assumptions C16_reply.

Theorem C16_tunnel_after_success : forall open_ok b f,
  In (STunnel f) (socks_session open_ok b) ->
  exists d p, socks_session open_ok b = [SWrite [5; 0]; SOpen d p; SWrite (reply_bytes 0); STunnel f] /\
              open_ok d p = true.
Proof. exact session_tunnel_after_success. Qed.
Print Assumptions C16_tunnel_after_success.

(* fragmentation: over any split of the client's bytes into TCP segments the session is the one
   computed on their concatenation (half-closed: every incomplete message ends the connection) *)
Theorem C16_fragmentation : forall open_ok chunks closed,
  socks_session_rd open_ok chunks closed =
    if closed then socks_session_eof open_ok (concat chunks) else socks_session open_ok (concat chunks).
Proof. exact session_rd_eq. Qed.
Print Assumptions C16_fragmentation.

(* prefix stability: both parsers' answers are final; an ended connection stays ended and silent;
   an established tunnel only forwards *)
Theorem C16_prefix_stable : forall b m,
  (run_bytes greeting_prog b <> NeedMore ->
   run_bytes greeting_prog (b ++ m) = match run_bytes greeting_prog b with Accept v r => Accept v (r ++ m) | x => x end) /\
  (run_bytes request_prog b <> NeedMore ->
   run_bytes request_prog (b ++ m) = match run_bytes request_prog b with Accept v r => Accept v (r ++ m) | x => x end).
Proof.
  intros b m. split; [exact (run_bytes_prefix_stable greeting_prog b m) | exact (run_bytes_prefix_stable request_prog b m)].
Qed.
Print Assumptions C16_prefix_stable.

Theorem C16_ended_stable : forall open_ok b m,
  In SEnd (socks_session open_ok b) -> socks_session open_ok (b ++ m) = socks_session open_ok b.
Proof. exact session_ended_stable. Qed.
Print Assumptions C16_ended_stable.

Theorem C16_tunnel_stable : forall open_ok b m pre f,
  socks_session open_ok b = pre ++ [STunnel f] ->
  socks_session open_ok (b ++ m) = pre ++ [STunnel (f ++ m)].
Proof. exact session_tunnel_stable. Qed.
Print Assumptions C16_tunnel_stable.

Example C16_nonvacuous :
  let connect := [5; 2; 2; 0; 5; 1; 0; 3; 2; 97; 98; 1; 187; 71; 69] in
  socks_session (fun _ _ => true) connect =
    [SWrite [5; 0]; SOpen (DName [97; 98]) 443; SWrite (reply_bytes 0); STunnel [71; 69]] /\
  socks_session_rd (fun _ _ => false) [[5]; [2; 2]; [0; 5; 1]; []; [0; 3; 2; 97]; [98; 1; 187; 71; 69]] false =
    [SWrite [5; 0]; SOpen (DName [97; 98]) 443; SWrite (reply_bytes 1); SEnd] /\
  socks_session (fun _ _ => true) [5; 1; 0; 5; 3; 0; 1; 10; 0; 0; 1; 0; 53] = [SWrite [5; 0]; SWrite (reply_bytes 7); SEnd] /\
  socks_session (fun _ _ => true) [5; 2; 1; 2] = [SWrite [5; 255]; SEnd] /\
  wf_dest (DName [97; 98]).
Proof. cbv zeta. repeat split; vm_compute; try reflexivity; discriminate. Qed.
