(* C17 -- the HTTP proxy forwards each request to its authority, unchanged in substance.
   Only statements, `exact`, Print Assumptions and non-vacuity examples live here.
   Model: Model/Http.v (src/client/http_proxy.rs translated function by function) over Model/HttpText.v
   (Rust str functions on ASCII byte strings).  `wf_req` is a boolean predicate on the abstract syntax `hreq`:
   ASCII, tokens without white space, host without ':' '/' '?' '[' ']', IPv6 literal in brackets, port digits with
   value <= 65535 (possibly empty), header lines without CR/LF, at most one Host line (any spelling, optional
   white space), method CONNECT (any case) iff authority-form. *)
From Coq Require Import List NArith ZArith Bool String.
From AnyTLS Require Import Bytes Generated HttpText Http HttpTextFacts HttpReadProofs HttpParseProofs HttpNormProofs.
Import ListNotations.
Open Scope N_scope.

(* the tunnel is opened to the host and port named by the request: CONNECT authority (default 443) |
   absolute URI (default 80 / 443 by scheme) | Host header (default 80); IPv6 literals without their brackets *)
Theorem C17_target : forall r,
  wf_req r = true ->
  exists host port,
    spec_target r = Some (host, port) /\
    parse_http_request (render_head r) (r_body r) = HOk (expected_parse r host port).
Proof. exact parse_render. Qed.
Print Assumptions C17_target.

(* for every other method the origin server receives the same method, the origin-form target, the same version,
   the same header lines in the same order, with only the Host line normalised (in place; appended if absent) *)
Theorem C17_forward : forall r,
  wf_req r = true -> is_connect_req r = false ->
  exists host port,
    spec_target r = Some (host, port) /\
    parse_http_request (render_head r) (r_body r) = HOk (expected_parse r host port) /\
    build_forward_request (expected_parse r host port) = render_head (origin_form r).
Proof. exact forward_render. Qed.
Print Assumptions C17_forward.

(* the three per-function results behind C17_forward / C17_target *)
Theorem C17_split_host_port : forall a default,
  wf_authb a = true -> split_host_port (render_auth a) default = auth_target a default.
Proof. exact shp_auth. Qed.
Print Assumptions C17_split_host_port.

Theorem C17_host_header_value : forall h port,
  wf_hostb h = true -> host_line_out (host_text h) port = render_host_line (norm_host_hdr h port) ++ k_crlf.
Proof. exact host_line_out_render. Qed.
Print Assumptions C17_host_header_value.

(* for EVERY chunking of the client's bytes into non-empty reads: the loop returns Ok iff the header block
   (up to and including the first terminator) is at most 64 KiB; then it returns the split at that terminator,
   and header ++ rest ++ unread chunks is the input (nothing lost, nothing duplicated) *)
Theorem C17_header_read : forall chunks eof,
  Forall (fun c => c <> []) chunks ->
  ((exists h rest rem, read_header [] chunks eof = RhOk h rest rem) <->
   (exists e, find_header_end (concat chunks) = Some e /\ e <= 65536)) /\
  (forall e, find_header_end (concat chunks) = Some e -> e <= 65536 ->
     exists k rest,
       read_header [] chunks eof = RhOk (takeN e (concat chunks)) rest (skipn k chunks) /\
       concat (firstn k chunks) = takeN e (concat chunks) ++ rest /\
       rest ++ concat (skipn k chunks) = dropN e (concat chunks)) /\
  (forall e, find_header_end (concat chunks) = Some e -> 65536 < e -> read_header [] chunks eof = RhTooLarge) /\
  (find_header_end (concat chunks) = None ->
     read_header [] chunks eof =
     if 65536 <? lenN (concat chunks) then RhTooLarge else if eof then RhClosed else RhPending (concat chunks)).
Proof.
  intros chunks eof H. split; [exact (read_header_ok_iff chunks eof H)|]. split; [|split].
  - intros e. exact (read_header_fits chunks eof e H).
  - intros e. exact (read_header_too_large chunks eof e H).
  - exact (read_header_unterminated chunks eof H).
Qed.
Print Assumptions C17_header_read.

(* the split point is the end of the first "\r\n\r\n" *)
Theorem C17_first_terminator : forall s e,
  find_header_end s = Some e ->
  exists pre post, s = pre ++ [13; 10; 13; 10] ++ post /\ e = lenN pre + 4 /\
                   takeN e s = pre ++ [13; 10; 13; 10] /\ dropN e s = post /\
                   forall pre' post', s = pre' ++ [13; 10; 13; 10] ++ post' -> lenN pre <= lenN pre'.
Proof. exact fhe_first. Qed.
Print Assumptions C17_first_terminator.

(* the bytes that follow the header are written to the stream exactly once and in order, after the rewritten
   header (other methods) or alone (CONNECT), whatever the chunking; nothing is written when the open fails *)
Theorem C17_body : forall chunks eof e,
  Forall (fun c => c <> []) chunks -> find_header_end (concat chunks) = Some e -> e <= 65536 ->
  match parse_http_request (takeN e (concat chunks)) [] with
  | HOk r =>
      sent_bytes (handle chunks eof true) =
        (if hp_connect r then [] else build_forward_request r) ++ dropN e (concat chunks) /\
      sent_bytes (handle chunks eof false) = []
  | HErr => forall ok, handle chunks eof ok = []
  end.
Proof. exact handle_body. Qed.
Print Assumptions C17_body.

(* event order of the handler with the outcome of the open as an argument: nothing happens before the open;
   200 is sent only when the open succeeded (and then directly after it), a failed open gives exactly 502,
   there is at most one reply of the proxy's own *)
Theorem C17_connect_reply : forall chunks eof ok,
  handle chunks eof ok = [] \/
  exists h p tl, handle chunks eof ok = EvOpen h p :: tl /\
    ((ok = false /\ tl = [EvReply 502]) \/
     (ok = true /\ exists tl', (tl = EvReply 200 :: tl' \/ exists b, tl = EvSend b :: tl') /\
                               forall c, ~ In (EvReply c) tl')).
Proof. exact handle_shape. Qed.
Print Assumptions C17_connect_reply.

Theorem C17_200_only_after_open : forall chunks eof ok,
  In (EvReply 200) (handle chunks eof ok) -> ok = true.
Proof. exact reply_200_needs_open. Qed.
Print Assumptions C17_200_only_after_open.

(* "only the Host header normalised": the normalised Host line is well-formed and names the same host, and the
   same port -- the decimal printing is exact for every u16 -- except that 443 is omitted like 80, so that a
   request for port 443 is forwarded with a Host line that means port 80 (known finding C17-host-port-elision;
   the tunnel itself goes to the right port by C17_target) *)
Theorem C17_host_normalised : forall r host port,
  wf_req r = true -> is_connect_req r = false -> spec_target r = Some (host, port) ->
  spec_target (origin_form r) = Some (host, if port =? 443 then 80 else port) /\
  is_connect_req (origin_form r) = false /\
  wf_host_hdrb (match r_host (origin_form r) with Some hh => hh | None => norm_host_hdr (HName []) 0 end) = true.
Proof. exact origin_form_names_same_target. Qed.
Print Assumptions C17_host_normalised.

Theorem C17_known_host_port_elision :
  exists r, wf_req r = true /\ is_connect_req r = false /\
            spec_target r = Some ([97], 443) /\ spec_target (origin_form r) = Some ([97], 80).
Proof. exact known_host_port_elision. Qed.
Print Assumptions C17_known_host_port_elision.

(* non-vacuity: a concrete well-formed request (upper-case scheme, bracketed IPv6 with port, query without
   path, HOST: spelling, another header before and after) and what the model computes for it *)
Definition ex_req : hreq :=
  {| r_method := bs "GET";
     r_target := TAbsolute false (bs "HTTP") {| au_host := HV6 (bs "::1"); au_port := Some [8; 0; 8; 0] |} (bs "?q=1");
     r_version := bs "HTTP/1.1";
     r_before := [bs "Accept: */*"];
     r_host := Some {| hh_name := bs "HOST"; hh_pre := bs " "; hh_auth := {| au_host := HName (bs "other"); au_port := None |}; hh_post := [] |};
     r_after := [bs "X-Note: host: x"];
     r_body := bs "BODY" |}.

Example C17_nonvacuous :
  wf_req ex_req = true /\ is_connect_req ex_req = false /\
  spec_target ex_req = Some (bs "::1", 8080) /\
  forward_of ex_req =
    HOk (bs "::1", 8080, false,
         bs "GET /?q=1 HTTP/1.1" ++ [13; 10] ++ bs "Accept: */*" ++ [13; 10] ++ bs "Host: [::1]:8080" ++ [13; 10]
         ++ bs "X-Note: host: x" ++ [13; 10; 13; 10]) /\
  (* the same request cut into three reads, followed by one more read: everything after the header is sent once *)
  let s := render ex_req in
  let chunks := [takeN 10 s; takeN 70 (dropN 10 s); dropN 80 s; bs "MORE"] in
  Forall (fun c => c <> []) chunks /\
  sent_bytes (handle chunks false true) =
    bs "GET /?q=1 HTTP/1.1" ++ [13; 10] ++ bs "Accept: */*" ++ [13; 10] ++ bs "Host: [::1]:8080" ++ [13; 10]
    ++ bs "X-Note: host: x" ++ [13; 10; 13; 10] ++ bs "BODYMORE" /\
  handle chunks false false = [EvOpen (bs "::1") 8080; EvReply 502].
Proof.
  vm_compute. repeat split; try reflexivity. repeat constructor; discriminate.
Qed.
