(* C18 -- certificate hot-reload is all-or-nothing.
   Only statements, `exact`, Print Assumptions and the non-vacuity example live here.

   Every theorem quantifies over the whole environment: the types of file contents / chains / keys /
   identities, the PEM parsers, the key-match test of rustls, the X.509 analysis, the clocks and the
   `check_expiry` setting are universally quantified arguments -- nothing is assumed about them.
   `reads` is what the file system returned to the reads of ONE (re)load (None = absent/unreadable), so
   "all sequences of on-disk states interleaved with reload requests, and reloads landing at every
   point of a two-file update" is `forall (evs : list (reads * clock))`.

   Scope notes (what is claimed):
   * `check_expiry` is a configuration field of the reloader (default true; the shipped server binary
     sets true -- side lemma cert_check_expiry_on). "An expired certificate fails" is claimed for
     check_expiry = true (C18_expired_fails); with false the certificate is installed by design, and the
     correspondence check confirms exactly that.
   * CertReloader::new only logs an expired initial certificate (side lemma cert_new_accepts_expired);
     the initial pair is validated as a pair but not for expiry. *)
From Coq Require Import List NArith ZArith Bool.
From AnyTLS Require Import Generated FactsCert CertReload CertReloadProofs CertReloadLegacy.
Import ListNotations.
Open Scope Z_scope.

(* a reload that returns an error leaves the acceptor, the reported information, the reload counter
   and the last-reload time exactly as they were (the state IS these four cells) *)
Theorem C18_fail_unchanged :
  forall (blob chain pkey ident : Type) (parse_certs : blob -> option chain)
         (parse_key : blob -> option pkey) (pair_ok : chain -> pkey -> bool)
         (parse_info : blob -> option (ident * Z)) (check_expiry : bool)
         st rd c st' e,
    cr_reload blob chain pkey ident parse_certs parse_key pair_ok parse_info check_expiry st rd c = (st', CrErr e) ->
    st' = st.
Proof. exact fail_unchanged. Qed.
Print Assumptions C18_fail_unchanged.

(* every listed reason makes the reload return an error (and so, by the above, changes nothing):
   a missing file, a file without a complete PEM certificate / private key (truncated, garbage),
   a certificate whose X.509 analysis fails, a key that does not match the certificate *)
Theorem C18_bad_input_fails :
  forall (blob chain pkey ident : Type) (parse_certs : blob -> option chain)
         (parse_key : blob -> option pkey) (pair_ok : chain -> pkey -> bool)
         (parse_info : blob -> option (ident * Z)) (check_expiry : bool)
         st rd c,
    (rd_cert rd = None \/ rd_key rd = None \/
     (exists cb, rd_cert rd = Some cb /\ (parse_certs cb = None \/ parse_info cb = None)) \/
     (exists kb, rd_key rd = Some kb /\ parse_key kb = None) \/
     (exists cb kb ch k, rd_cert rd = Some cb /\ rd_key rd = Some kb /\
        parse_certs cb = Some ch /\ parse_key kb = Some k /\ pair_ok ch k = false)) ->
    exists e, cr_reload blob chain pkey ident parse_certs parse_key pair_ok parse_info check_expiry st rd c
              = (st, CrErr e).
Proof. exact bad_input_fails. Qed.
Print Assumptions C18_bad_input_fails.

(* ... and so does an expired certificate (not_after before the clock reading of the check), also
   one that expired a second ago, whatever else is on disk *)
Theorem C18_expired_fails :
  forall (blob chain pkey ident : Type) (parse_certs : blob -> option chain)
         (parse_key : blob -> option pkey) (pair_ok : chain -> pkey -> bool)
         (parse_info : blob -> option (ident * Z))
         st rd c cb id na r st',
    rd_cert rd = Some cb -> parse_info cb = Some (id, na) -> na < cr_wall_chk c ->
    cr_reload blob chain pkey ident parse_certs parse_key pair_ok parse_info true st rd c = (st', r) ->
    st' = st /\ exists e, r = CrErr e.
Proof. intros; eapply expired_fails; eauto. Qed.
Print Assumptions C18_expired_fails.

(* a successful reload installs exactly the certificate and key bytes returned to the reads of THIS
   reload, which passed PEM parsing and the key-match test as a pair; the reported information is the
   analysis of those same certificate bytes; unexpired at the check; counter + 1; time stamped *)
Theorem C18_success_pair :
  forall (blob chain pkey ident : Type) (parse_certs : blob -> option chain)
         (parse_key : blob -> option pkey) (pair_ok : chain -> pkey -> bool)
         (parse_info : blob -> option (ident * Z)) (check_expiry : bool)
         st rd c st',
    cr_reload blob chain pkey ident parse_certs parse_key pair_ok parse_info check_expiry st rd c = (st', CrOk) ->
    exists i,
      rd_cert rd = Some (l_cert (cr_active st')) /\ rd_key rd = Some (l_key (cr_active st')) /\
      valid_pair blob chain pkey parse_certs parse_key pair_ok (cr_active st') /\
      cr_analyze blob ident parse_info (cr_wall_an c) (l_cert (cr_active st')) = Some i /\ cr_info st' = Some i /\
      (check_expiry = true -> cr_wall_chk c <= ci_not_after i) /\
      cr_count st' = (cr_count st + 1)%N /\ cr_last st' = Some (cr_mono c).
Proof. exact success_pair. Qed.
Print Assumptions C18_success_pair.

(* in EVERY history (initial load followed by any sequence of reload requests against any disk
   contents) the served pair and the reported information were produced by ONE load event (rd, c) of
   that history: certificate and key bytes are those returned to the reads of that event, they passed
   validation together, the information is the analysis of exactly those certificate bytes, and --
   unless it is still the initial pair -- it was unexpired at that reload (check on).
   "Loaded together" = same event; the second-read field of `reads` plays no role
   (C18_second_read_irrelevant), which is what the pinned code got wrong (C18_refuted_* in Legacy). *)
Theorem C18_invariant :
  forall (blob chain pkey ident : Type) (parse_certs : blob -> option chain)
         (parse_key : blob -> option pkey) (pair_ok : chain -> pkey -> bool)
         (parse_info : blob -> option (ident * Z)) (check_expiry : bool)
         rd0 c0 st0 evs,
    cr_new blob chain pkey ident parse_certs parse_key pair_ok parse_info rd0 c0 = inl st0 ->
    exists rd c,
      installed_by blob chain pkey ident parse_certs parse_key pair_ok parse_info check_expiry
        st0 (cr_run_state blob chain pkey ident parse_certs parse_key pair_ok parse_info check_expiry st0 evs)
        rd0 c0 evs rd c.
Proof. exact invariant. Qed.
Print Assumptions C18_invariant.

Theorem C18_second_read_irrelevant :
  forall (blob chain pkey ident : Type) (parse_certs : blob -> option chain)
         (parse_key : blob -> option pkey) (pair_ok : chain -> pkey -> bool)
         (parse_info : blob -> option (ident * Z)) c k c2 c2' w,
    cr_load blob chain pkey ident parse_certs parse_key pair_ok parse_info (Build_cr_reads c k c2) w
    = cr_load blob chain pkey ident parse_certs parse_key pair_ok parse_info (Build_cr_reads c k c2') w.
Proof. exact load_ignores_second_read. Qed.
Print Assumptions C18_second_read_irrelevant.

(* a successful reload stays in force: any number of later failing reloads leave the state as it is *)
Theorem C18_success_persists :
  forall (blob chain pkey ident : Type) (parse_certs : blob -> option chain)
         (parse_key : blob -> option pkey) (pair_ok : chain -> pkey -> bool)
         (parse_info : blob -> option (ident * Z)) (check_expiry : bool)
         evs st,
    Forall (fun r => exists e, r = CrErr e)
           (cr_outcomes blob chain pkey ident parse_certs parse_key pair_ok parse_info check_expiry st evs) ->
    cr_run_state blob chain pkey ident parse_certs parse_key pair_ok parse_info check_expiry st evs = st.
Proof. exact failures_keep_state. Qed.
Print Assumptions C18_success_persists.

(* a connection accepted after the operations `before` is served with the pair active at that
   moment, whatever reloads / accepts follow before its handshake 
   Premise tied to the code: the model operation CrAccept takes the snapshot at the moment the
   connection is accepted. In server.rs `listen` this is `self.tls_config.read().unwrap().clone()`
   placed AFTER `listener.accept().await` inside the loop -- pinned by the side lemma
   FactsCert.listen_snapshot_after_accept_true (regenerated from the source on every run) and
   exercised on a real loopback listener by the `certlisten` correspondence scenario. *)
Theorem C18_snapshot :
  forall (blob chain pkey ident : Type) (parse_certs : blob -> option chain)
         (parse_key : blob -> option pkey) (pair_ok : chain -> pkey -> bool)
         (parse_info : blob -> option (ident * Z)) (check_expiry : bool)
         s before after,
    nth_error (cr_conns (cr_run blob chain pkey ident parse_certs parse_key pair_ok parse_info check_expiry s
                          (before ++ CrAccept :: after)))
              (length (cr_conns (cr_run blob chain pkey ident parse_certs parse_key pair_ok parse_info check_expiry s before)))
    = Some (cr_active (cr_rl (cr_run blob chain pkey ident parse_certs parse_key pair_ok parse_info check_expiry s before))).
Proof. exact snapshot_conn. Qed.
Print Assumptions C18_snapshot.

(* sessions established before a reload (and connections accepted before it) are never touched *)
Theorem C18_sessions_undisturbed :
  forall (blob chain pkey ident : Type) (parse_certs : blob -> option chain)
         (parse_key : blob -> option pkey) (pair_ok : chain -> pkey -> bool)
         (parse_info : blob -> option (ident * Z)) (check_expiry : bool)
         s ops j a,
    (nth_error (cr_conns s) j = Some a ->
     nth_error (cr_conns (cr_run blob chain pkey ident parse_certs parse_key pair_ok parse_info check_expiry s ops)) j = Some a) /\
    (nth_error (cr_sess s) j = Some a ->
     nth_error (cr_sess (cr_run blob chain pkey ident parse_certs parse_key pair_ok parse_info check_expiry s ops)) j = Some a).
Proof. exact undisturbed. Qed.
Print Assumptions C18_sessions_undisturbed.

(* the four writes cannot be interrupted: the only partial operation after the first write is the
   checked `reload_count += 1`, unreachable in any history of fewer than 2^64 - 1 reload requests *)
Theorem C18_commit_cannot_panic :
  forall (blob chain pkey ident : Type) (parse_certs : blob -> option chain)
         (parse_key : blob -> option pkey) (pair_ok : chain -> pkey -> bool)
         (parse_info : blob -> option (ident * Z)) (check_expiry : bool)
         evs st,
    (cr_count st + N.of_nat (length evs) <= cr_u64_max)%N ->
    ~ In CrPanic (cr_outcomes blob chain pkey ident parse_certs parse_key pair_ok parse_info check_expiry st evs).
Proof. exact no_panic. Qed.
Print Assumptions C18_commit_cannot_panic.

(* non-vacuity, in the concrete world of Legacy/CertReloadLegacy.v (certificate files 1, 2 valid,
   3 expired two days ago, 4 expired one hour ago; 1, 3, 4 belong to key 10, 2 to key 20):
   the two-read and the recently-expired witnesses that the pinned code accepted are now handled;
   a valid replacement is installed; a half-done two-file update (new certificate, old key) fails. *)
Example C18_nonvacuous :
  let new := cr_new N N N N w_parse_certs w_parse_key w_pair_ok w_parse_info in
  let rel := cr_reload N N N N w_parse_certs w_parse_key w_pair_ok w_parse_info true in
  exists st0 st1,
    new (stable 1 10) w_clock = inl st0 /\
    (* certificate replaced between the two reads the pinned code made: first read wins, consistently *)
    rel st0 (Build_cr_reads (Some 1%N) (Some 10%N) (Some 2%N)) w_clock = (st1, CrOk) /\
    l_cert (cr_active st1) = 1%N /\ option_map ci_ident (cr_info st1) = Some 101%N /\ cr_count st1 = 1%N /\
    (* expired first read, fresh second read: refused *)
    rel st1 (Build_cr_reads (Some 3%N) (Some 10%N) (Some 1%N)) w_clock = (st1, CrErr CrTls) /\
    (* expired one hour ago: refused *)
    rel st1 (stable 4 10) w_clock = (st1, CrErr CrTls) /\
    (* half-done update: new certificate 2 with old key 10 *)
    rel st1 (stable 2 10) w_clock = (st1, CrErr CrTls) /\
    (* update complete *)
    snd (rel st1 (stable 2 20) w_clock) = CrOk /\
    l_cert (cr_active (fst (rel st1 (stable 2 20) w_clock))) = 2%N /\
    cr_count (fst (rel st1 (stable 2 20) w_clock)) = 2%N.
Proof.
  cbv zeta. eexists. eexists.
  split; [vm_compute; reflexivity|].
  split; [vm_compute; reflexivity|].
  repeat split; vm_compute; reflexivity.
Qed.
