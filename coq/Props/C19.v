(* C19 -- a padding scheme pushed by the server takes effect on the client: in the session that received it,
   and in every session opened afterwards, for every push in the life of the process.
   Model: Model/Padding.v (proc = BUILTIN_FACTORY + UPDATED_FACTORY of factory.rs, on_update = the
   UpdatePaddingScheme arm, session_padding = Client::session_padding, server_on_announce = the padding-md5 part of
   the server's Settings arm). md5 is a function argument; where "different scheme => different digest" is needed
   its injectivity is a hypothesis of the theorem (satisfiable: the identity; in the correspondence check real MD5). *)
From Coq Require Import List NArith ZArith.
From AnyTLS Require Import Bytes Cmd Generated Frame Text Padding PaddingProofs PaddingProcProofs.
Import ListNotations.
Open Scope N_scope.

(* a client announcing a scheme whose text differs from the server's gets the server's raw scheme; receiving it,
   the session switches to it (its packet counter goes on), the process default becomes it, and the session's
   later packets are shaped by it *)
Theorem C19_push_adopted : forall (md5 : bytes -> bytes) raw_srv srv cl p s,
  (forall a b, md5 a = md5 b -> a = b) ->
  factory_new raw_srv = Some srv -> sc_raw cl <> raw_srv -> cs_client s = true ->
  server_on_announce md5 srv (Some (scheme_md5 md5 cl)) = Some raw_srv /\
  on_update p s raw_srv = (proc_with p srv, sess_set_scheme s srv) /\
  cs_scheme (sess_set_scheme s srv) = srv /\ cs_counter (sess_set_scheme s srv) = cs_counter s /\
  proc_default (proc_with p srv) = (srv, proc_with p srv) /\
  (cs_buffering s = false -> forall d e,
     sess_write (sess_set_scheme s srv) d e =
     (let '(r, c') := write_packet (sess_pads s) srv (cs_counter s) d (cs_buffer s ++ e) in
      ({| cs_client := cs_client s; cs_scheme := srv; cs_counter := c'; cs_buffering := false; cs_buffer := [] |},
       Some r))).
Proof. exact push_adopted. Qed.
Print Assumptions C19_push_adopted.

(* a session opened after the adoption starts from the pushed scheme, announces its digest, and a server holding
   that scheme text pushes nothing (no assumption on md5 is needed for this direction) *)
Theorem C19_next_session : forall (md5 : bytes -> bytes) raw_srv srv p cl,
  factory_new raw_srv = Some srv ->
  let p' := proc_with p srv in
  let s := sess_new true (session_padding p' cl) in
  cs_scheme s = srv /\ scheme_md5 md5 (cs_scheme s) = md5 raw_srv /\
  server_on_announce md5 srv (Some (scheme_md5 md5 (cs_scheme s))) = None /\
  (forall srv', factory_new raw_srv = Some srv' -> server_on_announce md5 srv' (Some (scheme_md5 md5 (cs_scheme s))) = None).
Proof. exact next_session. Qed.
Print Assumptions C19_next_session.

(* a pushed scheme the client cannot parse changes nothing: process, session scheme, counter, buffer *)
Theorem C19_unparsable_ignored : forall p s raw, factory_new raw = None -> on_update p s raw = (p, s).
Proof. exact unparsable_ignored. Qed.
Print Assumptions C19_unparsable_ignored.

(* every history: h1, then a new session, then h2 -- any number of pushes, sessions, sends and uses of
   PaddingFactory::default(), starting from any process state p0 (built-in default materialised or not, a scheme
   already pushed or not) *)
Theorem C19_any_history : forall h1 h2 p0 cl,
  let w1 := run (world_init p0 cl) h1 in
  let i := length (w_sessions w1) in
  let w := run (step w1 EvNewSession) h2 in
  let start := match adopted_after h1 0 (p_updated p0) with Some f => f | None => cl end in
  p_updated (w_proc w) = adopted_after (h1 ++ EvNewSession :: h2) 0 (p_updated p0) /\
  w_client w = cl /\
  exists s, nth_error (w_sessions w) i = Some s /\ cs_client s = true /\
            cs_scheme s = scheme_after h2 i start.
Proof. exact any_history. Qed.
Print Assumptions C19_any_history.

(* reading of the specification functions: the last parsable push to an open session is the adopted scheme ... *)
Theorem C19_last_push_wins : forall h i raw f n cur,
  (i < n + count_new h)%nat -> factory_new raw = Some f ->
  adopted_after (h ++ [EvPush i raw]) n cur = Some f.
Proof. exact last_push_wins. Qed.
Print Assumptions C19_last_push_wins.

(* ... an unparsable one leaves it as it was, and uses of the built-in default never matter *)
Theorem C19_default_irrelevant : forall h1 h2 i raw n cur,
  (factory_new raw = None -> adopted_after (h1 ++ [EvPush i raw]) n cur = adopted_after h1 n cur) /\
  adopted_after (h1 ++ EvDefault :: h2) n cur = adopted_after (h1 ++ h2) n cur.
Proof. intros. split; [apply unparsable_push_keeps | apply default_use_irrelevant]. Qed.
Print Assumptions C19_default_irrelevant.

(* non-vacuity: the built-in default is materialised first (as the client binary does), the client was built from
   it, a session is opened, the server pushes "stop=2\n1=50-50", a second session is opened, junk is pushed *)
Example C19_nonvacuous :
  let raw := [115;116;111;112;61;50;10;49;61;53;48;45;53;48] in
  let h1 := [EvDefault; EvNewSession; EvPush 0 raw] in
  let h2 := [EvPush 1 [106;117;110;107]; EvSend 1 [] [2;0;0;0;1;0;0]] in
  exists f, factory_new raw = Some f /\ f <> builtin_scheme /\
    factory_new [106;117;110;107] = None /\
    let w := run (step (run (world_init proc_init builtin_scheme) h1) EvNewSession) h2 in
    p_updated (w_proc w) = Some f /\
    map cs_scheme (w_sessions w) = [f; f] /\
    w_out w = [(1%nat, Writes [[2;0;0;0;1;0;0] ++ waste 36])].
Proof.
  cbv zeta. eexists. split; [vm_compute; reflexivity|].
  split; [intros H; apply (f_equal sc_stop) in H; vm_compute in H; discriminate|].
  split; [vm_compute; reflexivity|]. split; [vm_compute; reflexivity|]. split; vm_compute; reflexivity.
Qed.
