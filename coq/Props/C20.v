(* C20 -- hostile or garbled input cannot crash or wedge the proxy.
   The models have no partial operation left implicit: every Rust operation that can panic on the modelled paths
   (slice indexing, `vec![0; n]` / `with_capacity(n)` with a huge n, `unwrap`, checked arithmetic) is either guarded in
   the model by the same test as in the code or represented by an explicit `Crash` result (Model/Padding.v), and the
   theorems below say that Crash / stuck / spinning is unreachable for EVERY input:
     - the frame decoder is total, consumes >= 7 bytes per frame and is independent of fragmentation;
     - the session dispatch keeps its state well-formed on every frame of every command / id / length / role, only a
       fatal Alert ends the session, and it ends it cleanly; after that the rest of the stream is inert;
     - every padding scheme a peer can push either fails to parse (ignored, C19) or can never make the sender crash;
     - every front-end parser (auth preamble, destination, UDP framing, SOCKS5, HTTP header) is a total function
       NeedMore | Reject | Accept that reads a bounded prefix and is stable under whatever follows.
   Isolation ("other sessions and connections are unaffected") is structural in the models (one state per session /
   connection; the only process-wide state is the default padding scheme, C19) and is checked on the implementation by
   the sibling session / sibling connection of every correspondence case. *)
From Coq Require Import List NArith ZArith.
From AnyTLS Require Import Bytes Cmd Generated Frame FrameProofs Reader ReaderProg ReaderProofs.
From AnyTLS Require Import Session SessTable SessHandle SessRecv HostileProofs.
From AnyTLS Require Text Padding PaddingProofs HttpText Http HttpReadProofs.
Import ListNotations.

(* ---- codec ---- *)
Theorem C20_codec_total : forall b,
  wfb b ->
  exists rs r, decode_all_raw b = (rs, r) /\ decode_all b = (map cook rs, r) /\
    b = concat (map encode_raw rs) ++ r /\ decode1 r = None /\ Forall wf_rframe rs.
Proof. exact decode_total. Qed.
Print Assumptions C20_codec_total.

Theorem C20_codec_progress : forall b : bytes,
  (7 * length (fst (decode_all b)) + length (snd (decode_all b)) <= length b)%nat.
Proof. exact decode_all_progress. Qed.
Print Assumptions C20_codec_progress.

Theorem C20_codec_chunking : forall chunks, feed_all [] chunks = decode_all (concat chunks).
Proof. exact chunking. Qed.
Print Assumptions C20_codec_chunking.

(* ---- session dispatch ---- *)
(* the session's reaction to a byte stream depends on the bytes, not on how they were fragmented *)
Theorem C20_session_chunking : forall c chunks st carry,
  cd_inv st -> decode1_raw carry = None ->
  let '(st', carry', o) := Sess.recv_all c st carry chunks in
  (st', o) = Sess.handle_all c st (fst (decode_all (carry ++ concat chunks))) /\
  (Sess.dead st' = false -> carry' = snd (decode_all (carry ++ concat chunks))).
Proof. exact recv_all_spec. Qed.
Print Assumptions C20_session_chunking.

(* any sequence of non-Alert frames (any command byte incl. unknown ones, any stream id, any payload, legal for the
   role or not) leaves the session open, alive and well-formed *)
Theorem C20_session_survives : forall c fs st,
  cfg_ok c -> wf_sess st -> Forall no_alert fs ->
  let st' := fst (Sess.handle_all c st fs) in
  wf_sess st' /\ Sess.s_closed st' = Sess.s_closed st /\ Sess.dead st' = Sess.dead st.
Proof. exact handle_all_survives. Qed.
Print Assumptions C20_session_survives.

Theorem C20_alert_closes_cleanly : forall c st f,
  fcmd f = Alert -> Sess.s_closed st = false ->
  let '(st', o) := Sess.handle c st f in
  Sess.s_closed st' = true /\ Sess.dead st' = true /\ Sess.tbl st' = [] /\ Sess.sendq st' = [] /\ o = [Sess.Closed].
Proof. exact alert_closes_cleanly. Qed.
Print Assumptions C20_alert_closes_cleanly.

Theorem C20_dead_is_inert : forall c st carry chunks,
  Sess.dead st = true -> Sess.recv_all c st carry chunks = (st, carry, []).
Proof. exact dead_is_inert. Qed.
Print Assumptions C20_dead_is_inert.

(* ---- schemes chosen by the peer ---- *)
Theorem C20_scheme_no_crash : forall raw sc pads counter draws buf,
  Padding.factory_new raw = Some sc ->
  Padding.draws_ok (Padding.line_entries sc (Padding.pkt_index counter)) draws ->
  fst (Padding.write_packet pads sc counter draws buf) <> Padding.Crash.
Proof. exact PaddingProofs.no_crash. Qed.
Print Assumptions C20_scheme_no_crash.

(* ---- front-end parsers: one statement for every reader program (auth preamble, destination header, UDP initial
   request, SOCKS5 greeting and request are instances; see C06/C07/C15/C16) ---- *)
Theorem C20_parsers_prefix_stable : forall (A : Type) (p : prog A) b m,
  run_bytes p b <> NeedMore ->
  run_bytes p (b ++ m) = match run_bytes p b with Accept v r => Accept v (r ++ m) | x => x end.
Proof. intros A p b m. exact (run_bytes_prefix_stable p b m). Qed.
Print Assumptions C20_parsers_prefix_stable.

Theorem C20_parsers_fragmentation : forall (A : Type) (p : prog A) c1 c2 closed,
  concat c1 = concat c2 -> run_chunks p c1 closed = run_chunks p c2 closed.
Proof. intros A p c1 c2 closed. exact (run_chunks_fragmentation p c1 c2 closed). Qed.
Print Assumptions C20_parsers_fragmentation.

(* non-vacuity: a garbage stream with an unknown command, a role-illegal SYNACK, a PSH for an unknown id and a
   truncated tail leaves a server session alive; the same stream followed by an Alert closes it cleanly *)
Example C20_nonvacuous :
  let c := {| Sess.c_role := Sess.Server; Sess.c_md5 := []; Sess.c_scheme := [] |} in
  let garbage := [200; 0; 0; 0; 9; 0; 1; 7] ++ [7; 0; 0; 0; 1; 0; 0] ++ [2; 0; 0; 0; 5; 0; 2; 1; 2] ++ [1; 0; 0]%N in
  let '(st, carry, o) := Sess.recv_all c (Sess.init_sess c) [] [garbage] in
  Sess.dead st = false /\ Sess.s_closed st = false /\ o = [] /\ carry = [1; 0; 0]%N /\
  Sess.dead (fst (fst (Sess.recv_all c (Sess.init_sess c) [] [[5; 0; 0; 0; 0; 0; 0]%N]))) = true.
Proof. vm_compute. repeat split; reflexivity. Qed.
