
(** val negb : bool -> bool **)

let negb = function
| true -> false
| false -> true

type nat =
| O
| S of nat

(** val fst : ('a1 * 'a2) -> 'a1 **)

let fst = function
| (x, _) -> x

(** val snd : ('a1 * 'a2) -> 'a2 **)

let snd = function
| (_, y) -> y

(** val length : 'a1 list -> nat **)

let rec length = function
| [] -> O
| _ :: l' -> S (length l')

(** val app : 'a1 list -> 'a1 list -> 'a1 list **)

let rec app l m =
  match l with
  | [] -> m
  | a :: l1 -> a :: (app l1 m)

type comparison =
| Eq
| Lt
| Gt

(** val compOpp : comparison -> comparison **)

let compOpp = function
| Eq -> Eq
| Lt -> Gt
| Gt -> Lt

module Coq__1 = struct
 (** val add : nat -> nat -> nat **)
 let rec add n0 m =
   match n0 with
   | O -> m
   | S p -> S (add p m)
end
include Coq__1

module Nat =
 struct
  (** val eqb : nat -> nat -> bool **)

  let rec eqb n0 m =
    match n0 with
    | O -> (match m with
            | O -> true
            | S _ -> false)
    | S n' -> (match m with
               | O -> false
               | S m' -> eqb n' m')
 end

(** val nth : nat -> 'a1 list -> 'a1 -> 'a1 **)

let rec nth n0 l default =
  match n0 with
  | O -> (match l with
          | [] -> default
          | x :: _ -> x)
  | S m -> (match l with
            | [] -> default
            | _ :: t -> nth m t default)

(** val rev : 'a1 list -> 'a1 list **)

let rec rev = function
| [] -> []
| x :: l' -> app (rev l') (x :: [])

(** val concat : 'a1 list list -> 'a1 list **)

let rec concat = function
| [] -> []
| x :: l0 -> app x (concat l0)

(** val map : ('a1 -> 'a2) -> 'a1 list -> 'a2 list **)

let rec map f = function
| [] -> []
| a :: t -> (f a) :: (map f t)

(** val flat_map : ('a1 -> 'a2 list) -> 'a1 list -> 'a2 list **)

let rec flat_map f = function
| [] -> []
| x :: t -> app (f x) (flat_map f t)

(** val fold_left : ('a1 -> 'a2 -> 'a1) -> 'a2 list -> 'a1 -> 'a1 **)

let rec fold_left f l a0 =
  match l with
  | [] -> a0
  | b :: t -> fold_left f t (f a0 b)

(** val existsb : ('a1 -> bool) -> 'a1 list -> bool **)

let rec existsb f = function
| [] -> false
| a :: l0 -> (||) (f a) (existsb f l0)

(** val forallb : ('a1 -> bool) -> 'a1 list -> bool **)

let rec forallb f = function
| [] -> true
| a :: l0 -> (&&) (f a) (forallb f l0)

(** val filter : ('a1 -> bool) -> 'a1 list -> 'a1 list **)

let rec filter f = function
| [] -> []
| x :: l0 -> if f x then x :: (filter f l0) else filter f l0

(** val find : ('a1 -> bool) -> 'a1 list -> 'a1 option **)

let rec find f = function
| [] -> None
| x :: tl -> if f x then Some x else find f tl

(** val split : ('a1 * 'a2) list -> 'a1 list * 'a2 list **)

let rec split = function
| [] -> ([], [])
| p :: tl ->
  let (x, y) = p in
  let (left, right) = split tl in ((x :: left), (y :: right))

(** val firstn : nat -> 'a1 list -> 'a1 list **)

let rec firstn n0 l =
  match n0 with
  | O -> []
  | S n1 -> (match l with
             | [] -> []
             | a :: l0 -> a :: (firstn n1 l0))

(** val skipn : nat -> 'a1 list -> 'a1 list **)

let rec skipn n0 l =
  match n0 with
  | O -> l
  | S n1 -> (match l with
             | [] -> []
             | _ :: l0 -> skipn n1 l0)

(** val repeat : 'a1 -> nat -> 'a1 list **)

let rec repeat x = function
| O -> []
| S k -> x :: (repeat x k)

type positive =
| XI of positive
| XO of positive
| XH

type n =
| N0
| Npos of positive

type z =
| Z0
| Zpos of positive
| Zneg of positive

module Pos =
 struct
  type mask =
  | IsNul
  | IsPos of positive
  | IsNeg
 end

module Coq_Pos =
 struct
  (** val succ : positive -> positive **)

  let rec succ = function
  | XI p -> XO (succ p)
  | XO p -> XI p
  | XH -> XO XH

  (** val add : positive -> positive -> positive **)

  let rec add x y =
    match x with
    | XI p ->
      (match y with
       | XI q -> XO (add_carry p q)
       | XO q -> XI (add p q)
       | XH -> XO (succ p))
    | XO p ->
      (match y with
       | XI q -> XI (add p q)
       | XO q -> XO (add p q)
       | XH -> XI p)
    | XH -> (match y with
             | XI q -> XO (succ q)
             | XO q -> XI q
             | XH -> XO XH)

  (** val add_carry : positive -> positive -> positive **)

  and add_carry x y =
    match x with
    | XI p ->
      (match y with
       | XI q -> XI (add_carry p q)
       | XO q -> XO (add_carry p q)
       | XH -> XI (succ p))
    | XO p ->
      (match y with
       | XI q -> XO (add_carry p q)
       | XO q -> XI (add p q)
       | XH -> XO (succ p))
    | XH ->
      (match y with
       | XI q -> XI (succ q)
       | XO q -> XO (succ q)
       | XH -> XI XH)

  (** val pred_double : positive -> positive **)

  let rec pred_double = function
  | XI p -> XI (XO p)
  | XO p -> XI (pred_double p)
  | XH -> XH

  type mask = Pos.mask =
  | IsNul
  | IsPos of positive
  | IsNeg

  (** val succ_double_mask : mask -> mask **)

  let succ_double_mask = function
  | IsNul -> IsPos XH
  | IsPos p -> IsPos (XI p)
  | IsNeg -> IsNeg

  (** val double_mask : mask -> mask **)

  let double_mask = function
  | IsPos p -> IsPos (XO p)
  | x0 -> x0

  (** val double_pred_mask : positive -> mask **)

  let double_pred_mask = function
  | XI p -> IsPos (XO (XO p))
  | XO p -> IsPos (XO (pred_double p))
  | XH -> IsNul

  (** val sub_mask : positive -> positive -> mask **)

  let rec sub_mask x y =
    match x with
    | XI p ->
      (match y with
       | XI q -> double_mask (sub_mask p q)
       | XO q -> succ_double_mask (sub_mask p q)
       | XH -> IsPos (XO p))
    | XO p ->
      (match y with
       | XI q -> succ_double_mask (sub_mask_carry p q)
       | XO q -> double_mask (sub_mask p q)
       | XH -> IsPos (pred_double p))
    | XH -> (match y with
             | XH -> IsNul
             | _ -> IsNeg)

  (** val sub_mask_carry : positive -> positive -> mask **)

  and sub_mask_carry x y =
    match x with
    | XI p ->
      (match y with
       | XI q -> succ_double_mask (sub_mask_carry p q)
       | XO q -> double_mask (sub_mask p q)
       | XH -> IsPos (pred_double p))
    | XO p ->
      (match y with
       | XI q -> double_mask (sub_mask_carry p q)
       | XO q -> succ_double_mask (sub_mask_carry p q)
       | XH -> double_pred_mask p)
    | XH -> IsNeg

  (** val mul : positive -> positive -> positive **)

  let rec mul x y =
    match x with
    | XI p -> add y (XO (mul p y))
    | XO p -> XO (mul p y)
    | XH -> y

  (** val size_nat : positive -> nat **)

  let rec size_nat = function
  | XI p0 -> S (size_nat p0)
  | XO p0 -> S (size_nat p0)
  | XH -> S O

  (** val compare_cont : comparison -> positive -> positive -> comparison **)

  let rec compare_cont r x y =
    match x with
    | XI p ->
      (match y with
       | XI q -> compare_cont r p q
       | XO q -> compare_cont Gt p q
       | XH -> Gt)
    | XO p ->
      (match y with
       | XI q -> compare_cont Lt p q
       | XO q -> compare_cont r p q
       | XH -> Gt)
    | XH -> (match y with
             | XH -> r
             | _ -> Lt)

  (** val compare : positive -> positive -> comparison **)

  let compare =
    compare_cont Eq

  (** val eqb : positive -> positive -> bool **)

  let rec eqb p q =
    match p with
    | XI p0 -> (match q with
                | XI q0 -> eqb p0 q0
                | _ -> false)
    | XO p0 -> (match q with
                | XO q0 -> eqb p0 q0
                | _ -> false)
    | XH -> (match q with
             | XH -> true
             | _ -> false)

  (** val iter_op : ('a1 -> 'a1 -> 'a1) -> positive -> 'a1 -> 'a1 **)

  let rec iter_op op p a =
    match p with
    | XI p0 -> op a (iter_op op p0 (op a a))
    | XO p0 -> iter_op op p0 (op a a)
    | XH -> a

  (** val to_nat : positive -> nat **)

  let to_nat x =
    iter_op Coq__1.add x (S O)

  (** val of_succ_nat : nat -> positive **)

  let rec of_succ_nat = function
  | O -> XH
  | S x -> succ (of_succ_nat x)
 end

module N =
 struct
  (** val succ_double : n -> n **)

  let succ_double = function
  | N0 -> Npos XH
  | Npos p -> Npos (XI p)

  (** val double : n -> n **)

  let double = function
  | N0 -> N0
  | Npos p -> Npos (XO p)

  (** val succ : n -> n **)

  let succ = function
  | N0 -> Npos XH
  | Npos p -> Npos (Coq_Pos.succ p)

  (** val add : n -> n -> n **)

  let add n0 m =
    match n0 with
    | N0 -> m
    | Npos p -> (match m with
                 | N0 -> n0
                 | Npos q -> Npos (Coq_Pos.add p q))

  (** val sub : n -> n -> n **)

  let sub n0 m =
    match n0 with
    | N0 -> N0
    | Npos n' ->
      (match m with
       | N0 -> n0
       | Npos m' ->
         (match Coq_Pos.sub_mask n' m' with
          | Coq_Pos.IsPos p -> Npos p
          | _ -> N0))

  (** val mul : n -> n -> n **)

  let mul n0 m =
    match n0 with
    | N0 -> N0
    | Npos p -> (match m with
                 | N0 -> N0
                 | Npos q -> Npos (Coq_Pos.mul p q))

  (** val compare : n -> n -> comparison **)

  let compare n0 m =
    match n0 with
    | N0 -> (match m with
             | N0 -> Eq
             | Npos _ -> Lt)
    | Npos n' -> (match m with
                  | N0 -> Gt
                  | Npos m' -> Coq_Pos.compare n' m')

  (** val eqb : n -> n -> bool **)

  let eqb n0 m =
    match n0 with
    | N0 -> (match m with
             | N0 -> true
             | Npos _ -> false)
    | Npos p -> (match m with
                 | N0 -> false
                 | Npos q -> Coq_Pos.eqb p q)

  (** val leb : n -> n -> bool **)

  let leb x y =
    match compare x y with
    | Gt -> false
    | _ -> true

  (** val ltb : n -> n -> bool **)

  let ltb x y =
    match compare x y with
    | Lt -> true
    | _ -> false

  (** val min : n -> n -> n **)

  let min n0 n' =
    match compare n0 n' with
    | Gt -> n'
    | _ -> n0

  (** val size_nat : n -> nat **)

  let size_nat = function
  | N0 -> O
  | Npos p -> Coq_Pos.size_nat p

  (** val pos_div_eucl : positive -> n -> n * n **)

  let rec pos_div_eucl a b =
    match a with
    | XI a' ->
      let (q, r) = pos_div_eucl a' b in
      let r' = succ_double r in
      if leb b r' then ((succ_double q), (sub r' b)) else ((double q), r')
    | XO a' ->
      let (q, r) = pos_div_eucl a' b in
      let r' = double r in
      if leb b r' then ((succ_double q), (sub r' b)) else ((double q), r')
    | XH ->
      (match b with
       | N0 -> (N0, (Npos XH))
       | Npos p -> (match p with
                    | XH -> ((Npos XH), N0)
                    | _ -> (N0, (Npos XH))))

  (** val div_eucl : n -> n -> n * n **)

  let div_eucl a b =
    match a with
    | N0 -> (N0, N0)
    | Npos na -> (match b with
                  | N0 -> (N0, a)
                  | Npos _ -> pos_div_eucl na b)

  (** val div : n -> n -> n **)

  let div a b =
    fst (div_eucl a b)

  (** val modulo : n -> n -> n **)

  let modulo a b =
    snd (div_eucl a b)

  (** val to_nat : n -> nat **)

  let to_nat = function
  | N0 -> O
  | Npos p -> Coq_Pos.to_nat p

  (** val of_nat : nat -> n **)

  let of_nat = function
  | O -> N0
  | S n' -> Npos (Coq_Pos.of_succ_nat n')
 end

module Z =
 struct
  (** val double : z -> z **)

  let double = function
  | Z0 -> Z0
  | Zpos p -> Zpos (XO p)
  | Zneg p -> Zneg (XO p)

  (** val succ_double : z -> z **)

  let succ_double = function
  | Z0 -> Zpos XH
  | Zpos p -> Zpos (XI p)
  | Zneg p -> Zneg (Coq_Pos.pred_double p)

  (** val pred_double : z -> z **)

  let pred_double = function
  | Z0 -> Zneg XH
  | Zpos p -> Zpos (Coq_Pos.pred_double p)
  | Zneg p -> Zneg (XI p)

  (** val pos_sub : positive -> positive -> z **)

  let rec pos_sub x y =
    match x with
    | XI p ->
      (match y with
       | XI q -> double (pos_sub p q)
       | XO q -> succ_double (pos_sub p q)
       | XH -> Zpos (XO p))
    | XO p ->
      (match y with
       | XI q -> pred_double (pos_sub p q)
       | XO q -> double (pos_sub p q)
       | XH -> Zpos (Coq_Pos.pred_double p))
    | XH ->
      (match y with
       | XI q -> Zneg (XO q)
       | XO q -> Zneg (Coq_Pos.pred_double q)
       | XH -> Z0)

  (** val add : z -> z -> z **)

  let add x y =
    match x with
    | Z0 -> y
    | Zpos x' ->
      (match y with
       | Z0 -> x
       | Zpos y' -> Zpos (Coq_Pos.add x' y')
       | Zneg y' -> pos_sub x' y')
    | Zneg x' ->
      (match y with
       | Z0 -> x
       | Zpos y' -> pos_sub y' x'
       | Zneg y' -> Zneg (Coq_Pos.add x' y'))

  (** val opp : z -> z **)

  let opp = function
  | Z0 -> Z0
  | Zpos x0 -> Zneg x0
  | Zneg x0 -> Zpos x0

  (** val sub : z -> z -> z **)

  let sub m n0 =
    add m (opp n0)

  (** val mul : z -> z -> z **)

  let mul x y =
    match x with
    | Z0 -> Z0
    | Zpos x' ->
      (match y with
       | Z0 -> Z0
       | Zpos y' -> Zpos (Coq_Pos.mul x' y')
       | Zneg y' -> Zneg (Coq_Pos.mul x' y'))
    | Zneg x' ->
      (match y with
       | Z0 -> Z0
       | Zpos y' -> Zneg (Coq_Pos.mul x' y')
       | Zneg y' -> Zpos (Coq_Pos.mul x' y'))

  (** val compare : z -> z -> comparison **)

  let compare x y =
    match x with
    | Z0 -> (match y with
             | Z0 -> Eq
             | Zpos _ -> Lt
             | Zneg _ -> Gt)
    | Zpos x' -> (match y with
                  | Zpos y' -> Coq_Pos.compare x' y'
                  | _ -> Gt)
    | Zneg x' ->
      (match y with
       | Zneg y' -> compOpp (Coq_Pos.compare x' y')
       | _ -> Lt)

  (** val leb : z -> z -> bool **)

  let leb x y =
    match compare x y with
    | Gt -> false
    | _ -> true

  (** val ltb : z -> z -> bool **)

  let ltb x y =
    match compare x y with
    | Lt -> true
    | _ -> false

  (** val eqb : z -> z -> bool **)

  let eqb x y =
    match x with
    | Z0 -> (match y with
             | Z0 -> true
             | _ -> false)
    | Zpos p -> (match y with
                 | Zpos q -> Coq_Pos.eqb p q
                 | _ -> false)
    | Zneg p -> (match y with
                 | Zneg q -> Coq_Pos.eqb p q
                 | _ -> false)

  (** val max : z -> z -> z **)

  let max n0 m =
    match compare n0 m with
    | Lt -> m
    | _ -> n0

  (** val min : z -> z -> z **)

  let min n0 m =
    match compare n0 m with
    | Gt -> m
    | _ -> n0

  (** val to_N : z -> n **)

  let to_N = function
  | Zpos p -> Npos p
  | _ -> N0

  (** val of_N : n -> z **)

  let of_N = function
  | N0 -> Z0
  | Npos p -> Zpos p

  (** val pos_div_eucl : positive -> z -> z * z **)

  let rec pos_div_eucl a b =
    match a with
    | XI a' ->
      let (q, r) = pos_div_eucl a' b in
      let r' = add (mul (Zpos (XO XH)) r) (Zpos XH) in
      if ltb r' b
      then ((mul (Zpos (XO XH)) q), r')
      else ((add (mul (Zpos (XO XH)) q) (Zpos XH)), (sub r' b))
    | XO a' ->
      let (q, r) = pos_div_eucl a' b in
      let r' = mul (Zpos (XO XH)) r in
      if ltb r' b
      then ((mul (Zpos (XO XH)) q), r')
      else ((add (mul (Zpos (XO XH)) q) (Zpos XH)), (sub r' b))
    | XH -> if leb (Zpos (XO XH)) b then (Z0, (Zpos XH)) else ((Zpos XH), Z0)

  (** val div_eucl : z -> z -> z * z **)

  let div_eucl a b =
    match a with
    | Z0 -> (Z0, Z0)
    | Zpos a' ->
      (match b with
       | Z0 -> (Z0, a)
       | Zpos _ -> pos_div_eucl a' b
       | Zneg b' ->
         let (q, r) = pos_div_eucl a' (Zpos b') in
         (match r with
          | Z0 -> ((opp q), Z0)
          | _ -> ((opp (add q (Zpos XH))), (add b r))))
    | Zneg a' ->
      (match b with
       | Z0 -> (Z0, a)
       | Zpos _ ->
         let (q, r) = pos_div_eucl a' b in
         (match r with
          | Z0 -> ((opp q), Z0)
          | _ -> ((opp (add q (Zpos XH))), (sub b r)))
       | Zneg b' -> let (q, r) = pos_div_eucl a' (Zpos b') in (q, (opp r)))

  (** val modulo : z -> z -> z **)

  let modulo a b =
    let (_, r) = div_eucl a b in r
 end

type bytes = n list

(** val lenN : 'a1 list -> n **)

let lenN l =
  N.of_nat (length l)

(** val takeN : n -> 'a1 list -> 'a1 list **)

let takeN n0 l =
  firstn (N.to_nat n0) l

(** val dropN : n -> 'a1 list -> 'a1 list **)

let dropN n0 l =
  skipn (N.to_nat n0) l

(** val be16 : n -> bytes **)

let be16 n0 =
  (N.modulo (N.div n0 (Npos (XO (XO (XO (XO (XO (XO (XO (XO XH))))))))))
    (Npos (XO (XO (XO (XO (XO (XO (XO (XO XH)))))))))) :: ((N.modulo n0 (Npos
                                                             (XO (XO (XO (XO
                                                             (XO (XO (XO (XO
                                                             XH)))))))))) :: [])

(** val be32 : n -> bytes **)

let be32 n0 =
  (N.modulo
    (N.div n0 (Npos (XO (XO (XO (XO (XO (XO (XO (XO (XO (XO (XO (XO (XO (XO
      (XO (XO (XO (XO (XO (XO (XO (XO (XO (XO XH))))))))))))))))))))))))))
    (Npos (XO (XO (XO (XO (XO (XO (XO (XO XH)))))))))) :: ((N.modulo
                                                             (N.div n0 (Npos
                                                               (XO (XO (XO
                                                               (XO (XO (XO
                                                               (XO (XO (XO
                                                               (XO (XO (XO
                                                               (XO (XO (XO
                                                               (XO
                                                               XH))))))))))))))))))
                                                             (Npos (XO (XO
                                                             (XO (XO (XO (XO
                                                             (XO (XO
                                                             XH)))))))))) :: (
    (N.modulo (N.div n0 (Npos (XO (XO (XO (XO (XO (XO (XO (XO XH))))))))))
      (Npos (XO (XO (XO (XO (XO (XO (XO (XO XH)))))))))) :: ((N.modulo n0
                                                               (Npos (XO (XO
                                                               (XO (XO (XO
                                                               (XO (XO (XO
                                                               XH)))))))))) :: [])))

(** val de16 : n -> n -> n **)

let de16 a b =
  N.add (N.mul a (Npos (XO (XO (XO (XO (XO (XO (XO (XO XH)))))))))) b

(** val de32 : n -> n -> n -> n -> n **)

let de32 a b c d =
  N.add
    (N.mul
      (N.add
        (N.mul
          (N.add (N.mul a (Npos (XO (XO (XO (XO (XO (XO (XO (XO XH))))))))))
            b) (Npos (XO (XO (XO (XO (XO (XO (XO (XO XH)))))))))) c) (Npos
      (XO (XO (XO (XO (XO (XO (XO (XO XH)))))))))) d

(** val zeros : n -> bytes **)

let zeros n0 =
  repeat N0 (N.to_nat n0)

(** val bytes_eqb : bytes -> bytes -> bool **)

let rec bytes_eqb a b =
  match a with
  | [] -> (match b with
           | [] -> true
           | _ :: _ -> false)
  | x :: a' ->
    (match b with
     | [] -> false
     | y :: b' -> (&&) (N.eqb x y) (bytes_eqb a' b'))

(** val u16_of : n -> n **)

let u16_of n0 =
  N.modulo n0 (Npos (XO (XO (XO (XO (XO (XO (XO (XO (XO (XO (XO (XO (XO (XO
    (XO (XO XH)))))))))))))))))

(** val u32_of : n -> n **)

let u32_of n0 =
  N.modulo n0 (Npos (XO (XO (XO (XO (XO (XO (XO (XO (XO (XO (XO (XO (XO (XO
    (XO (XO (XO (XO (XO (XO (XO (XO (XO (XO (XO (XO (XO (XO (XO (XO (XO (XO
    XH)))))))))))))))))))))))))))))))))

type cmd =
| Waste
| Syn
| Push
| Fin
| Settings
| Alert
| UpdatePaddingScheme
| SynAck
| HeartRequest
| HeartResponse
| ServerSettings

(** val cmd_eqb : cmd -> cmd -> bool **)

let cmd_eqb a b =
  match a with
  | Waste -> (match b with
              | Waste -> true
              | _ -> false)
  | Syn -> (match b with
            | Syn -> true
            | _ -> false)
  | Push -> (match b with
             | Push -> true
             | _ -> false)
  | Fin -> (match b with
            | Fin -> true
            | _ -> false)
  | Settings -> (match b with
                 | Settings -> true
                 | _ -> false)
  | Alert -> (match b with
              | Alert -> true
              | _ -> false)
  | UpdatePaddingScheme ->
    (match b with
     | UpdatePaddingScheme -> true
     | _ -> false)
  | SynAck -> (match b with
               | SynAck -> true
               | _ -> false)
  | HeartRequest -> (match b with
                     | HeartRequest -> true
                     | _ -> false)
  | HeartResponse -> (match b with
                      | HeartResponse -> true
                      | _ -> false)
  | ServerSettings -> (match b with
                       | ServerSettings -> true
                       | _ -> false)

(** val header_size : n **)

let header_size =
  Npos (XI (XI XH))

(** val cmd_disc : (n * cmd) list **)

let cmd_disc =
  (N0, Waste) :: (((Npos XH), Syn) :: (((Npos (XO XH)), Push) :: (((Npos (XI
    XH)), Fin) :: (((Npos (XO (XO XH))), Settings) :: (((Npos (XI (XO XH))),
    Alert) :: (((Npos (XO (XI XH))), UpdatePaddingScheme) :: (((Npos (XI (XI
    XH))), SynAck) :: (((Npos (XO (XO (XO XH)))), HeartRequest) :: (((Npos
    (XI (XO (XO XH)))), HeartResponse) :: (((Npos (XO (XI (XO XH)))),
    ServerSettings) :: []))))))))))

(** val cmd_table : (n * cmd) list **)

let cmd_table =
  (N0, Waste) :: (((Npos XH), Syn) :: (((Npos (XO XH)), Push) :: (((Npos (XI
    XH)), Fin) :: (((Npos (XO (XO XH))), Settings) :: (((Npos (XI (XO XH))),
    Alert) :: (((Npos (XO (XI XH))), UpdatePaddingScheme) :: (((Npos (XI (XI
    XH))), SynAck) :: (((Npos (XO (XO (XO XH)))), HeartRequest) :: (((Npos
    (XI (XO (XO XH)))), HeartResponse) :: (((Npos (XO (XI (XO XH)))),
    ServerSettings) :: []))))))))))

(** val cmd_default : cmd **)

let cmd_default =
  Waste

(** val encode_max_payload : n **)

let encode_max_payload =
  Npos (XI (XI (XI (XI (XI (XI (XI (XI (XI (XI (XI (XI (XI (XI (XI
    XH)))))))))))))))

(** val check_mark : z **)

let check_mark =
  Zneg XH

(** val default_scheme : n list **)

let default_scheme =
  (Npos (XI (XI (XO (XO (XI (XI XH))))))) :: ((Npos (XO (XO (XI (XO (XI (XI
    XH))))))) :: ((Npos (XI (XI (XI (XI (XO (XI XH))))))) :: ((Npos (XO (XO
    (XO (XO (XI (XI XH))))))) :: ((Npos (XI (XO (XI (XI (XI
    XH)))))) :: ((Npos (XO (XO (XO (XI (XI XH)))))) :: ((Npos (XO (XI (XO
    XH)))) :: ((Npos (XO (XO (XO (XO (XI XH)))))) :: ((Npos (XI (XO (XI (XI
    (XI XH)))))) :: ((Npos (XI (XI (XO (XO (XI XH)))))) :: ((Npos (XO (XO (XO
    (XO (XI XH)))))) :: ((Npos (XI (XO (XI (XI (XO XH)))))) :: ((Npos (XI (XI
    (XO (XO (XI XH)))))) :: ((Npos (XO (XO (XO (XO (XI XH)))))) :: ((Npos (XO
    (XI (XO XH)))) :: ((Npos (XI (XO (XO (XO (XI XH)))))) :: ((Npos (XI (XO
    (XI (XI (XI XH)))))) :: ((Npos (XI (XO (XO (XO (XI XH)))))) :: ((Npos (XO
    (XO (XO (XO (XI XH)))))) :: ((Npos (XO (XO (XO (XO (XI XH)))))) :: ((Npos
    (XI (XO (XI (XI (XO XH)))))) :: ((Npos (XO (XO (XI (XO (XI
    XH)))))) :: ((Npos (XO (XO (XO (XO (XI XH)))))) :: ((Npos (XO (XO (XO (XO
    (XI XH)))))) :: ((Npos (XO (XI (XO XH)))) :: ((Npos (XO (XI (XO (XO (XI
    XH)))))) :: ((Npos (XI (XO (XI (XI (XI XH)))))) :: ((Npos (XO (XO (XI (XO
    (XI XH)))))) :: ((Npos (XO (XO (XO (XO (XI XH)))))) :: ((Npos (XO (XO (XO
    (XO (XI XH)))))) :: ((Npos (XI (XO (XI (XI (XO XH)))))) :: ((Npos (XI (XO
    (XI (XO (XI XH)))))) :: ((Npos (XO (XO (XO (XO (XI XH)))))) :: ((Npos (XO
    (XO (XO (XO (XI XH)))))) :: ((Npos (XO (XO (XI (XI (XO XH)))))) :: ((Npos
    (XI (XI (XO (XO (XO (XI XH))))))) :: ((Npos (XO (XO (XI (XI (XO
    XH)))))) :: ((Npos (XI (XO (XI (XO (XI XH)))))) :: ((Npos (XO (XO (XO (XO
    (XI XH)))))) :: ((Npos (XO (XO (XO (XO (XI XH)))))) :: ((Npos (XI (XO (XI
    (XI (XO XH)))))) :: ((Npos (XI (XO (XO (XO (XI XH)))))) :: ((Npos (XO (XO
    (XO (XO (XI XH)))))) :: ((Npos (XO (XO (XO (XO (XI XH)))))) :: ((Npos (XO
    (XO (XO (XO (XI XH)))))) :: ((Npos (XO (XO (XI (XI (XO XH)))))) :: ((Npos
    (XI (XI (XO (XO (XO (XI XH))))))) :: ((Npos (XO (XO (XI (XI (XO
    XH)))))) :: ((Npos (XI (XO (XI (XO (XI XH)))))) :: ((Npos (XO (XO (XO (XO
    (XI XH)))))) :: ((Npos (XO (XO (XO (XO (XI XH)))))) :: ((Npos (XI (XO (XI
    (XI (XO XH)))))) :: ((Npos (XI (XO (XO (XO (XI XH)))))) :: ((Npos (XO (XO
    (XO (XO (XI XH)))))) :: ((Npos (XO (XO (XO (XO (XI XH)))))) :: ((Npos (XO
    (XO (XO (XO (XI XH)))))) :: ((Npos (XO (XO (XI (XI (XO XH)))))) :: ((Npos
    (XI (XI (XO (XO (XO (XI XH))))))) :: ((Npos (XO (XO (XI (XI (XO
    XH)))))) :: ((Npos (XI (XO (XI (XO (XI XH)))))) :: ((Npos (XO (XO (XO (XO
    (XI XH)))))) :: ((Npos (XO (XO (XO (XO (XI XH)))))) :: ((Npos (XI (XO (XI
    (XI (XO XH)))))) :: ((Npos (XI (XO (XO (XO (XI XH)))))) :: ((Npos (XO (XO
    (XO (XO (XI XH)))))) :: ((Npos (XO (XO (XO (XO (XI XH)))))) :: ((Npos (XO
    (XO (XO (XO (XI XH)))))) :: ((Npos (XO (XO (XI (XI (XO XH)))))) :: ((Npos
    (XI (XI (XO (XO (XO (XI XH))))))) :: ((Npos (XO (XO (XI (XI (XO
    XH)))))) :: ((Npos (XI (XO (XI (XO (XI XH)))))) :: ((Npos (XO (XO (XO (XO
    (XI XH)))))) :: ((Npos (XO (XO (XO (XO (XI XH)))))) :: ((Npos (XI (XO (XI
    (XI (XO XH)))))) :: ((Npos (XI (XO (XO (XO (XI XH)))))) :: ((Npos (XO (XO
    (XO (XO (XI XH)))))) :: ((Npos (XO (XO (XO (XO (XI XH)))))) :: ((Npos (XO
    (XO (XO (XO (XI XH)))))) :: ((Npos (XO (XI (XO XH)))) :: ((Npos (XI (XI
    (XO (XO (XI XH)))))) :: ((Npos (XI (XO (XI (XI (XI XH)))))) :: ((Npos (XI
    (XO (XO (XI (XI XH)))))) :: ((Npos (XI (XO (XI (XI (XO XH)))))) :: ((Npos
    (XI (XO (XO (XI (XI XH)))))) :: ((Npos (XO (XO (XI (XI (XO
    XH)))))) :: ((Npos (XI (XO (XI (XO (XI XH)))))) :: ((Npos (XO (XO (XO (XO
    (XI XH)))))) :: ((Npos (XO (XO (XO (XO (XI XH)))))) :: ((Npos (XI (XO (XI
    (XI (XO XH)))))) :: ((Npos (XI (XO (XO (XO (XI XH)))))) :: ((Npos (XO (XO
    (XO (XO (XI XH)))))) :: ((Npos (XO (XO (XO (XO (XI XH)))))) :: ((Npos (XO
    (XO (XO (XO (XI XH)))))) :: ((Npos (XO (XI (XO XH)))) :: ((Npos (XO (XO
    (XI (XO (XI XH)))))) :: ((Npos (XI (XO (XI (XI (XI XH)))))) :: ((Npos (XI
    (XO (XI (XO (XI XH)))))) :: ((Npos (XO (XO (XO (XO (XI XH)))))) :: ((Npos
    (XO (XO (XO (XO (XI XH)))))) :: ((Npos (XI (XO (XI (XI (XO
    XH)))))) :: ((Npos (XI (XO (XO (XO (XI XH)))))) :: ((Npos (XO (XO (XO (XO
    (XI XH)))))) :: ((Npos (XO (XO (XO (XO (XI XH)))))) :: ((Npos (XO (XO (XO
    (XO (XI XH)))))) :: ((Npos (XO (XI (XO XH)))) :: ((Npos (XI (XO (XI (XO
    (XI XH)))))) :: ((Npos (XI (XO (XI (XI (XI XH)))))) :: ((Npos (XI (XO (XI
    (XO (XI XH)))))) :: ((Npos (XO (XO (XO (XO (XI XH)))))) :: ((Npos (XO (XO
    (XO (XO (XI XH)))))) :: ((Npos (XI (XO (XI (XI (XO XH)))))) :: ((Npos (XI
    (XO (XO (XO (XI XH)))))) :: ((Npos (XO (XO (XO (XO (XI XH)))))) :: ((Npos
    (XO (XO (XO (XO (XI XH)))))) :: ((Npos (XO (XO (XO (XO (XI
    XH)))))) :: ((Npos (XO (XI (XO XH)))) :: ((Npos (XO (XI (XI (XO (XI
    XH)))))) :: ((Npos (XI (XO (XI (XI (XI XH)))))) :: ((Npos (XI (XO (XI (XO
    (XI XH)))))) :: ((Npos (XO (XO (XO (XO (XI XH)))))) :: ((Npos (XO (XO (XO
    (XO (XI XH)))))) :: ((Npos (XI (XO (XI (XI (XO XH)))))) :: ((Npos (XI (XO
    (XO (XO (XI XH)))))) :: ((Npos (XO (XO (XO (XO (XI XH)))))) :: ((Npos (XO
    (XO (XO (XO (XI XH)))))) :: ((Npos (XO (XO (XO (XO (XI XH)))))) :: ((Npos
    (XO (XI (XO XH)))) :: ((Npos (XI (XI (XI (XO (XI XH)))))) :: ((Npos (XI
    (XO (XI (XI (XI XH)))))) :: ((Npos (XI (XO (XI (XO (XI XH)))))) :: ((Npos
    (XO (XO (XO (XO (XI XH)))))) :: ((Npos (XO (XO (XO (XO (XI
    XH)))))) :: ((Npos (XI (XO (XI (XI (XO XH)))))) :: ((Npos (XI (XO (XO (XO
    (XI XH)))))) :: ((Npos (XO (XO (XO (XO (XI XH)))))) :: ((Npos (XO (XO (XO
    (XO (XI XH)))))) :: ((Npos (XO (XO (XO (XO (XI
    XH)))))) :: []))))))))))))))))))))))))))))))))))))))))))))))))))))))))))))))))))))))))))))))))))))))))))))))))))))))))))))))))))))))))))))))))))))))))

(** val http_max_header : n **)

let http_max_header =
  Npos (XO (XO (XO (XO (XO (XO (XO (XO (XO (XO (XO (XO (XO (XO (XO (XO
    XH))))))))))))))))

(** val http_terminator : n list **)

let http_terminator =
  (Npos (XI (XO (XI XH)))) :: ((Npos (XO (XI (XO XH)))) :: ((Npos (XI (XO (XI
    XH)))) :: ((Npos (XO (XI (XO XH)))) :: [])))

(** val http_read_chunk : n **)

let http_read_chunk =
  Npos (XO (XO (XO (XO (XO (XO (XO (XO (XO (XO XH))))))))))

(** val client_first_stream_id : n **)

let client_first_stream_id =
  Npos XH

(** val client_pkt_start : n **)

let client_pkt_start =
  N0

(** val client_send_padding : bool **)

let client_send_padding =
  true

(** val server_pkt_start : n **)

let server_pkt_start =
  N0

(** val server_send_padding : bool **)

let server_send_padding =
  false

(** val padding_size_bound : z option **)

let padding_size_bound =
  Some (Zpos (XI (XI (XI (XI (XI (XI (XI (XI (XI (XI (XI (XI (XI (XI (XI
    XH))))))))))))))))

(** val pkt_index_offset : n **)

let pkt_index_offset =
  Npos XH

(** val client_settings_fixed : (n list * n list) list **)

let client_settings_fixed =
  (((Npos (XO (XI (XI (XO (XI (XI XH))))))) :: []), ((Npos (XO (XI (XO (XO
    (XI XH)))))) :: [])) :: ((((Npos (XI (XI (XO (XO (XO (XI
    XH))))))) :: ((Npos (XO (XO (XI (XI (XO (XI XH))))))) :: ((Npos (XI (XO
    (XO (XI (XO (XI XH))))))) :: ((Npos (XI (XO (XI (XO (XO (XI
    XH))))))) :: ((Npos (XO (XI (XI (XI (XO (XI XH))))))) :: ((Npos (XO (XO
    (XI (XO (XI (XI XH))))))) :: [])))))), ((Npos (XI (XO (XO (XO (XO (XI
    XH))))))) :: ((Npos (XO (XI (XI (XI (XO (XI XH))))))) :: ((Npos (XI (XO
    (XO (XI (XI (XI XH))))))) :: ((Npos (XO (XO (XI (XO (XI (XI
    XH))))))) :: ((Npos (XO (XO (XI (XI (XO (XI XH))))))) :: ((Npos (XI (XI
    (XO (XO (XI (XI XH))))))) :: ((Npos (XI (XO (XI (XI (XO
    XH)))))) :: ((Npos (XO (XI (XO (XO (XI (XI XH))))))) :: ((Npos (XI (XI
    (XO (XO (XI (XI XH))))))) :: ((Npos (XI (XI (XI (XI (XO
    XH)))))) :: ((Npos (XO (XO (XO (XO (XI XH)))))) :: ((Npos (XO (XI (XI (XI
    (XO XH)))))) :: ((Npos (XI (XO (XO (XO (XI XH)))))) :: ((Npos (XO (XI (XI
    (XI (XO XH)))))) :: ((Npos (XO (XO (XO (XO (XI
    XH)))))) :: [])))))))))))))))) :: [])

(** val client_settings_md5_key : n list **)

let client_settings_md5_key =
  (Npos (XO (XO (XO (XO (XI (XI XH))))))) :: ((Npos (XI (XO (XO (XO (XO (XI
    XH))))))) :: ((Npos (XO (XO (XI (XO (XO (XI XH))))))) :: ((Npos (XO (XO
    (XI (XO (XO (XI XH))))))) :: ((Npos (XI (XO (XO (XI (XO (XI
    XH))))))) :: ((Npos (XO (XI (XI (XI (XO (XI XH))))))) :: ((Npos (XI (XI
    (XI (XO (XO (XI XH))))))) :: ((Npos (XI (XO (XI (XI (XO
    XH)))))) :: ((Npos (XI (XO (XI (XI (XO (XI XH))))))) :: ((Npos (XO (XO
    (XI (XO (XO (XI XH))))))) :: ((Npos (XI (XO (XI (XO (XI
    XH)))))) :: []))))))))))

(** val server_settings_md5_key : n list **)

let server_settings_md5_key =
  (Npos (XO (XO (XO (XO (XI (XI XH))))))) :: ((Npos (XI (XO (XO (XO (XO (XI
    XH))))))) :: ((Npos (XO (XO (XI (XO (XO (XI XH))))))) :: ((Npos (XO (XO
    (XI (XO (XO (XI XH))))))) :: ((Npos (XI (XO (XO (XI (XO (XI
    XH))))))) :: ((Npos (XO (XI (XI (XI (XO (XI XH))))))) :: ((Npos (XI (XI
    (XI (XO (XO (XI XH))))))) :: ((Npos (XI (XO (XI (XI (XO
    XH)))))) :: ((Npos (XI (XO (XI (XI (XO (XI XH))))))) :: ((Npos (XO (XO
    (XI (XO (XO (XI XH))))))) :: ((Npos (XI (XO (XI (XO (XI
    XH)))))) :: []))))))))))

(** val assoc_N : n -> (n * 'a1) list -> 'a1 option **)

let assoc_N k l =
  match find (fun p -> N.eqb (fst p) k) l with
  | Some p -> Some (snd p)
  | None -> None

(** val cmd_of_byte : n -> cmd **)

let cmd_of_byte b =
  match assoc_N b cmd_table with
  | Some c -> c
  | None -> cmd_default

(** val byte_of_cmd : cmd -> n **)

let byte_of_cmd c =
  match find (fun p -> cmd_eqb (snd p) c) cmd_disc with
  | Some p -> fst p
  | None -> N0

type rframe = { rcmd : n; rsid : n; rdata : bytes }

type frame = { fcmd : cmd; fsid : n; fdata : bytes }

(** val cook : rframe -> frame **)

let cook r =
  { fcmd = (cmd_of_byte r.rcmd); fsid = r.rsid; fdata = r.rdata }

(** val max_payload : n **)

let max_payload =
  encode_max_payload

(** val encode : frame -> bytes option **)

let encode f =
  if N.leb (lenN f.fdata) max_payload
  then Some
         ((byte_of_cmd f.fcmd) :: (app (be32 f.fsid)
                                    (app (be16 (lenN f.fdata)) f.fdata)))
  else None

(** val decode1_raw : bytes -> (rframe * bytes) option **)

let decode1_raw = function
| [] -> None
| c :: l ->
  (match l with
   | [] -> None
   | s3 :: l2 ->
     (match l2 with
      | [] -> None
      | s2 :: l3 ->
        (match l3 with
         | [] -> None
         | s1 :: l4 ->
           (match l4 with
            | [] -> None
            | s0 :: l5 ->
              (match l5 with
               | [] -> None
               | l1 :: l6 ->
                 (match l6 with
                  | [] -> None
                  | l0 :: rest ->
                    let len = de16 l1 l0 in
                    if N.leb len (lenN rest)
                    then Some ({ rcmd = c; rsid = (de32 s3 s2 s1 s0); rdata =
                           (takeN len rest) }, (dropN len rest))
                    else None))))))

(** val decode1 : bytes -> (frame * bytes) option **)

let decode1 b =
  match decode1_raw b with
  | Some p -> let (r, rest) = p in Some ((cook r), rest)
  | None -> None

(** val decode_all_raw_fuel : nat -> bytes -> rframe list * bytes **)

let rec decode_all_raw_fuel fuel b =
  match fuel with
  | O -> ([], b)
  | S k ->
    (match decode1_raw b with
     | Some p ->
       let (f, r) = p in
       let (fs, r') = decode_all_raw_fuel k r in ((f :: fs), r')
     | None -> ([], b))

(** val decode_all_raw : bytes -> rframe list * bytes **)

let decode_all_raw b =
  decode_all_raw_fuel (length b) b

(** val decode_all : bytes -> frame list * bytes **)

let decode_all b =
  let (fs, r) = decode_all_raw b in ((map cook fs), r)

(** val feed : bytes -> bytes -> frame list * bytes **)

let feed carry chunk =
  decode_all (app carry chunk)

(** val feed_all : bytes -> bytes list -> frame list * bytes **)

let rec feed_all carry = function
| [] -> ([], carry)
| c :: cs ->
  let (fs, carry') = feed carry c in
  let (gs, carry'') = feed_all carry' cs in ((app fs gs), carry'')

type rd = { rq : bytes list; rclosed : bool; rbuf : bytes; reof : bool }

type rres =
| RData of bytes
| REof
| RPending

(** val rd_init : rd **)

let rd_init =
  { rq = []; rclosed = false; rbuf = []; reof = false }

(** val is_nil : 'a1 list -> bool **)

let is_nil = function
| [] -> true
| _ :: _ -> false

(** val rd_push : rd -> bytes -> rd **)

let rd_push st c =
  { rq = (app st.rq (c :: [])); rclosed = st.rclosed; rbuf = st.rbuf; reof =
    st.reof }

(** val rd_close : rd -> rd **)

let rd_close st =
  { rq = st.rq; rclosed = true; rbuf = st.rbuf; reof = st.reof }

(** val pop_nonempty : bytes list -> (bytes * bytes list) option **)

let rec pop_nonempty = function
| [] -> None
| c :: q' -> if is_nil c then pop_nonempty q' else Some (c, q')

(** val rd_read : rd -> n -> rd * rres **)

let rd_read st cap =
  if (&&) st.reof (is_nil st.rbuf)
  then (st, REof)
  else if negb (is_nil st.rbuf)
       then let n0 = N.min (lenN st.rbuf) cap in
            ({ rq = st.rq; rclosed = st.rclosed; rbuf = (dropN n0 st.rbuf);
            reof = st.reof }, (RData (takeN n0 st.rbuf)))
       else (match pop_nonempty st.rq with
             | Some p ->
               let (c, q') = p in
               let n0 = N.min (lenN c) cap in
               ({ rq = q'; rclosed = st.rclosed; rbuf = (dropN n0 c); reof =
               st.reof }, (RData (takeN n0 c)))
             | None ->
               if st.rclosed
               then ({ rq = []; rclosed = true; rbuf = []; reof = true },
                      REof)
               else ({ rq = []; rclosed = false; rbuf = []; reof = st.reof },
                      RPending))

type xres =
| XOk of bytes
| XEof
| XPending

(** val rd_read_exact_fuel : nat -> rd -> n -> bytes -> rd * xres **)

let rec rd_read_exact_fuel fuel st need acc =
  if N.eqb need N0
  then (st, (XOk acc))
  else (match fuel with
        | O -> (st, XPending)
        | S k ->
          let (st', r) = rd_read st need in
          (match r with
           | RData b ->
             rd_read_exact_fuel k st' (N.sub need (lenN b)) (app acc b)
           | REof -> (st', XEof)
           | RPending -> (st', XPending)))

(** val rd_read_exact : rd -> n -> rd * xres **)

let rd_read_exact st n0 =
  rd_read_exact_fuel (add (S (N.to_nat n0)) (length st.rq)) st n0 []

(** val rd_pending_bytes : rd -> bytes **)

let rd_pending_bytes st =
  app st.rbuf (concat st.rq)

(** val rd_read_script : rd -> n list -> (rd * bytes) * bool **)

let rec rd_read_script st = function
| [] -> ((st, []), false)
| c :: cs ->
  let (st', r) = rd_read st c in
  (match r with
   | RData b ->
     let (p, e) = rd_read_script st' cs in
     let (st'', got) = p in ((st'', (app b got)), e)
   | REof -> ((st', []), true)
   | RPending -> ((st', []), false))

(** val is_ws : n -> bool **)

let is_ws b =
  (||)
    ((||)
      ((||)
        ((||)
          ((||) (N.eqb b (Npos (XI (XO (XO XH)))))
            (N.eqb b (Npos (XO (XI (XO XH))))))
          (N.eqb b (Npos (XI (XI (XO XH))))))
        (N.eqb b (Npos (XO (XO (XI XH))))))
      (N.eqb b (Npos (XI (XO (XI XH))))))
    (N.eqb b (Npos (XO (XO (XO (XO (XO XH)))))))

(** val trim_start : bytes -> bytes **)

let rec trim_start s = match s with
| [] -> []
| c :: t -> if is_ws c then trim_start t else s

(** val trim_end : bytes -> bytes **)

let trim_end s =
  rev (trim_start (rev s))

(** val trim : bytes -> bytes **)

let trim s =
  trim_end (trim_start s)

(** val split_once : n -> bytes -> (bytes * bytes) option **)

let rec split_once c = function
| [] -> None
| x :: t ->
  if N.eqb x c
  then Some ([], t)
  else (match split_once c t with
        | Some p -> let (a, b) = p in Some ((x :: a), b)
        | None -> None)

(** val split0 : n -> bytes -> bytes list **)

let rec split0 c = function
| [] -> [] :: []
| x :: t ->
  if N.eqb x c
  then [] :: (split0 c t)
  else (match split0 c t with
        | [] -> (x :: []) :: []
        | p :: ps -> (x :: p) :: ps)

(** val strip_cr : bytes -> bytes **)

let strip_cr l =
  match rev l with
  | [] -> l
  | n0 :: r ->
    (match n0 with
     | N0 -> l
     | Npos p ->
       (match p with
        | XI p0 ->
          (match p0 with
           | XO p1 ->
             (match p1 with
              | XI p2 -> (match p2 with
                          | XH -> rev r
                          | _ -> l)
              | _ -> l)
           | _ -> l)
        | _ -> l))

(** val lines_aux : bytes -> bytes -> bytes list **)

let rec lines_aux cur_rev = function
| [] -> (match cur_rev with
         | [] -> []
         | _ :: _ -> (rev cur_rev) :: [])
| x :: t ->
  if N.eqb x (Npos (XO (XI (XO XH))))
  then (strip_cr (rev cur_rev)) :: (lines_aux [] t)
  else lines_aux (x :: cur_rev) t

(** val lines : bytes -> bytes list **)

let lines s =
  lines_aux [] s

(** val digit_val : n -> z option **)

let digit_val b =
  if (&&) (N.leb (Npos (XO (XO (XO (XO (XI XH)))))) b)
       (N.leb b (Npos (XI (XO (XO (XI (XI XH)))))))
  then Some (Z.of_N (N.sub b (Npos (XO (XO (XO (XO (XI XH))))))))
  else None

(** val parse_digits : z -> bytes -> z option **)

let rec parse_digits acc = function
| [] -> Some acc
| c :: t ->
  (match digit_val c with
   | Some d -> parse_digits (Z.add (Z.mul acc (Zpos (XO (XI (XO XH))))) d) t
   | None -> None)

(** val parse_nat_digits : bytes -> z option **)

let parse_nat_digits s = match s with
| [] -> None
| _ :: _ -> parse_digits Z0 s

(** val i64_min : z **)

let i64_min =
  Zneg (XO (XO (XO (XO (XO (XO (XO (XO (XO (XO (XO (XO (XO (XO (XO (XO (XO
    (XO (XO (XO (XO (XO (XO (XO (XO (XO (XO (XO (XO (XO (XO (XO (XO (XO (XO
    (XO (XO (XO (XO (XO (XO (XO (XO (XO (XO (XO (XO (XO (XO (XO (XO (XO (XO
    (XO (XO (XO (XO (XO (XO (XO (XO (XO (XO
    XH)))))))))))))))))))))))))))))))))))))))))))))))))))))))))))))))

(** val i64_max : z **)

let i64_max =
  Zpos (XI (XI (XI (XI (XI (XI (XI (XI (XI (XI (XI (XI (XI (XI (XI (XI (XI
    (XI (XI (XI (XI (XI (XI (XI (XI (XI (XI (XI (XI (XI (XI (XI (XI (XI (XI
    (XI (XI (XI (XI (XI (XI (XI (XI (XI (XI (XI (XI (XI (XI (XI (XI (XI (XI
    (XI (XI (XI (XI (XI (XI (XI (XI (XI
    XH))))))))))))))))))))))))))))))))))))))))))))))))))))))))))))))

(** val u32_max : z **)

let u32_max =
  Zpos (XI (XI (XI (XI (XI (XI (XI (XI (XI (XI (XI (XI (XI (XI (XI (XI (XI
    (XI (XI (XI (XI (XI (XI (XI (XI (XI (XI (XI (XI (XI (XI
    XH)))))))))))))))))))))))))))))))

(** val parse_i64 : bytes -> z option **)

let parse_i64 s = match s with
| [] ->
  let neg = false in
  (match parse_nat_digits s with
   | Some v ->
     let z0 = if neg then Z.opp v else v in
     if (&&) (Z.leb i64_min z0) (Z.leb z0 i64_max) then Some z0 else None
   | None -> None)
| n0 :: t ->
  (match n0 with
   | N0 ->
     let neg = false in
     (match parse_nat_digits s with
      | Some v ->
        let z0 = if neg then Z.opp v else v in
        if (&&) (Z.leb i64_min z0) (Z.leb z0 i64_max) then Some z0 else None
      | None -> None)
   | Npos p ->
     (match p with
      | XI p0 ->
        (match p0 with
         | XI p1 ->
           (match p1 with
            | XO p2 ->
              (match p2 with
               | XI p3 ->
                 (match p3 with
                  | XO p4 ->
                    (match p4 with
                     | XH ->
                       let neg = false in
                       (match parse_nat_digits t with
                        | Some v ->
                          let z0 = if neg then Z.opp v else v in
                          if (&&) (Z.leb i64_min z0) (Z.leb z0 i64_max)
                          then Some z0
                          else None
                        | None -> None)
                     | _ ->
                       let neg = false in
                       (match parse_nat_digits s with
                        | Some v ->
                          let z0 = if neg then Z.opp v else v in
                          if (&&) (Z.leb i64_min z0) (Z.leb z0 i64_max)
                          then Some z0
                          else None
                        | None -> None))
                  | _ ->
                    let neg = false in
                    (match parse_nat_digits s with
                     | Some v ->
                       let z0 = if neg then Z.opp v else v in
                       if (&&) (Z.leb i64_min z0) (Z.leb z0 i64_max)
                       then Some z0
                       else None
                     | None -> None))
               | _ ->
                 let neg = false in
                 (match parse_nat_digits s with
                  | Some v ->
                    let z0 = if neg then Z.opp v else v in
                    if (&&) (Z.leb i64_min z0) (Z.leb z0 i64_max)
                    then Some z0
                    else None
                  | None -> None))
            | _ ->
              let neg = false in
              (match parse_nat_digits s with
               | Some v ->
                 let z0 = if neg then Z.opp v else v in
                 if (&&) (Z.leb i64_min z0) (Z.leb z0 i64_max)
                 then Some z0
                 else None
               | None -> None))
         | XO p1 ->
           (match p1 with
            | XI p2 ->
              (match p2 with
               | XI p3 ->
                 (match p3 with
                  | XO p4 ->
                    (match p4 with
                     | XH ->
                       let neg = true in
                       (match parse_nat_digits t with
                        | Some v ->
                          let z0 = if neg then Z.opp v else v in
                          if (&&) (Z.leb i64_min z0) (Z.leb z0 i64_max)
                          then Some z0
                          else None
                        | None -> None)
                     | _ ->
                       let neg = false in
                       (match parse_nat_digits s with
                        | Some v ->
                          let z0 = if neg then Z.opp v else v in
                          if (&&) (Z.leb i64_min z0) (Z.leb z0 i64_max)
                          then Some z0
                          else None
                        | None -> None))
                  | _ ->
                    let neg = false in
                    (match parse_nat_digits s with
                     | Some v ->
                       let z0 = if neg then Z.opp v else v in
                       if (&&) (Z.leb i64_min z0) (Z.leb z0 i64_max)
                       then Some z0
                       else None
                     | None -> None))
               | _ ->
                 let neg = false in
                 (match parse_nat_digits s with
                  | Some v ->
                    let z0 = if neg then Z.opp v else v in
                    if (&&) (Z.leb i64_min z0) (Z.leb z0 i64_max)
                    then Some z0
                    else None
                  | None -> None))
            | _ ->
              let neg = false in
              (match parse_nat_digits s with
               | Some v ->
                 let z0 = if neg then Z.opp v else v in
                 if (&&) (Z.leb i64_min z0) (Z.leb z0 i64_max)
                 then Some z0
                 else None
               | None -> None))
         | XH ->
           let neg = false in
           (match parse_nat_digits s with
            | Some v ->
              let z0 = if neg then Z.opp v else v in
              if (&&) (Z.leb i64_min z0) (Z.leb z0 i64_max)
              then Some z0
              else None
            | None -> None))
      | _ ->
        let neg = false in
        (match parse_nat_digits s with
         | Some v ->
           let z0 = if neg then Z.opp v else v in
           if (&&) (Z.leb i64_min z0) (Z.leb z0 i64_max)
           then Some z0
           else None
         | None -> None)))

(** val parse_u32 : bytes -> n option **)

let parse_u32 s =
  let body =
    match s with
    | [] -> s
    | n0 :: t ->
      (match n0 with
       | N0 -> s
       | Npos p ->
         (match p with
          | XI p0 ->
            (match p0 with
             | XI p1 ->
               (match p1 with
                | XO p2 ->
                  (match p2 with
                   | XI p3 ->
                     (match p3 with
                      | XO p4 -> (match p4 with
                                  | XH -> t
                                  | _ -> s)
                      | _ -> s)
                   | _ -> s)
                | _ -> s)
             | _ -> s)
          | _ -> s))
  in
  (match parse_nat_digits body with
   | Some v -> if Z.leb v u32_max then Some (Z.to_N v) else None
   | None -> None)

(** val to_dec_fuel : nat -> n -> bytes -> bytes **)

let rec to_dec_fuel fuel n0 acc =
  match fuel with
  | O -> acc
  | S f ->
    let acc' =
      (N.add (Npos (XO (XO (XO (XO (XI XH))))))
        (N.modulo n0 (Npos (XO (XI (XO XH)))))) :: acc
    in
    if N.eqb (N.div n0 (Npos (XO (XI (XO XH))))) N0
    then acc'
    else to_dec_fuel f (N.div n0 (Npos (XO (XI (XO XH))))) acc'

(** val u32_to_string : n -> bytes **)

let u32_to_string n0 =
  to_dec_fuel (S (S (S (S (S (S (S (S (S (S O)))))))))) n0 []

(** val filter_map : ('a1 -> 'a2 option) -> 'a1 list -> 'a2 list **)

let rec filter_map f = function
| [] -> []
| x :: t ->
  (match f x with
   | Some y -> y :: (filter_map f t)
   | None -> filter_map f t)

type smap = (bytes * bytes) list

(** val map_get : bytes -> smap -> bytes option **)

let rec map_get k = function
| [] -> None
| p :: m' ->
  let (k', v) = p in
  (match map_get k m' with
   | Some x -> Some x
   | None -> if bytes_eqb k' k then Some v else None)

(** val parse_kv : bytes -> (bytes * bytes) option **)

let parse_kv l =
  match split_once (Npos (XI (XO (XI (XI (XI XH)))))) l with
  | Some p -> let (k, v) = p in Some ((trim k), (trim v))
  | None -> None

(** val parse_map : bytes -> smap **)

let parse_map raw =
  filter_map parse_kv (lines raw)

(** val key_stop : bytes **)

let key_stop =
  (Npos (XI (XI (XO (XO (XI (XI XH))))))) :: ((Npos (XO (XO (XI (XO (XI (XI
    XH))))))) :: ((Npos (XI (XI (XI (XI (XO (XI XH))))))) :: ((Npos (XO (XO
    (XO (XO (XI (XI XH))))))) :: [])))

(** val lit_c : bytes **)

let lit_c =
  (Npos (XI (XI (XO (XO (XO (XI XH))))))) :: []

type scheme = { sc_map : smap; sc_raw : bytes; sc_stop : n }

(** val factory_new : bytes -> scheme option **)

let factory_new raw =
  let m = parse_map raw in
  (match map_get key_stop m with
   | Some v ->
     (match parse_u32 v with
      | Some s -> Some { sc_map = m; sc_raw = raw; sc_stop = s }
      | None -> None)
   | None -> None)

type entry =
| ECheck
| ERange of z * z

(** val or0 : z option -> z **)

let or0 = function
| Some z0 -> z0
| None -> Z0

(** val parse_entry : z option -> bytes -> entry option **)

let parse_entry bound part =
  let p = trim part in
  if bytes_eqb p lit_c
  then Some ECheck
  else (match split_once (Npos (XI (XO (XI (XI (XO XH)))))) p with
        | Some p0 ->
          let (a, b) = p0 in
          let lo = or0 (parse_i64 (trim a)) in
          let hi = or0 (parse_i64 (trim b)) in
          if (||) (Z.leb lo Z0) (Z.leb hi Z0)
          then None
          else let mn = Z.min lo hi in
               let mx = Z.max lo hi in
               (match bound with
                | Some bd ->
                  if Z.ltb bd mx then None else Some (ERange (mn, mx))
                | None -> Some (ERange (mn, mx)))
        | None -> None)

(** val spec_entries : z option -> bytes -> entry list **)

let spec_entries bound spec =
  filter_map (parse_entry bound)
    (split0 (Npos (XO (XO (XI (XI (XO XH)))))) spec)

(** val line_entries_gen : z option -> scheme -> n -> entry list **)

let line_entries_gen bound sc pkt0 =
  match map_get (u32_to_string pkt0) sc.sc_map with
  | Some spec -> spec_entries bound spec
  | None -> []

(** val line_entries : scheme -> n -> entry list **)

let line_entries =
  line_entries_gen padding_size_bound

(** val i32_of : z -> z **)

let i32_of z0 =
  Z.sub
    (Z.modulo
      (Z.add z0 (Zpos (XO (XO (XO (XO (XO (XO (XO (XO (XO (XO (XO (XO (XO (XO
        (XO (XO (XO (XO (XO (XO (XO (XO (XO (XO (XO (XO (XO (XO (XO (XO (XO
        XH))))))))))))))))))))))))))))))))) (Zpos (XO (XO (XO (XO (XO (XO (XO
      (XO (XO (XO (XO (XO (XO (XO (XO (XO (XO (XO (XO (XO (XO (XO (XO (XO (XO
      (XO (XO (XO (XO (XO (XO (XO XH)))))))))))))))))))))))))))))))))) (Zpos
    (XO (XO (XO (XO (XO (XO (XO (XO (XO (XO (XO (XO (XO (XO (XO (XO (XO (XO
    (XO (XO (XO (XO (XO (XO (XO (XO (XO (XO (XO (XO (XO
    XH))))))))))))))))))))))))))))))))

(** val usize_of_i32 : z -> n **)

let usize_of_i32 z0 =
  Z.to_N
    (if Z.ltb z0 Z0
     then Z.add z0 (Zpos (XO (XO (XO (XO (XO (XO (XO (XO (XO (XO (XO (XO (XO
            (XO (XO (XO (XO (XO (XO (XO (XO (XO (XO (XO (XO (XO (XO (XO (XO
            (XO (XO (XO (XO (XO (XO (XO (XO (XO (XO (XO (XO (XO (XO (XO (XO
            (XO (XO (XO (XO (XO (XO (XO (XO (XO (XO (XO (XO (XO (XO (XO (XO
            (XO (XO (XO
            XH)))))))))))))))))))))))))))))))))))))))))))))))))))))))))))))))))
     else z0)

(** val isize_max : n **)

let isize_max =
  Npos (XI (XI (XI (XI (XI (XI (XI (XI (XI (XI (XI (XI (XI (XI (XI (XI (XI
    (XI (XI (XI (XI (XI (XI (XI (XI (XI (XI (XI (XI (XI (XI (XI (XI (XI (XI
    (XI (XI (XI (XI (XI (XI (XI (XI (XI (XI (XI (XI (XI (XI (XI (XI (XI (XI
    (XI (XI (XI (XI (XI (XI (XI (XI (XI
    XH))))))))))))))))))))))))))))))))))))))))))))))))))))))))))))))

(** val sizes : entry list -> z list -> z list **)

let rec sizes es draws =
  match es with
  | [] -> []
  | e :: es' ->
    (match e with
     | ECheck -> check_mark :: (sizes es' draws)
     | ERange (lo, hi) ->
       if Z.eqb lo hi
       then (i32_of lo) :: (sizes es' draws)
       else (match draws with
             | [] -> (i32_of lo) :: (sizes es' [])
             | d :: ds -> (i32_of d) :: (sizes es' ds)))

(** val wr : bytes -> bytes list **)

let wr b = match b with
| [] -> []
| _ :: _ -> b :: []

(** val is_nil0 : 'a1 list -> bool **)

let is_nil0 = function
| [] -> true
| _ :: _ -> false

(** val waste_bytes : n -> n -> bytes **)

let waste_bytes lf n0 =
  (byte_of_cmd Waste) :: (app (be32 N0) (app (be16 lf) (zeros n0)))

type shaped =
| Crash
| Writes of bytes list

(** val and_then : bytes list -> shaped -> shaped **)

let and_then w = function
| Crash -> Crash
| Writes ws -> Writes (app w ws)

(** val shape_loop : z list -> bytes -> shaped **)

let rec shape_loop szs buf =
  match szs with
  | [] -> Writes (wr buf)
  | s :: rest ->
    if Z.eqb s check_mark
    then if is_nil0 buf then Writes [] else shape_loop rest buf
    else let sz = usize_of_i32 s in
         let remain = lenN buf in
         if N.ltb sz remain
         then and_then (wr (takeN sz buf)) (shape_loop rest (dropN sz buf))
         else if N.ltb N0 remain
              then let pl = N.sub sz (N.add remain header_size) in
                   if N.ltb N0 pl
                   then if N.ltb isize_max (N.add header_size pl)
                        then Crash
                        else and_then
                               (wr (app buf (waste_bytes (u16_of pl) pl)))
                               (shape_loop rest [])
                   else and_then (wr buf) (shape_loop rest [])
              else if N.ltb isize_max (N.add header_size sz)
                   then Crash
                   else and_then (wr (waste_bytes (u16_of sz) sz))
                          (shape_loop rest [])

(** val pkt_index : n -> n **)

let pkt_index counter =
  u32_of (N.add counter pkt_index_offset)

(** val write_packet_gen :
    (n -> n) -> (scheme -> n -> entry list) -> bool -> scheme -> n -> z list
    -> bytes -> shaped * n **)

let write_packet_gen idx entries_of pads sc counter draws buf =
  if negb pads
  then ((Writes (wr buf)), counter)
  else let pkt0 = idx counter in
       let counter' = u32_of (N.add counter (Npos XH)) in
       if N.leb sc.sc_stop pkt0
       then ((Writes (wr buf)), counter')
       else (match sizes (entries_of sc pkt0) draws with
             | [] -> ((Writes (wr buf)), counter')
             | z0 :: l -> ((shape_loop (z0 :: l) buf), counter'))

(** val write_packet :
    bool -> scheme -> n -> z list -> bytes -> shaped * n **)

let write_packet =
  write_packet_gen pkt_index line_entries

type csess = { cs_client : bool; cs_scheme : scheme; cs_counter : n;
               cs_buffering : bool; cs_buffer : bytes }

(** val sess_new : bool -> scheme -> csess **)

let sess_new client sc =
  { cs_client = client; cs_scheme = sc; cs_counter =
    (if client then client_pkt_start else server_pkt_start); cs_buffering =
    false; cs_buffer = [] }

(** val sess_pads : csess -> bool **)

let sess_pads s =
  if s.cs_client then client_send_padding else server_send_padding

(** val sess_write : csess -> z list -> bytes -> csess * shaped option **)

let sess_write s draws e =
  if s.cs_buffering
  then ({ cs_client = s.cs_client; cs_scheme = s.cs_scheme; cs_counter =
         s.cs_counter; cs_buffering = true; cs_buffer =
         (app s.cs_buffer e) }, None)
  else let (r, c') =
         write_packet (sess_pads s) s.cs_scheme s.cs_counter draws
           (app s.cs_buffer e)
       in
       ({ cs_client = s.cs_client; cs_scheme = s.cs_scheme; cs_counter = c';
       cs_buffering = false; cs_buffer = [] }, (Some r))

(** val sess_set_buffering : csess -> bool -> csess **)

let sess_set_buffering s b =
  { cs_client = s.cs_client; cs_scheme = s.cs_scheme; cs_counter =
    s.cs_counter; cs_buffering = b; cs_buffer = s.cs_buffer }

(** val sess_set_scheme : csess -> scheme -> csess **)

let sess_set_scheme s sc =
  { cs_client = s.cs_client; cs_scheme = sc; cs_counter = s.cs_counter;
    cs_buffering = s.cs_buffering; cs_buffer = s.cs_buffer }

(** val run_packets :
    bool -> scheme -> n -> (z list * bytes) list -> shaped list **)

let rec run_packets pads sc counter = function
| [] -> []
| p0 :: rest ->
  let (d, p) = p0 in
  let (r, c') = write_packet pads sc counter d p in
  r :: (run_packets pads sc c' rest)

(** val auth_writes : bytes -> z list -> bytes list **)

let auth_writes hash szs =
  let first = match szs with
              | [] -> Z0
              | s :: _ -> s in
  let plen = if Z.ltb first Z0 then N0 else u16_of (Z.to_N first) in
  app (wr hash)
    (app (wr (be16 plen)) (if N.ltb N0 plen then wr (zeros plen) else []))

(** val waste : n -> bytes **)

let waste n0 =
  N0 :: (app (be32 N0) (app (be16 n0) (zeros n0)))

(** val in_range : z -> z -> z -> bool **)

let in_range lo hi x =
  (&&) (Z.leb lo x) (Z.leb x hi)

(** val accepts : entry list -> bytes -> bytes list -> bool **)

let rec accepts es p ws =
  match es with
  | [] ->
    (match p with
     | [] -> is_nil0 ws
     | _ :: _ ->
       (match ws with
        | [] -> false
        | w :: l -> (match l with
                     | [] -> bytes_eqb w p
                     | _ :: _ -> false)))
  | e :: es' ->
    (match e with
     | ECheck -> (match p with
                  | [] -> is_nil0 ws
                  | _ :: _ -> accepts es' p ws)
     | ERange (lo, hi) ->
       (match ws with
        | [] -> false
        | w :: ws' ->
          let l = Z.of_N (lenN w) in
          let r = Z.of_N (lenN p) in
          (match p with
           | [] ->
             let s = Z.sub l (Zpos (XI (XI XH))) in
             (&&)
               ((&&)
                 ((&&) (in_range lo hi s)
                   (Z.leb s (Zpos (XI (XI (XI (XI (XI (XI (XI (XI (XI (XI (XI
                     (XI (XI (XI (XI XH))))))))))))))))))
                 (bytes_eqb w (waste (Z.to_N s)))) (accepts es' [] ws')
           | _ :: _ ->
             if Z.ltb l r
             then (&&)
                    ((&&) (in_range lo hi l) (bytes_eqb w (takeN (lenN w) p)))
                    (accepts es' (dropN (lenN w) p) ws')
             else if Z.eqb l r
                  then (&&)
                         ((&&)
                           (Z.leb (Z.max lo r)
                             (Z.min hi (Z.add r (Zpos (XI (XI XH))))))
                           (bytes_eqb w p)) (accepts es' [] ws')
                  else let n0 = Z.sub (Z.sub l r) (Zpos (XI (XI XH))) in
                       (&&)
                         ((&&)
                           ((&&) ((&&) (in_range lo hi l) (Z.ltb Z0 n0))
                             (Z.leb n0 (Zpos (XI (XI (XI (XI (XI (XI (XI (XI
                               (XI (XI (XI (XI (XI (XI (XI XH))))))))))))))))))
                           (bytes_eqb w (app p (waste (Z.to_N n0)))))
                         (accepts es' [] ws'))))

(** val builtin_scheme : scheme **)

let builtin_scheme =
  match factory_new default_scheme with
  | Some s -> s
  | None -> { sc_map = []; sc_raw = default_scheme; sc_stop = N0 }

type proc = { p_builtin_made : bool; p_updated : scheme option }

(** val proc_init : proc **)

let proc_init =
  { p_builtin_made = false; p_updated = None }

(** val proc_default : proc -> scheme * proc **)

let proc_default p =
  match p.p_updated with
  | Some s -> (s, p)
  | None -> (builtin_scheme, { p_builtin_made = true; p_updated = None })

(** val proc_update : proc -> bytes -> proc option **)

let proc_update p raw =
  match factory_new raw with
  | Some f -> Some { p_builtin_made = p.p_builtin_made; p_updated = (Some f) }
  | None -> None

(** val session_padding : proc -> scheme -> scheme **)

let session_padding p client_scheme =
  match p.p_updated with
  | Some s -> s
  | None -> client_scheme

(** val on_update : proc -> csess -> bytes -> proc * csess **)

let on_update p s raw =
  if (&&) s.cs_client (negb (is_nil0 raw))
  then (match proc_update p raw with
        | Some p' ->
          let (d, p'') = proc_default p' in (p'', (sess_set_scheme s d))
        | None -> (p, s))
  else (p, s)

(** val scheme_md5 : (bytes -> bytes) -> scheme -> bytes **)

let scheme_md5 md5 sc =
  md5 sc.sc_raw

(** val client_settings : (bytes -> bytes) -> scheme -> smap **)

let client_settings md5 sc =
  app client_settings_fixed ((client_settings_md5_key,
    (scheme_md5 md5 sc)) :: [])

(** val server_on_announce :
    (bytes -> bytes) -> scheme -> bytes option -> bytes option **)

let server_on_announce md5 srv = function
| Some a -> if bytes_eqb a (scheme_md5 md5 srv) then None else Some srv.sc_raw
| None -> None

(** val server_on_settings :
    (bytes -> bytes) -> scheme -> smap -> bytes option **)

let server_on_settings md5 srv settings =
  server_on_announce md5 srv (map_get server_settings_md5_key settings)

type world = { w_proc : proc; w_client : scheme; w_sessions : csess list;
               w_out : (nat * shaped) list }

(** val world_init : proc -> scheme -> world **)

let world_init p client_scheme =
  { w_proc = p; w_client = client_scheme; w_sessions = []; w_out = [] }

(** val h_nil : 'a1 list -> bool **)

let h_nil = function
| [] -> true
| _ :: _ -> false

(** val h_is_ws : n -> bool **)

let h_is_ws c =
  (||)
    ((&&) (N.leb (Npos (XI (XO (XO XH)))) c)
      (N.leb c (Npos (XI (XO (XI XH))))))
    (N.eqb c (Npos (XO (XO (XO (XO (XO XH)))))))

(** val h_starts_with : bytes -> bytes -> bool **)

let rec h_starts_with p s =
  match p with
  | [] -> true
  | x :: p' ->
    (match s with
     | [] -> false
     | y :: s' -> (&&) (N.eqb x y) (h_starts_with p' s'))

(** val h_strip_prefix : bytes -> bytes -> bytes option **)

let rec h_strip_prefix p s =
  match p with
  | [] -> Some s
  | x :: p' ->
    (match s with
     | [] -> None
     | y :: s' -> if N.eqb x y then h_strip_prefix p' s' else None)

(** val h_find : bytes -> bytes -> n option **)

let rec h_find p s =
  if h_starts_with p s
  then Some N0
  else (match s with
        | [] -> None
        | _ :: s' ->
          (match h_find p s' with
           | Some i -> Some (N.succ i)
           | None -> None))

(** val h_find_if : (n -> bool) -> bytes -> n option **)

let rec h_find_if f = function
| [] -> None
| x :: s' ->
  if f x
  then Some N0
  else (match h_find_if f s' with
        | Some i -> Some (N.succ i)
        | None -> None)

(** val h_rfind_byte : n -> bytes -> n option **)

let rec h_rfind_byte c = function
| [] -> None
| x :: s' ->
  (match h_rfind_byte c s' with
   | Some i -> Some (N.succ i)
   | None -> if N.eqb x c then Some N0 else None)

(** val h_contains_byte : n -> bytes -> bool **)

let h_contains_byte c s =
  existsb (fun x -> N.eqb x c) s

(** val h_split_crlf : bytes -> bytes list **)

let rec h_split_crlf = function
| [] -> [] :: []
| x :: s' ->
  (match s' with
   | [] -> (x :: []) :: []
   | y :: s'' ->
     if (&&) (N.eqb x (Npos (XI (XO (XI XH)))))
          (N.eqb y (Npos (XO (XI (XO XH)))))
     then [] :: (h_split_crlf s'')
     else (match h_split_crlf s' with
           | [] -> (x :: []) :: []
           | l :: ls -> (x :: l) :: ls))

(** val h_ws_aux : bytes -> bytes * bytes list **)

let rec h_ws_aux = function
| [] -> ([], [])
| x :: s' ->
  let (t, ts) = h_ws_aux s' in
  if h_is_ws x
  then ([], (if h_nil t then ts else t :: ts))
  else ((x :: t), ts)

(** val h_split_whitespace : bytes -> bytes list **)

let h_split_whitespace s =
  let (t, ts) = h_ws_aux s in if h_nil t then ts else t :: ts

(** val h_trim_start_by : (n -> bool) -> bytes -> bytes **)

let rec h_trim_start_by f s = match s with
| [] -> []
| x :: s' -> if f x then h_trim_start_by f s' else s

(** val h_trim_end_by : (n -> bool) -> bytes -> bytes **)

let h_trim_end_by f s =
  rev (h_trim_start_by f (rev s))

(** val h_trim_by : (n -> bool) -> bytes -> bytes **)

let h_trim_by f s =
  h_trim_end_by f (h_trim_start_by f s)

(** val h_trim : bytes -> bytes **)

let h_trim s =
  h_trim_by h_is_ws s

(** val h_trim_matches : n -> bytes -> bytes **)

let h_trim_matches c s =
  h_trim_by (fun x -> N.eqb x c) s

(** val h_lower : n -> n **)

let h_lower c =
  if (&&) (N.leb (Npos (XI (XO (XO (XO (XO (XO XH))))))) c)
       (N.leb c (Npos (XO (XI (XO (XI (XI (XO XH))))))))
  then N.add c (Npos (XO (XO (XO (XO (XO XH))))))
  else c

(** val h_to_lower : bytes -> bytes **)

let h_to_lower s =
  map h_lower s

(** val h_eq_ignore_case : bytes -> bytes -> bool **)

let h_eq_ignore_case a b =
  bytes_eqb (h_to_lower a) (h_to_lower b)

(** val h_digit : n -> n option **)

let h_digit c =
  if (&&) (N.leb (Npos (XO (XO (XO (XO (XI XH)))))) c)
       (N.leb c (Npos (XI (XO (XO (XI (XI XH)))))))
  then Some (N.sub c (Npos (XO (XO (XO (XO (XI XH)))))))
  else None

(** val h_parse_digits : n -> n -> bytes -> n option **)

let rec h_parse_digits lim acc = function
| [] -> Some acc
| c :: s' ->
  (match h_digit c with
   | Some d ->
     let v = N.add (N.mul acc (Npos (XO (XI (XO XH))))) d in
     if N.leb v lim then h_parse_digits lim v s' else None
   | None -> None)

(** val h_parse_uint : n -> bytes -> n option **)

let h_parse_uint lim s =
  let s' =
    match s with
    | [] -> s
    | c :: t -> if N.eqb c (Npos (XI (XI (XO (XI (XO XH)))))) then t else s
  in
  if h_nil s' then None else h_parse_digits lim N0 s'

(** val h_parse_u16 : bytes -> n option **)

let h_parse_u16 s =
  h_parse_uint (Npos (XI (XI (XI (XI (XI (XI (XI (XI (XI (XI (XI (XI (XI (XI
    (XI XH)))))))))))))))) s

(** val h_dec_fuel : nat -> n -> bytes -> bytes **)

let rec h_dec_fuel fuel n0 acc =
  match fuel with
  | O -> acc
  | S k ->
    let acc' =
      (N.add (Npos (XO (XO (XO (XO (XI XH))))))
        (N.modulo n0 (Npos (XO (XI (XO XH)))))) :: acc
    in
    if N.eqb (N.div n0 (Npos (XO (XI (XO XH))))) N0
    then acc'
    else h_dec_fuel k (N.div n0 (Npos (XO (XI (XO XH))))) acc'

(** val h_dec : n -> bytes **)

let h_dec n0 =
  h_dec_fuel (S (N.size_nat n0)) n0 []

type 'a hres =
| HOk of 'a
| HErr

(** val k_crlf : bytes **)

let k_crlf =
  (Npos (XI (XO (XI XH)))) :: ((Npos (XO (XI (XO XH)))) :: [])

(** val k_connect : bytes **)

let k_connect =
  (Npos (XI (XI (XO (XO (XO (XO XH))))))) :: ((Npos (XI (XI (XI (XI (XO (XO
    XH))))))) :: ((Npos (XO (XI (XI (XI (XO (XO XH))))))) :: ((Npos (XO (XI
    (XI (XI (XO (XO XH))))))) :: ((Npos (XI (XO (XI (XO (XO (XO
    XH))))))) :: ((Npos (XI (XI (XO (XO (XO (XO XH))))))) :: ((Npos (XO (XO
    (XI (XO (XI (XO XH))))))) :: []))))))

(** val k_host_colon : bytes **)

let k_host_colon =
  (Npos (XO (XO (XO (XI (XO (XI XH))))))) :: ((Npos (XI (XI (XI (XI (XO (XI
    XH))))))) :: ((Npos (XI (XI (XO (XO (XI (XI XH))))))) :: ((Npos (XO (XO
    (XI (XO (XI (XI XH))))))) :: ((Npos (XO (XI (XO (XI (XI XH)))))) :: []))))

(** val k_http : bytes **)

let k_http =
  (Npos (XO (XO (XO (XI (XO (XI XH))))))) :: ((Npos (XO (XO (XI (XO (XI (XI
    XH))))))) :: ((Npos (XO (XO (XI (XO (XI (XI XH))))))) :: ((Npos (XO (XO
    (XO (XO (XI (XI XH))))))) :: ((Npos (XO (XI (XO (XI (XI
    XH)))))) :: ((Npos (XI (XI (XI (XI (XO XH)))))) :: ((Npos (XI (XI (XI (XI
    (XO XH)))))) :: []))))))

(** val k_https : bytes **)

let k_https =
  (Npos (XO (XO (XO (XI (XO (XI XH))))))) :: ((Npos (XO (XO (XI (XO (XI (XI
    XH))))))) :: ((Npos (XO (XO (XI (XO (XI (XI XH))))))) :: ((Npos (XO (XO
    (XO (XO (XI (XI XH))))))) :: ((Npos (XI (XI (XO (XO (XI (XI
    XH))))))) :: ((Npos (XO (XI (XO (XI (XI XH)))))) :: ((Npos (XI (XI (XI
    (XI (XO XH)))))) :: ((Npos (XI (XI (XI (XI (XO XH)))))) :: [])))))))

(** val k_scheme_sep : bytes **)

let k_scheme_sep =
  (Npos (XO (XI (XO (XI (XI XH)))))) :: ((Npos (XI (XI (XI (XI (XO
    XH)))))) :: ((Npos (XI (XI (XI (XI (XO XH)))))) :: []))

(** val k_http11 : bytes **)

let k_http11 =
  (Npos (XO (XO (XO (XI (XO (XO XH))))))) :: ((Npos (XO (XO (XI (XO (XI (XO
    XH))))))) :: ((Npos (XO (XO (XI (XO (XI (XO XH))))))) :: ((Npos (XO (XO
    (XO (XO (XI (XO XH))))))) :: ((Npos (XI (XI (XI (XI (XO
    XH)))))) :: ((Npos (XI (XO (XO (XO (XI XH)))))) :: ((Npos (XO (XI (XI (XI
    (XO XH)))))) :: ((Npos (XI (XO (XO (XO (XI XH)))))) :: [])))))))

(** val k_host_sp : bytes **)

let k_host_sp =
  (Npos (XO (XO (XO (XI (XO (XO XH))))))) :: ((Npos (XI (XI (XI (XI (XO (XI
    XH))))))) :: ((Npos (XI (XI (XO (XO (XI (XI XH))))))) :: ((Npos (XO (XO
    (XI (XO (XI (XI XH))))))) :: ((Npos (XO (XI (XO (XI (XI
    XH)))))) :: ((Npos (XO (XO (XO (XO (XO XH)))))) :: [])))))

(** val c_colon : n **)

let c_colon =
  Npos (XO (XI (XO (XI (XI XH)))))

(** val c_slash : n **)

let c_slash =
  Npos (XI (XI (XI (XI (XO XH)))))

(** val c_qmark : n **)

let c_qmark =
  Npos (XI (XI (XI (XI (XI XH)))))

(** val c_star : n **)

let c_star =
  Npos (XO (XI (XO (XI (XO XH)))))

(** val c_lbr : n **)

let c_lbr =
  Npos (XI (XI (XO (XI (XI (XO XH))))))

(** val c_rbr : n **)

let c_rbr =
  Npos (XI (XO (XI (XI (XI (XO XH))))))

(** val c_sp : n **)

let c_sp =
  Npos (XO (XO (XO (XO (XO XH)))))

(** val find_header_end : bytes -> n option **)

let find_header_end b =
  match h_find http_terminator b with
  | Some i -> Some (N.add i (lenN http_terminator))
  | None -> None

type hrh =
| RhOk of bytes * bytes * bytes list
| RhTooLarge
| RhClosed
| RhPending of bytes

(** val read_header : bytes -> bytes list -> bool -> hrh **)

let rec read_header buf chunks eof =
  match chunks with
  | [] -> if eof then RhClosed else RhPending buf
  | c :: cs ->
    if h_nil c
    then RhClosed
    else let buf' = app buf c in
         (match find_header_end buf' with
          | Some e ->
            if N.leb e http_max_header
            then RhOk ((takeN e buf'), (dropN e buf'), cs)
            else RhTooLarge
          | None ->
            if N.ltb http_max_header (lenN buf')
            then RhTooLarge
            else read_header buf' cs eof)

(** val rechunk_fuel : nat -> n -> bytes -> bytes list **)

let rec rechunk_fuel fuel n0 s =
  match fuel with
  | O -> s :: []
  | S k ->
    if N.leb (lenN s) n0
    then s :: []
    else (takeN n0 s) :: (rechunk_fuel k n0 (dropN n0 s))

(** val rechunk : n -> bytes -> bytes list **)

let rechunk n0 s =
  if h_nil s
  then []
  else if N.eqb n0 N0 then s :: [] else rechunk_fuel (length s) n0 s

(** val tcp_reads : bytes list -> bytes list **)

let tcp_reads segments =
  flat_map (rechunk http_read_chunk) segments

(** val clean_host : bytes -> bytes **)

let clean_host s =
  h_trim_matches c_rbr (h_trim_matches c_lbr (h_trim s))

(** val split_host_port : bytes -> n -> bytes * n **)

let split_host_port value default =
  match h_rfind_byte c_colon value with
  | Some idx ->
    if (&&) (h_contains_byte c_colon (takeN idx value))
         (negb (h_contains_byte c_rbr value))
    then (value, default)
    else let host_part = takeN idx value in
         let port_part = dropN (N.add idx (Npos XH)) value in
         if h_nil port_part
         then ((clean_host host_part), default)
         else (match h_parse_u16 port_part with
               | Some p -> ((clean_host host_part), p)
               | None -> ((clean_host value), default))
  | None -> ((clean_host value), default)

(** val is_host_line : bytes -> bool **)

let is_host_line l =
  h_starts_with k_host_colon (h_to_lower l)

(** val find_host_header : bytes list -> bytes option **)

let rec find_host_header = function
| [] -> None
| l :: r ->
  if is_host_line l
  then Some (h_trim (dropN (Npos (XI (XO XH))) l))
  else find_host_header r

(** val is_authority_end : n -> bool **)

let is_authority_end c =
  (||) (N.eqb c c_slash) (N.eqb c c_qmark)

(** val determine_target :
    bytes -> bytes -> bytes list -> (((bytes * n) * bytes) * bool) hres **)

let determine_target method0 target headers =
  if h_eq_ignore_case method0 k_connect
  then HOk
         (((split_host_port target (Npos (XI (XI (XO (XI (XI (XI (XO (XI
             XH)))))))))), []), true)
  else let host_header = find_host_header headers in
       let lower = h_to_lower target in
       let is_http = h_starts_with k_http lower in
       let is_https = h_starts_with k_https lower in
       let (p, path) =
         if (||) is_http is_https
         then let without_scheme =
                match h_find k_scheme_sep target with
                | Some pos -> dropN (N.add pos (Npos (XI XH))) target
                | None -> target
              in
              (match h_find_if is_authority_end without_scheme with
               | Some pos ->
                 let host = takeN pos without_scheme in
                 let path = dropN pos without_scheme in
                 ((host,
                 (if is_https
                  then Npos (XI (XI (XO (XI (XI (XI (XO (XI XH))))))))
                  else Npos (XO (XO (XO (XO (XI (XO XH)))))))), path)
               | None ->
                 let path = c_slash :: [] in
                 ((without_scheme,
                 (if is_https
                  then Npos (XI (XI (XO (XI (XI (XI (XO (XI XH))))))))
                  else Npos (XO (XO (XO (XO (XI (XO XH)))))))), path))
         else (match host_header with
               | Some h ->
                 ((h, (Npos (XO (XO (XO (XO (XI (XO XH)))))))), target)
               | None ->
                 (([], (Npos (XO (XO (XO (XO (XI (XO XH)))))))), target))
       in
       let (host, port) = p in
       if h_nil host
       then HErr
       else let path' =
              if (||) (h_starts_with (c_slash :: []) path)
                   (h_starts_with (c_star :: []) path)
              then path
              else c_slash :: path
            in
            HOk (((split_host_port host port), path'), false)

type hparsed = { hp_method : bytes; hp_version : bytes; hp_host : bytes;
                 hp_port : n; hp_path : bytes; hp_connect : bool;
                 hp_headers : bytes list; hp_body : bytes }

(** val parse_http_request : bytes -> bytes -> hparsed hres **)

let parse_http_request header body =
  match h_split_crlf header with
  | [] -> HErr
  | request_line :: lines0 ->
    (match h_split_whitespace request_line with
     | [] -> HErr
     | method0 :: l ->
       (match l with
        | [] -> HErr
        | target :: rest ->
          let version = match rest with
                        | [] -> k_http11
                        | v :: _ -> v in
          let header_lines0 = filter (fun l0 -> negb (h_nil l0)) lines0 in
          (match determine_target method0 target header_lines0 with
           | HOk a ->
             let (p, is_connect) = a in
             let (p0, path) = p in
             let (host, port) = p0 in
             HOk { hp_method = method0; hp_version = version; hp_host = host;
             hp_port = port; hp_path = path; hp_connect = is_connect;
             hp_headers = header_lines0; hp_body = body }
           | HErr -> HErr)))

(** val host_header_value : bytes -> n -> bytes **)

let host_header_value host port =
  let h =
    if h_contains_byte c_colon host
    then c_lbr :: (app host (c_rbr :: []))
    else host
  in
  if (||) (N.eqb port (Npos (XO (XO (XO (XO (XI (XO XH))))))))
       (N.eqb port (Npos (XI (XI (XO (XI (XI (XI (XO (XI XH))))))))))
  then h
  else app h (c_colon :: (h_dec port))

(** val host_line_out : bytes -> n -> bytes **)

let host_line_out host port =
  app k_host_sp (app (host_header_value host port) k_crlf)

(** val rewrite_line : bytes -> bytes -> bytes **)

let rewrite_line hv l =
  if h_nil l then [] else if is_host_line l then hv else app l k_crlf

(** val build_forward_request : hparsed -> bytes **)

let build_forward_request r =
  let hv = host_line_out r.hp_host r.hp_port in
  app
    (app r.hp_method
      (c_sp :: (app (if h_nil r.hp_path then c_slash :: [] else r.hp_path)
                 (c_sp :: (app r.hp_version k_crlf)))))
    (app (concat (map (rewrite_line hv) r.hp_headers))
      (app (if existsb is_host_line r.hp_headers then [] else hv) k_crlf))

type hev =
| EvOpen of bytes * n
| EvReply of n
| EvSend of bytes

(** val fwd_loop : bytes list -> hev list **)

let rec fwd_loop = function
| [] -> []
| c :: cs -> if h_nil c then [] else (EvSend c) :: (fwd_loop cs)

(** val opt_send : bytes -> hev list **)

let opt_send b =
  if h_nil b then [] else (EvSend b) :: []

(** val handle : bytes list -> bool -> bool -> hev list **)

let handle chunks eof open_ok =
  match read_header [] chunks eof with
  | RhOk (h, rest, remaining) ->
    (match parse_http_request h rest with
     | HOk r ->
       (EvOpen (r.hp_host,
         r.hp_port)) :: (if open_ok
                         then app
                                (if r.hp_connect
                                 then (EvReply (Npos (XO (XO (XO (XI (XO (XO
                                        (XI XH))))))))) :: []
                                 else (EvSend (build_forward_request r)) :: [])
                                (app (opt_send r.hp_body)
                                  (fwd_loop remaining))
                         else (EvReply (Npos (XO (XI (XI (XO (XI (XI (XI (XI
                                XH)))))))))) :: [])
     | HErr -> [])
  | _ -> []

(** val sent_bytes : hev list -> bytes **)

let rec sent_bytes = function
| [] -> []
| h :: t' ->
  (match h with
   | EvSend b -> app b (sent_bytes t')
   | _ -> sent_bytes t')

type hostname =
| HName of bytes
| HV6 of bytes

type authority = { au_host : hostname; au_port : n list option }

type rtarget =
| TAuthority of authority
| TAbsolute of bool * bytes * authority * bytes
| TOrigin of bytes

type host_hdr = { hh_name : bytes; hh_pre : bytes; hh_auth : authority;
                  hh_post : bytes }

type hreq = { r_method : bytes; r_target : rtarget; r_version : bytes;
              r_before : bytes list; r_host : host_hdr option;
              r_after : bytes list; r_body : bytes }

(** val digits_text : n list -> bytes **)

let digits_text ds =
  map (fun d -> N.add (Npos (XO (XO (XO (XO (XI XH)))))) d) ds

(** val digits_value : n list -> n **)

let digits_value ds =
  fold_left (fun acc d -> N.add (N.mul acc (Npos (XO (XI (XO XH))))) d) ds N0

(** val render_host : hostname -> bytes **)

let render_host = function
| HName s -> s
| HV6 s -> c_lbr :: (app s (c_rbr :: []))

(** val render_auth : authority -> bytes **)

let render_auth a =
  app (render_host a.au_host)
    (match a.au_port with
     | Some ds -> c_colon :: (digits_text ds)
     | None -> [])

(** val render_target : rtarget -> bytes **)

let render_target = function
| TAuthority a -> render_auth a
| TAbsolute (_, sch, a, pq) ->
  app sch (app k_scheme_sep (app (render_auth a) pq))
| TOrigin p -> p

(** val render_host_line : host_hdr -> bytes **)

let render_host_line hh =
  app hh.hh_name
    (c_colon :: (app hh.hh_pre (app (render_auth hh.hh_auth) hh.hh_post)))

(** val header_lines : hreq -> bytes list **)

let header_lines r =
  app r.r_before
    (match r.r_host with
     | Some hh -> (render_host_line hh) :: r.r_after
     | None -> r.r_after)

(** val render_lines : bytes list -> bytes **)

let render_lines ls =
  concat (map (fun l -> app l k_crlf) ls)

(** val render_head : hreq -> bytes **)

let render_head r =
  app
    (app r.r_method
      (c_sp :: (app (render_target r.r_target)
                 (c_sp :: (app r.r_version k_crlf)))))
    (app (render_lines (header_lines r)) k_crlf)

(** val render : hreq -> bytes **)

let render r =
  app (render_head r) r.r_body

(** val host_text : hostname -> bytes **)

let host_text = function
| HName s -> s
| HV6 s -> s

(** val auth_port : authority -> n -> n **)

let auth_port a default =
  match a.au_port with
  | Some l -> (match l with
               | [] -> default
               | d :: ds -> digits_value (d :: ds))
  | None -> default

(** val auth_target : authority -> n -> bytes * n **)

let auth_target a default =
  ((host_text a.au_host), (auth_port a default))

(** val is_connect_req : hreq -> bool **)

let is_connect_req r =
  match r.r_target with
  | TAuthority _ -> true
  | _ -> false

(** val spec_target : hreq -> (bytes * n) option **)

let spec_target r =
  match r.r_target with
  | TAuthority a ->
    Some (auth_target a (Npos (XI (XI (XO (XI (XI (XI (XO (XI XH))))))))))
  | TAbsolute (https, _, a, _) ->
    Some
      (auth_target a
        (if https
         then Npos (XI (XI (XO (XI (XI (XI (XO (XI XH))))))))
         else Npos (XO (XO (XO (XO (XI (XO XH))))))))
  | TOrigin _ ->
    (match r.r_host with
     | Some hh ->
       Some (auth_target hh.hh_auth (Npos (XO (XO (XO (XO (XI (XO XH))))))))
     | None -> None)

(** val spec_path : hreq -> bytes **)

let spec_path r =
  match r.r_target with
  | TAuthority _ -> []
  | TAbsolute (_, _, _, pq) ->
    (match pq with
     | [] -> c_slash :: []
     | c :: _ -> if N.eqb c c_slash then pq else c_slash :: pq)
  | TOrigin p -> p

(** val norm_host_hdr : hostname -> n -> host_hdr **)

let norm_host_hdr host port =
  { hh_name = ((Npos (XO (XO (XO (XI (XO (XO XH))))))) :: ((Npos (XI (XI (XI
    (XI (XO (XI XH))))))) :: ((Npos (XI (XI (XO (XO (XI (XI
    XH))))))) :: ((Npos (XO (XO (XI (XO (XI (XI XH))))))) :: [])))); hh_pre =
    (c_sp :: []); hh_auth = { au_host = host; au_port =
    (if (||) (N.eqb port (Npos (XO (XO (XO (XO (XI (XO XH))))))))
          (N.eqb port (Npos (XI (XI (XO (XI (XI (XI (XO (XI XH))))))))))
     then None
     else Some
            (map (fun c -> N.sub c (Npos (XO (XO (XO (XO (XI XH)))))))
              (h_dec port))) }; hh_post = [] }

(** val target_authority : hreq -> (authority * n) option **)

let target_authority r =
  match r.r_target with
  | TAuthority a ->
    Some (a, (Npos (XI (XI (XO (XI (XI (XI (XO (XI XH))))))))))
  | TAbsolute (https, _, a, _) ->
    Some (a,
      (if https
       then Npos (XI (XI (XO (XI (XI (XI (XO (XI XH))))))))
       else Npos (XO (XO (XO (XO (XI (XO XH))))))))
  | TOrigin _ ->
    (match r.r_host with
     | Some hh -> Some (hh.hh_auth, (Npos (XO (XO (XO (XO (XI (XO XH))))))))
     | None -> None)

(** val origin_form : hreq -> hreq **)

let origin_form r =
  match target_authority r with
  | Some p ->
    let (a, default) = p in
    let hh = norm_host_hdr a.au_host (auth_port a default) in
    (match r.r_host with
     | Some _ ->
       { r_method = r.r_method; r_target = (TOrigin (spec_path r));
         r_version = r.r_version; r_before = r.r_before; r_host = (Some hh);
         r_after = r.r_after; r_body = r.r_body }
     | None ->
       { r_method = r.r_method; r_target = (TOrigin (spec_path r));
         r_version = r.r_version; r_before = (app r.r_before r.r_after);
         r_host = (Some hh); r_after = []; r_body = r.r_body })
  | None -> r

(** val tokenb : bytes -> bool **)

let tokenb s =
  (&&) (negb (h_nil s))
    (forallb (fun c ->
      (&&) (negb (h_is_ws c))
        (N.ltb c (Npos (XO (XO (XO (XO (XO (XO (XO XH)))))))))) s)

(** val host_charb : n -> bool **)

let host_charb c =
  (&&)
    ((&&)
      ((&&)
        ((&&)
          ((&&)
            ((&&) (negb (h_is_ws c))
              (N.ltb c (Npos (XO (XO (XO (XO (XO (XO (XO XH))))))))))
            (negb (N.eqb c c_colon))) (negb (N.eqb c c_slash)))
        (negb (N.eqb c c_qmark))) (negb (N.eqb c c_lbr)))
    (negb (N.eqb c c_rbr))

(** val v6_charb : n -> bool **)

let v6_charb c =
  (&&)
    ((&&)
      ((&&)
        ((&&)
          ((&&) (negb (h_is_ws c))
            (N.ltb c (Npos (XO (XO (XO (XO (XO (XO (XO XH))))))))))
          (negb (N.eqb c c_slash))) (negb (N.eqb c c_qmark)))
      (negb (N.eqb c c_lbr))) (negb (N.eqb c c_rbr))

(** val wf_hostb : hostname -> bool **)

let wf_hostb = function
| HName s -> (&&) (negb (h_nil s)) (forallb host_charb s)
| HV6 s -> (&&) (h_contains_byte c_colon s) (forallb v6_charb s)

(** val wf_digitsb : n list -> bool **)

let wf_digitsb ds =
  (&&) (forallb (fun d -> N.ltb d (Npos (XO (XI (XO XH))))) ds)
    (N.leb (digits_value ds) (Npos (XI (XI (XI (XI (XI (XI (XI (XI (XI (XI
      (XI (XI (XI (XI (XI XH)))))))))))))))))

(** val wf_authb : authority -> bool **)

let wf_authb a =
  (&&) (wf_hostb a.au_host)
    (match a.au_port with
     | Some ds -> wf_digitsb ds
     | None -> true)

(** val owsb : bytes -> bool **)

let owsb s =
  forallb (fun c ->
    (||) (N.eqb c (Npos (XO (XO (XO (XO (XO XH)))))))
      (N.eqb c (Npos (XI (XO (XO XH)))))) s

(** val wf_host_hdrb : host_hdr -> bool **)

let wf_host_hdrb hh =
  (&&)
    ((&&)
      ((&&)
        (bytes_eqb (h_to_lower hh.hh_name) ((Npos (XO (XO (XO (XI (XO (XI
          XH))))))) :: ((Npos (XI (XI (XI (XI (XO (XI XH))))))) :: ((Npos (XI
          (XI (XO (XO (XI (XI XH))))))) :: ((Npos (XO (XO (XI (XO (XI (XI
          XH))))))) :: []))))) (owsb hh.hh_pre)) (owsb hh.hh_post))
    (wf_authb hh.hh_auth)

(** val plain_lineb : bytes -> bool **)

let plain_lineb l =
  (&&)
    ((&&) (negb (h_nil l))
      (forallb (fun c ->
        (&&)
          ((&&) (negb (N.eqb c (Npos (XI (XO (XI XH))))))
            (negb (N.eqb c (Npos (XO (XI (XO XH)))))))
          (N.ltb c (Npos (XO (XO (XO (XO (XO (XO (XO XH)))))))))) l))
    (negb (is_host_line l))

(** val wf_pqb : bytes -> bool **)

let wf_pqb pq =
  (&&)
    (forallb (fun c ->
      (&&) (negb (h_is_ws c))
        (N.ltb c (Npos (XO (XO (XO (XO (XO (XO (XO XH)))))))))) pq)
    (match pq with
     | [] -> true
     | c :: _ -> is_authority_end c)

(** val wf_schemeb : bool -> bytes -> bool **)

let wf_schemeb https sch =
  bytes_eqb (h_to_lower sch)
    (if https
     then (Npos (XO (XO (XO (XI (XO (XI XH))))))) :: ((Npos (XO (XO (XI (XO
            (XI (XI XH))))))) :: ((Npos (XO (XO (XI (XO (XI (XI
            XH))))))) :: ((Npos (XO (XO (XO (XO (XI (XI XH))))))) :: ((Npos
            (XI (XI (XO (XO (XI (XI XH))))))) :: []))))
     else (Npos (XO (XO (XO (XI (XO (XI XH))))))) :: ((Npos (XO (XO (XI (XO
            (XI (XI XH))))))) :: ((Npos (XO (XO (XI (XO (XI (XI
            XH))))))) :: ((Npos (XO (XO (XO (XO (XI (XI XH))))))) :: []))))

(** val wf_targetb : hreq -> bool **)

let wf_targetb r =
  match r.r_target with
  | TAuthority a -> (&&) (h_eq_ignore_case r.r_method k_connect) (wf_authb a)
  | TAbsolute (https, sch, a, pq) ->
    (&&)
      ((&&)
        ((&&) (negb (h_eq_ignore_case r.r_method k_connect))
          (wf_schemeb https sch)) (wf_authb a)) (wf_pqb pq)
  | TOrigin p ->
    (&&)
      ((&&) ((&&) (negb (h_eq_ignore_case r.r_method k_connect)) (tokenb p))
        ((||) (h_starts_with (c_slash :: []) p)
          (h_starts_with (c_star :: []) p)))
      (match r.r_host with
       | Some _ -> true
       | None -> false)

(** val wf_req : hreq -> bool **)

let wf_req r =
  (&&)
    ((&&)
      ((&&)
        ((&&) ((&&) (tokenb r.r_method) (tokenb r.r_version)) (wf_targetb r))
        (forallb plain_lineb r.r_before)) (forallb plain_lineb r.r_after))
    (match r.r_host with
     | Some hh -> wf_host_hdrb hh
     | None -> true)

(** val forward_of : hreq -> (((bytes * n) * bool) * bytes) hres **)

let forward_of r =
  match parse_http_request (render_head r) r.r_body with
  | HOk p ->
    HOk (((p.hp_host, p.hp_port), p.hp_connect),
      (if p.hp_connect then [] else build_forward_request p))
  | HErr -> HErr

(** val split_host_port_cur : bytes -> n -> bytes * n **)

let split_host_port_cur value default =
  match h_rfind_byte c_colon value with
  | Some idx ->
    if (&&) (h_contains_byte c_colon (takeN idx value))
         (negb (h_contains_byte c_rbr value))
    then (value, default)
    else (match h_parse_u16 (dropN (N.add idx (Npos XH)) value) with
          | Some p -> ((clean_host (takeN idx value)), p)
          | None -> ((clean_host value), default))
  | None -> ((clean_host value), default)

(** val find_host_header_cur : bytes list -> bytes option **)

let rec find_host_header_cur = function
| [] -> None
| l :: r ->
  (match h_strip_prefix ((Npos (XO (XO (XO (XI (XO (XO XH))))))) :: ((Npos
           (XI (XI (XI (XI (XO (XI XH))))))) :: ((Npos (XI (XI (XO (XO (XI
           (XI XH))))))) :: ((Npos (XO (XO (XI (XO (XI (XI
           XH))))))) :: ((Npos (XO (XI (XO (XI (XI XH)))))) :: []))))) l with
   | Some rest -> Some (h_trim rest)
   | None ->
     (match h_strip_prefix ((Npos (XO (XO (XO (XI (XO (XI XH))))))) :: ((Npos
              (XI (XI (XI (XI (XO (XI XH))))))) :: ((Npos (XI (XI (XO (XO (XI
              (XI XH))))))) :: ((Npos (XO (XO (XI (XO (XI (XI
              XH))))))) :: ((Npos (XO (XI (XO (XI (XI XH)))))) :: []))))) l with
      | Some rest -> Some (h_trim rest)
      | None -> find_host_header_cur r))

(** val determine_target_cur :
    bytes -> bytes -> bytes list -> (((bytes * n) * bytes) * bool) hres **)

let determine_target_cur method0 target headers =
  if h_eq_ignore_case method0 k_connect
  then HOk
         (((split_host_port_cur target (Npos (XI (XI (XO (XI (XI (XI (XO (XI
             XH)))))))))), []), true)
  else let host_header = find_host_header_cur headers in
       let is_http = h_starts_with k_http target in
       let is_https = h_starts_with k_https target in
       let (p, path) =
         if (||) is_http is_https
         then let without_scheme =
                match h_find k_scheme_sep target with
                | Some pos -> dropN (N.add pos (Npos (XI XH))) target
                | None -> target
              in
              (match h_find_if (fun c -> N.eqb c c_slash) without_scheme with
               | Some pos ->
                 let host = takeN pos without_scheme in
                 let path = dropN pos without_scheme in
                 ((host,
                 (if is_https
                  then Npos (XI (XI (XO (XI (XI (XI (XO (XI XH))))))))
                  else Npos (XO (XO (XO (XO (XI (XO XH)))))))), path)
               | None ->
                 let path = c_slash :: [] in
                 ((without_scheme,
                 (if is_https
                  then Npos (XI (XI (XO (XI (XI (XI (XO (XI XH))))))))
                  else Npos (XO (XO (XO (XO (XI (XO XH)))))))), path))
         else (match host_header with
               | Some h ->
                 ((h, (Npos (XO (XO (XO (XO (XI (XO XH)))))))), target)
               | None ->
                 (([], (Npos (XO (XO (XO (XO (XI (XO XH)))))))), target))
       in
       let (host, port) = p in
       if h_nil host
       then HErr
       else let path' =
              if (||) (h_starts_with (c_slash :: []) path)
                   (h_starts_with (c_star :: []) path)
              then path
              else c_slash :: path
            in
            HOk (((split_host_port_cur host port), path'), false)

(** val parse_http_request_cur : bytes -> bytes -> hparsed hres **)

let parse_http_request_cur header body =
  match h_split_crlf header with
  | [] -> HErr
  | request_line :: lines0 ->
    (match h_split_whitespace request_line with
     | [] -> HErr
     | method0 :: l ->
       (match l with
        | [] -> HErr
        | target :: rest ->
          let version = match rest with
                        | [] -> k_http11
                        | v :: _ -> v in
          let header_lines0 = filter (fun l0 -> negb (h_nil l0)) lines0 in
          (match determine_target_cur method0 target header_lines0 with
           | HOk a ->
             let (p, is_connect) = a in
             let (p0, path) = p in
             let (host, port) = p0 in
             HOk { hp_method = method0; hp_version = version; hp_host = host;
             hp_port = port; hp_path = path; hp_connect = is_connect;
             hp_headers = header_lines0; hp_body = body }
           | HErr -> HErr)))

(** val host_line_out_cur : bytes -> n -> bytes **)

let host_line_out_cur host port =
  app k_host_sp
    (app
      (if (||) (N.eqb port (Npos (XO (XO (XO (XO (XI (XO XH))))))))
            (N.eqb port (Npos (XI (XI (XO (XI (XI (XI (XO (XI XH))))))))))
       then host
       else app host (c_colon :: (h_dec port))) k_crlf)

(** val build_forward_request_cur : hparsed -> bytes **)

let build_forward_request_cur r =
  let hv = host_line_out_cur r.hp_host r.hp_port in
  app
    (app r.hp_method
      (c_sp :: (app (if h_nil r.hp_path then c_slash :: [] else r.hp_path)
                 (c_sp :: (app r.hp_version k_crlf)))))
    (app (concat (map (rewrite_line hv) r.hp_headers))
      (app (if existsb is_host_line r.hp_headers then [] else hv) k_crlf))

(** val read_header_cur : bytes -> bytes list -> bool -> hrh **)

let rec read_header_cur buf chunks eof =
  match chunks with
  | [] -> if eof then RhClosed else RhPending buf
  | c :: cs ->
    if h_nil c
    then RhClosed
    else let buf' = app buf c in
         if N.ltb http_max_header (lenN buf')
         then RhTooLarge
         else (match find_header_end buf' with
               | Some e -> RhOk ((takeN e buf'), (dropN e buf'), cs)
               | None -> read_header_cur buf' cs eof)

(** val handle_cur : bytes list -> bool -> bool -> hev list **)

let handle_cur chunks eof open_ok =
  match read_header_cur [] chunks eof with
  | RhOk (h, rest, remaining) ->
    (match parse_http_request_cur h rest with
     | HOk r ->
       (EvOpen (r.hp_host,
         r.hp_port)) :: (if open_ok
                         then app
                                (if r.hp_connect
                                 then (EvReply (Npos (XO (XO (XO (XI (XO (XO
                                        (XI XH))))))))) :: []
                                 else app ((EvSend
                                        (build_forward_request_cur r)) :: [])
                                        (opt_send r.hp_body))
                                (fwd_loop remaining)
                         else (EvReply (Npos (XO (XI (XI (XO (XI (XI (XI (XI
                                XH)))))))))) :: [])
     | HErr -> [])
  | _ -> []

type tid = nat

type witem = tid * frame

type res =
| ResOk
| ResClosed
| ResIo
| ResErrOpen
| ResTimeout
| ResData
| ResEof
| ResNoStream

type inev =
| InSynAck of tid * bool
| InPush of tid
| InFin of tid
| InAlert
| InEof
| InErr

type call =
| CWrite of frame
| CData of bytes
| COpen
| CAwait
| CTimeout
| CRead
| CClose
| CDisableBuf
| CEnableBuf
| CFail
| CFeed of inev

type after =
| AfterClose
| AfterIoErr
| AfterRecv

type wk =
| WkPlain
| WkOpen

type pc =
| PIdle
| PW0 of wk * frame
| PW1 of wk * frame
| PW2 of wk * frame
| PW2wait of wk * frame
| PW3 of wk * frame
| PW4 of wk * witem list
| PE0 of after * wk
| PC1 of after * wk
| PC2 of after * wk
| PC2wait of after * wk
| PO1 of n

type task = { t_prog : call list; t_pc : pc; t_res : res list;
              t_sid : n option; t_verdict : res option; t_rq : nat;
              t_rclosed : bool }

type state = { buffering : bool; pending : witem list; wr0 : tid option;
               waiters : tid list; pkt : n; wire : (n * witem list) list;
               closed : bool; shut : bool; failing : bool; next_sid : 
               n; table : (n * tid) list; ralive : bool;
               tasks : (tid -> task); lin : witem list }

(** val rtid : tid **)

let rtid =
  O

(** val idle_task : call list -> task **)

let idle_task prog =
  { t_prog = prog; t_pc = PIdle; t_res = []; t_sid = None; t_verdict = None;
    t_rq = O; t_rclosed = false }

(** val upd : (tid -> task) -> tid -> task -> tid -> task **)

let upd f t v t' =
  if Nat.eqb t' t then v else f t'

(** val set_tasks : state -> (tid -> task) -> state **)

let set_tasks s ts =
  { buffering = s.buffering; pending = s.pending; wr0 = s.wr0; waiters =
    s.waiters; pkt = s.pkt; wire = s.wire; closed = s.closed; shut = s.shut;
    failing = s.failing; next_sid = s.next_sid; table = s.table; ralive =
    s.ralive; tasks = ts; lin = s.lin }

(** val set_task : state -> tid -> task -> state **)

let set_task s t v =
  set_tasks s (upd s.tasks t v)

(** val with_pc : task -> pc -> task **)

let with_pc x p =
  { t_prog = x.t_prog; t_pc = p; t_res = x.t_res; t_sid = x.t_sid;
    t_verdict = x.t_verdict; t_rq = x.t_rq; t_rclosed = x.t_rclosed }

(** val with_res : task -> res -> task **)

let with_res x r =
  { t_prog = x.t_prog; t_pc = PIdle; t_res = (app x.t_res (r :: [])); t_sid =
    x.t_sid; t_verdict = x.t_verdict; t_rq = x.t_rq; t_rclosed = x.t_rclosed }

(** val with_prog : task -> call list -> task **)

let with_prog x p =
  { t_prog = p; t_pc = x.t_pc; t_res = x.t_res; t_sid = x.t_sid; t_verdict =
    x.t_verdict; t_rq = x.t_rq; t_rclosed = x.t_rclosed }

(** val with_sid : task -> n -> task **)

let with_sid x sid =
  { t_prog = x.t_prog; t_pc = x.t_pc; t_res = x.t_res; t_sid = (Some sid);
    t_verdict = None; t_rq = O; t_rclosed = false }

(** val with_verdict : task -> res option -> task **)

let with_verdict x v =
  { t_prog = x.t_prog; t_pc = x.t_pc; t_res = x.t_res; t_sid = x.t_sid;
    t_verdict = v; t_rq = x.t_rq; t_rclosed = x.t_rclosed }

(** val with_rq : task -> nat -> bool -> task **)

let with_rq x q c =
  { t_prog = x.t_prog; t_pc = x.t_pc; t_res = x.t_res; t_sid = x.t_sid;
    t_verdict = x.t_verdict; t_rq = q; t_rclosed = c }

(** val set_pc : state -> tid -> pc -> state **)

let set_pc s t p =
  set_task s t (with_pc (s.tasks t) p)

(** val finish : state -> tid -> res -> state **)

let finish s t r =
  set_task s t (with_res (s.tasks t) r)

(** val set_flags : state -> bool -> bool -> bool -> bool -> bool -> state **)

let set_flags s b c sh fl ra =
  { buffering = b; pending = s.pending; wr0 = s.wr0; waiters = s.waiters;
    pkt = s.pkt; wire = s.wire; closed = c; shut = sh; failing = fl;
    next_sid = s.next_sid; table = s.table; ralive = ra; tasks = s.tasks;
    lin = s.lin }

(** val set_buffering : state -> bool -> state **)

let set_buffering s b =
  set_flags s b s.closed s.shut s.failing s.ralive

(** val set_closed : state -> state **)

let set_closed s =
  set_flags s s.buffering true s.shut s.failing s.ralive

(** val set_shut : state -> state **)

let set_shut s =
  set_flags s s.buffering s.closed true s.failing s.ralive

(** val set_failing : state -> state **)

let set_failing s =
  set_flags s s.buffering s.closed s.shut true s.ralive

(** val set_rdead : state -> state **)

let set_rdead s =
  set_flags s s.buffering s.closed s.shut s.failing false

(** val set_queue : state -> witem list -> witem list -> state **)

let set_queue s p l =
  { buffering = s.buffering; pending = p; wr0 = s.wr0; waiters = s.waiters;
    pkt = s.pkt; wire = s.wire; closed = s.closed; shut = s.shut; failing =
    s.failing; next_sid = s.next_sid; table = s.table; ralive = s.ralive;
    tasks = s.tasks; lin = l }

(** val set_lock : state -> tid option -> tid list -> state **)

let set_lock s w ws =
  { buffering = s.buffering; pending = s.pending; wr0 = w; waiters = ws;
    pkt = s.pkt; wire = s.wire; closed = s.closed; shut = s.shut; failing =
    s.failing; next_sid = s.next_sid; table = s.table; ralive = s.ralive;
    tasks = s.tasks; lin = s.lin }

(** val set_wire : state -> n -> (n * witem list) list -> state **)

let set_wire s k w =
  { buffering = s.buffering; pending = s.pending; wr0 = s.wr0; waiters =
    s.waiters; pkt = k; wire = w; closed = s.closed; shut = s.shut; failing =
    s.failing; next_sid = s.next_sid; table = s.table; ralive = s.ralive;
    tasks = s.tasks; lin = s.lin }

(** val set_table : state -> n -> (n * tid) list -> state **)

let set_table s n0 tb =
  { buffering = s.buffering; pending = s.pending; wr0 = s.wr0; waiters =
    s.waiters; pkt = s.pkt; wire = s.wire; closed = s.closed; shut = s.shut;
    failing = s.failing; next_sid = n0; table = tb; ralive = s.ralive;
    tasks = s.tasks; lin = s.lin }

(** val finish_close : state -> tid -> after -> state **)

let finish_close s t = function
| AfterClose -> finish s t ResOk
| AfterIoErr -> finish s t ResIo
| AfterRecv -> set_rdead (set_pc s t PIdle)

(** val release_ws : tid list -> state -> state **)

let rec release_ws ws s =
  match ws with
  | [] -> set_lock s None []
  | w :: ws' ->
    (match (s.tasks w).t_pc with
     | PW2wait (k, f) -> set_pc (set_lock s (Some w) ws') w (PW3 (k, f))
     | PC2wait (a, _) -> release_ws ws' (finish_close (set_shut s) w a)
     | _ -> set_lock s None [])

(** val release : state -> state **)

let release s =
  release_ws s.waiters s

(** val enter_close : state -> tid -> after -> wk -> state **)

let enter_close s t a k =
  if s.closed
  then finish_close s t a
  else set_pc (set_closed s) t (PC1 (a, k))

(** val drain : (n * tid) list -> (tid -> task) -> tid -> task **)

let rec drain tb ts =
  match tb with
  | [] -> ts
  | p :: tb' ->
    let (_, o) = p in
    let x = ts o in
    let v = match x.t_verdict with
            | Some r -> Some r
            | None -> Some ResClosed
    in
    drain tb' (upd ts o (with_rq (with_verdict x v) x.t_rq true))

(** val lookup_owner : (n * tid) list -> tid -> n option **)

let rec lookup_owner tb o =
  match tb with
  | [] -> None
  | p :: tb' ->
    let (sid, o') = p in if Nat.eqb o' o then Some sid else lookup_owner tb' o

(** val remove_owner : (n * tid) list -> tid -> (n * tid) list **)

let remove_owner tb o =
  filter (fun p -> negb (Nat.eqb (snd p) o)) tb

(** val pc_is_idle : pc -> bool **)

let pc_is_idle = function
| PIdle -> true
| _ -> false

(** val feed_ev : state -> inev -> state **)

let feed_ev s ev =
  if negb s.ralive
  then s
  else (match ev with
        | InSynAck (o, ok) ->
          (match lookup_owner s.table o with
           | Some _ ->
             let x = s.tasks o in
             (match x.t_verdict with
              | Some _ -> s
              | None ->
                set_task s o
                  (with_verdict x (Some (if ok then ResOk else ResErrOpen))))
           | None -> s)
        | InPush o ->
          (match lookup_owner s.table o with
           | Some _ ->
             let x = s.tasks o in
             set_task s o (with_rq x (S x.t_rq) x.t_rclosed)
           | None -> s)
        | InFin o ->
          (match lookup_owner s.table o with
           | Some _ ->
             let x = s.tasks o in
             set_table (set_task s o (with_rq x x.t_rq true)) s.next_sid
               (remove_owner s.table o)
           | None -> s)
        | InErr ->
          if pc_is_idle (s.tasks rtid).t_pc
          then set_pc s rtid (PE0 (AfterRecv, WkPlain))
          else s
        | _ ->
          if pc_is_idle (s.tasks rtid).t_pc
          then enter_close s rtid AfterRecv WkPlain
          else s)

(** val syn_frame : n -> frame **)

let syn_frame sid =
  { fcmd = Syn; fsid = sid; fdata = [] }

(** val psh_frame : n -> bytes -> frame **)

let psh_frame sid d =
  { fcmd = Push; fsid = sid; fdata = d }

(** val start_call : state -> tid -> call -> call list -> state option **)

let start_call s t c rest =
  let x = with_prog (s.tasks t) rest in
  let s0 = set_task s t x in
  (match c with
   | CWrite f -> Some (set_pc s0 t (PW0 (WkPlain, f)))
   | CData d ->
     (match x.t_sid with
      | Some sid -> Some (set_pc s0 t (PW0 (WkPlain, (psh_frame sid d))))
      | None -> Some (finish s0 t ResNoStream))
   | COpen ->
     if s.closed
     then Some (finish s0 t ResClosed)
     else let sid = s.next_sid in
          let s1 =
            set_table s0 (N.add sid (Npos XH)) (app s.table ((sid, t) :: []))
          in
          Some (set_task s1 t (with_pc (with_sid x sid) (PO1 sid)))
   | CAwait ->
     (match x.t_verdict with
      | Some r -> Some (finish s0 t r)
      | None -> None)
   | CTimeout ->
     (match x.t_verdict with
      | Some r -> Some (finish s0 t r)
      | None ->
        Some
          (finish (set_task s0 t (with_verdict x (Some ResTimeout))) t
            ResTimeout))
   | CRead ->
     (match x.t_rq with
      | O -> if x.t_rclosed then Some (finish s0 t ResEof) else None
      | S q ->
        Some (finish (set_task s0 t (with_rq x q x.t_rclosed)) t ResData))
   | CClose -> Some (enter_close s0 t AfterClose WkPlain)
   | CDisableBuf -> Some (finish (set_buffering s0 false) t ResOk)
   | CEnableBuf -> Some (finish (set_buffering s0 true) t ResOk)
   | CFail -> Some (finish (set_failing s0) t ResOk)
   | CFeed ev -> Some (finish (feed_ev s0 ev) t ResOk))

(** val step : state -> tid -> state option **)

let step s t =
  let x = s.tasks t in
  (match x.t_pc with
   | PIdle ->
     (match x.t_prog with
      | [] -> None
      | c :: rest -> start_call s t c rest)
   | PW0 (k, f) ->
     if s.closed
     then Some (finish s t ResClosed)
     else if s.buffering
          then Some (set_pc s t (PW1 (k, f)))
          else Some (set_pc s t (PW2 (k, f)))
   | PW1 (_, f) ->
     Some
       (finish
         (set_queue s (app s.pending ((t, f) :: []))
           (app s.lin ((t, f) :: []))) t ResOk)
   | PW2 (k, f) ->
     (match s.wr0 with
      | Some _ ->
        Some
          (set_pc (set_lock s s.wr0 (app s.waiters (t :: []))) t (PW2wait (k,
            f)))
      | None -> Some (set_pc (set_lock s (Some t) s.waiters) t (PW3 (k, f))))
   | PW3 (k, f) ->
     Some
       (set_pc (set_queue s [] (app s.lin ((t, f) :: []))) t (PW4 (k,
         (app s.pending ((t, f) :: [])))))
   | PW4 (k, held) ->
     let n0 = N.add s.pkt (Npos XH) in
     if (||) s.failing s.shut
     then Some
            (set_pc (release (set_wire s n0 s.wire)) t (PE0 (AfterIoErr, k)))
     else Some
            (finish (release (set_wire s n0 (app s.wire ((n0, held) :: []))))
              t ResOk)
   | PE0 (a, k) -> Some (enter_close s t a k)
   | PC1 (a, k) ->
     Some
       (set_pc
         (set_table (set_tasks s (drain s.table s.tasks)) s.next_sid []) t
         (PC2 (a, k)))
   | PC2 (a, k) ->
     (match s.wr0 with
      | Some _ ->
        Some
          (set_pc (set_lock s s.wr0 (app s.waiters (t :: []))) t (PC2wait (a,
            k)))
      | None -> Some (finish_close (set_shut s) t a))
   | PO1 sid -> Some (set_pc s t (PW0 (WkOpen, (syn_frame sid))))
   | _ -> None)

(** val step_or_skip : state -> tid -> state **)

let step_or_skip s t =
  match step s t with
  | Some s' -> s'
  | None -> s

(** val run : state -> tid list -> state **)

let run s sched =
  fold_left step_or_skip sched s

(** val init : call list list -> bool -> witem list -> state **)

let init progs buf pend =
  { buffering = buf; pending = pend; wr0 = None; waiters = []; pkt =
    client_pkt_start; wire = []; closed = false; shut = false; failing =
    false; next_sid = client_first_stream_id; table = []; ralive = true;
    tasks = (fun t -> idle_task (nth t progs [])); lin = pend }

(** val flat_wire : state -> witem list **)

let flat_wire s =
  concat (map snd s.wire)
