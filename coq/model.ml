
(** val negb : bool -> bool **)

let negb = function
| true -> false
| false -> true

type nat =
| O
| S of nat

(** val fst : ('a1 * 'a2) -> 'a1 **)

let fst = function
| (x, _) -> x

(** val snd : ('a1 * 'a2) -> 'a2 **)

let snd = function
| (_, y) -> y

(** val length : 'a1 list -> nat **)

let rec length = function
| [] -> O
| _ :: l' -> S (length l')

(** val app : 'a1 list -> 'a1 list -> 'a1 list **)

let rec app l m =
  match l with
  | [] -> m
  | a :: l1 -> a :: (app l1 m)

type comparison =
| Eq
| Lt
| Gt

module Coq__1 = struct
 (** val add : nat -> nat -> nat **)
 let rec add n0 m =
   match n0 with
   | O -> m
   | S p -> S (add p m)
end
include Coq__1

(** val concat : 'a1 list list -> 'a1 list **)

let rec concat = function
| [] -> []
| x :: l0 -> app x (concat l0)

(** val map : ('a1 -> 'a2) -> 'a1 list -> 'a2 list **)

let rec map f = function
| [] -> []
| a :: t -> (f a) :: (map f t)

(** val find : ('a1 -> bool) -> 'a1 list -> 'a1 option **)

let rec find f = function
| [] -> None
| x :: tl -> if f x then Some x else find f tl

(** val firstn : nat -> 'a1 list -> 'a1 list **)

let rec firstn n0 l =
  match n0 with
  | O -> []
  | S n1 -> (match l with
             | [] -> []
             | a :: l0 -> a :: (firstn n1 l0))

(** val skipn : nat -> 'a1 list -> 'a1 list **)

let rec skipn n0 l =
  match n0 with
  | O -> l
  | S n1 -> (match l with
             | [] -> []
             | _ :: l0 -> skipn n1 l0)

type positive =
| XI of positive
| XO of positive
| XH

type n =
| N0
| Npos of positive

type z =
| Z0
| Zpos of positive
| Zneg of positive

module Pos =
 struct
  type mask =
  | IsNul
  | IsPos of positive
  | IsNeg
 end

module Coq_Pos =
 struct
  (** val succ : positive -> positive **)

  let rec succ = function
  | XI p -> XO (succ p)
  | XO p -> XI p
  | XH -> XO XH

  (** val add : positive -> positive -> positive **)

  let rec add x y =
    match x with
    | XI p ->
      (match y with
       | XI q -> XO (add_carry p q)
       | XO q -> XI (add p q)
       | XH -> XO (succ p))
    | XO p ->
      (match y with
       | XI q -> XI (add p q)
       | XO q -> XO (add p q)
       | XH -> XI p)
    | XH -> (match y with
             | XI q -> XO (succ q)
             | XO q -> XI q
             | XH -> XO XH)

  (** val add_carry : positive -> positive -> positive **)

  and add_carry x y =
    match x with
    | XI p ->
      (match y with
       | XI q -> XI (add_carry p q)
       | XO q -> XO (add_carry p q)
       | XH -> XI (succ p))
    | XO p ->
      (match y with
       | XI q -> XO (add_carry p q)
       | XO q -> XI (add p q)
       | XH -> XO (succ p))
    | XH ->
      (match y with
       | XI q -> XI (succ q)
       | XO q -> XO (succ q)
       | XH -> XI XH)

  (** val pred_double : positive -> positive **)

  let rec pred_double = function
  | XI p -> XI (XO p)
  | XO p -> XI (pred_double p)
  | XH -> XH

  type mask = Pos.mask =
  | IsNul
  | IsPos of positive
  | IsNeg

  (** val succ_double_mask : mask -> mask **)

  let succ_double_mask = function
  | IsNul -> IsPos XH
  | IsPos p -> IsPos (XI p)
  | IsNeg -> IsNeg

  (** val double_mask : mask -> mask **)

  let double_mask = function
  | IsPos p -> IsPos (XO p)
  | x0 -> x0

  (** val double_pred_mask : positive -> mask **)

  let double_pred_mask = function
  | XI p -> IsPos (XO (XO p))
  | XO p -> IsPos (XO (pred_double p))
  | XH -> IsNul

  (** val sub_mask : positive -> positive -> mask **)

  let rec sub_mask x y =
    match x with
    | XI p ->
      (match y with
       | XI q -> double_mask (sub_mask p q)
       | XO q -> succ_double_mask (sub_mask p q)
       | XH -> IsPos (XO p))
    | XO p ->
      (match y with
       | XI q -> succ_double_mask (sub_mask_carry p q)
       | XO q -> double_mask (sub_mask p q)
       | XH -> IsPos (pred_double p))
    | XH -> (match y with
             | XH -> IsNul
             | _ -> IsNeg)

  (** val sub_mask_carry : positive -> positive -> mask **)

  and sub_mask_carry x y =
    match x with
    | XI p ->
      (match y with
       | XI q -> succ_double_mask (sub_mask_carry p q)
       | XO q -> double_mask (sub_mask p q)
       | XH -> IsPos (pred_double p))
    | XO p ->
      (match y with
       | XI q -> double_mask (sub_mask_carry p q)
       | XO q -> succ_double_mask (sub_mask_carry p q)
       | XH -> double_pred_mask p)
    | XH -> IsNeg

  (** val mul : positive -> positive -> positive **)

  let rec mul x y =
    match x with
    | XI p -> add y (XO (mul p y))
    | XO p -> XO (mul p y)
    | XH -> y

  (** val compare_cont : comparison -> positive -> positive -> comparison **)

  let rec compare_cont r x y =
    match x with
    | XI p ->
      (match y with
       | XI q -> compare_cont r p q
       | XO q -> compare_cont Gt p q
       | XH -> Gt)
    | XO p ->
      (match y with
       | XI q -> compare_cont Lt p q
       | XO q -> compare_cont r p q
       | XH -> Gt)
    | XH -> (match y with
             | XH -> r
             | _ -> Lt)

  (** val compare : positive -> positive -> comparison **)

  let compare =
    compare_cont Eq

  (** val eqb : positive -> positive -> bool **)

  let rec eqb p q =
    match p with
    | XI p0 -> (match q with
                | XI q0 -> eqb p0 q0
                | _ -> false)
    | XO p0 -> (match q with
                | XO q0 -> eqb p0 q0
                | _ -> false)
    | XH -> (match q with
             | XH -> true
             | _ -> false)

  (** val iter_op : ('a1 -> 'a1 -> 'a1) -> positive -> 'a1 -> 'a1 **)

  let rec iter_op op p a =
    match p with
    | XI p0 -> op a (iter_op op p0 (op a a))
    | XO p0 -> iter_op op p0 (op a a)
    | XH -> a

  (** val to_nat : positive -> nat **)

  let to_nat x =
    iter_op Coq__1.add x (S O)

  (** val of_succ_nat : nat -> positive **)

  let rec of_succ_nat = function
  | O -> XH
  | S x -> succ (of_succ_nat x)
 end

module N =
 struct
  (** val succ_double : n -> n **)

  let succ_double = function
  | N0 -> Npos XH
  | Npos p -> Npos (XI p)

  (** val double : n -> n **)

  let double = function
  | N0 -> N0
  | Npos p -> Npos (XO p)

  (** val add : n -> n -> n **)

  let add n0 m =
    match n0 with
    | N0 -> m
    | Npos p -> (match m with
                 | N0 -> n0
                 | Npos q -> Npos (Coq_Pos.add p q))

  (** val sub : n -> n -> n **)

  let sub n0 m =
    match n0 with
    | N0 -> N0
    | Npos n' ->
      (match m with
       | N0 -> n0
       | Npos m' ->
         (match Coq_Pos.sub_mask n' m' with
          | Coq_Pos.IsPos p -> Npos p
          | _ -> N0))

  (** val mul : n -> n -> n **)

  let mul n0 m =
    match n0 with
    | N0 -> N0
    | Npos p -> (match m with
                 | N0 -> N0
                 | Npos q -> Npos (Coq_Pos.mul p q))

  (** val compare : n -> n -> comparison **)

  let compare n0 m =
    match n0 with
    | N0 -> (match m with
             | N0 -> Eq
             | Npos _ -> Lt)
    | Npos n' -> (match m with
                  | N0 -> Gt
                  | Npos m' -> Coq_Pos.compare n' m')

  (** val eqb : n -> n -> bool **)

  let eqb n0 m =
    match n0 with
    | N0 -> (match m with
             | N0 -> true
             | Npos _ -> false)
    | Npos p -> (match m with
                 | N0 -> false
                 | Npos q -> Coq_Pos.eqb p q)

  (** val leb : n -> n -> bool **)

  let leb x y =
    match compare x y with
    | Gt -> false
    | _ -> true

  (** val min : n -> n -> n **)

  let min n0 n' =
    match compare n0 n' with
    | Gt -> n'
    | _ -> n0

  (** val pos_div_eucl : positive -> n -> n * n **)

  let rec pos_div_eucl a b =
    match a with
    | XI a' ->
      let (q, r) = pos_div_eucl a' b in
      let r' = succ_double r in
      if leb b r' then ((succ_double q), (sub r' b)) else ((double q), r')
    | XO a' ->
      let (q, r) = pos_div_eucl a' b in
      let r' = double r in
      if leb b r' then ((succ_double q), (sub r' b)) else ((double q), r')
    | XH ->
      (match b with
       | N0 -> (N0, (Npos XH))
       | Npos p -> (match p with
                    | XH -> ((Npos XH), N0)
                    | _ -> (N0, (Npos XH))))

  (** val div_eucl : n -> n -> n * n **)

  let div_eucl a b =
    match a with
    | N0 -> (N0, N0)
    | Npos na -> (match b with
                  | N0 -> (N0, a)
                  | Npos _ -> pos_div_eucl na b)

  (** val div : n -> n -> n **)

  let div a b =
    fst (div_eucl a b)

  (** val modulo : n -> n -> n **)

  let modulo a b =
    snd (div_eucl a b)

  (** val to_nat : n -> nat **)

  let to_nat = function
  | N0 -> O
  | Npos p -> Coq_Pos.to_nat p

  (** val of_nat : nat -> n **)

  let of_nat = function
  | O -> N0
  | S n' -> Npos (Coq_Pos.of_succ_nat n')
 end

module Z =
 struct
  (** val double : z -> z **)

  let double = function
  | Z0 -> Z0
  | Zpos p -> Zpos (XO p)
  | Zneg p -> Zneg (XO p)

  (** val succ_double : z -> z **)

  let succ_double = function
  | Z0 -> Zpos XH
  | Zpos p -> Zpos (XI p)
  | Zneg p -> Zneg (Coq_Pos.pred_double p)

  (** val pred_double : z -> z **)

  let pred_double = function
  | Z0 -> Zneg XH
  | Zpos p -> Zpos (Coq_Pos.pred_double p)
  | Zneg p -> Zneg (XI p)

  (** val pos_sub : positive -> positive -> z **)

  let rec pos_sub x y =
    match x with
    | XI p ->
      (match y with
       | XI q -> double (pos_sub p q)
       | XO q -> succ_double (pos_sub p q)
       | XH -> Zpos (XO p))
    | XO p ->
      (match y with
       | XI q -> pred_double (pos_sub p q)
       | XO q -> double (pos_sub p q)
       | XH -> Zpos (Coq_Pos.pred_double p))
    | XH ->
      (match y with
       | XI q -> Zneg (XO q)
       | XO q -> Zneg (Coq_Pos.pred_double q)
       | XH -> Z0)

  (** val add : z -> z -> z **)

  let add x y =
    match x with
    | Z0 -> y
    | Zpos x' ->
      (match y with
       | Z0 -> x
       | Zpos y' -> Zpos (Coq_Pos.add x' y')
       | Zneg y' -> pos_sub x' y')
    | Zneg x' ->
      (match y with
       | Z0 -> x
       | Zpos y' -> pos_sub y' x'
       | Zneg y' -> Zneg (Coq_Pos.add x' y'))

  (** val to_N : z -> n **)

  let to_N = function
  | Zpos p -> Npos p
  | _ -> N0

  (** val of_N : n -> z **)

  let of_N = function
  | N0 -> Z0
  | Npos p -> Zpos p
 end

type bytes = n list

(** val lenN : 'a1 list -> n **)

let lenN l =
  N.of_nat (length l)

(** val takeN : n -> 'a1 list -> 'a1 list **)

let takeN n0 l =
  firstn (N.to_nat n0) l

(** val dropN : n -> 'a1 list -> 'a1 list **)

let dropN n0 l =
  skipn (N.to_nat n0) l

(** val be16 : n -> bytes **)

let be16 n0 =
  (N.modulo (N.div n0 (Npos (XO (XO (XO (XO (XO (XO (XO (XO XH))))))))))
    (Npos (XO (XO (XO (XO (XO (XO (XO (XO XH)))))))))) :: ((N.modulo n0 (Npos
                                                             (XO (XO (XO (XO
                                                             (XO (XO (XO (XO
                                                             XH)))))))))) :: [])

(** val be32 : n -> bytes **)

let be32 n0 =
  (N.modulo
    (N.div n0 (Npos (XO (XO (XO (XO (XO (XO (XO (XO (XO (XO (XO (XO (XO (XO
      (XO (XO (XO (XO (XO (XO (XO (XO (XO (XO XH))))))))))))))))))))))))))
    (Npos (XO (XO (XO (XO (XO (XO (XO (XO XH)))))))))) :: ((N.modulo
                                                             (N.div n0 (Npos
                                                               (XO (XO (XO
                                                               (XO (XO (XO
                                                               (XO (XO (XO
                                                               (XO (XO (XO
                                                               (XO (XO (XO
                                                               (XO
                                                               XH))))))))))))))))))
                                                             (Npos (XO (XO
                                                             (XO (XO (XO (XO
                                                             (XO (XO
                                                             XH)))))))))) :: (
    (N.modulo (N.div n0 (Npos (XO (XO (XO (XO (XO (XO (XO (XO XH))))))))))
      (Npos (XO (XO (XO (XO (XO (XO (XO (XO XH)))))))))) :: ((N.modulo n0
                                                               (Npos (XO (XO
                                                               (XO (XO (XO
                                                               (XO (XO (XO
                                                               XH)))))))))) :: [])))

(** val de16 : n -> n -> n **)

let de16 a b =
  N.add (N.mul a (Npos (XO (XO (XO (XO (XO (XO (XO (XO XH)))))))))) b

(** val de32 : n -> n -> n -> n -> n **)

let de32 a b c d =
  N.add
    (N.mul
      (N.add
        (N.mul
          (N.add (N.mul a (Npos (XO (XO (XO (XO (XO (XO (XO (XO XH))))))))))
            b) (Npos (XO (XO (XO (XO (XO (XO (XO (XO XH)))))))))) c) (Npos
      (XO (XO (XO (XO (XO (XO (XO (XO XH)))))))))) d

type cmd =
| Waste
| Syn
| Push
| Fin
| Settings
| Alert
| UpdatePaddingScheme
| SynAck
| HeartRequest
| HeartResponse
| ServerSettings

(** val cmd_eqb : cmd -> cmd -> bool **)

let cmd_eqb a b =
  match a with
  | Waste -> (match b with
              | Waste -> true
              | _ -> false)
  | Syn -> (match b with
            | Syn -> true
            | _ -> false)
  | Push -> (match b with
             | Push -> true
             | _ -> false)
  | Fin -> (match b with
            | Fin -> true
            | _ -> false)
  | Settings -> (match b with
                 | Settings -> true
                 | _ -> false)
  | Alert -> (match b with
              | Alert -> true
              | _ -> false)
  | UpdatePaddingScheme ->
    (match b with
     | UpdatePaddingScheme -> true
     | _ -> false)
  | SynAck -> (match b with
               | SynAck -> true
               | _ -> false)
  | HeartRequest -> (match b with
                     | HeartRequest -> true
                     | _ -> false)
  | HeartResponse -> (match b with
                      | HeartResponse -> true
                      | _ -> false)
  | ServerSettings -> (match b with
                       | ServerSettings -> true
                       | _ -> false)

(** val cmd_disc : (n * cmd) list **)

let cmd_disc =
  (N0, Waste) :: (((Npos XH), Syn) :: (((Npos (XO XH)), Push) :: (((Npos (XI
    XH)), Fin) :: (((Npos (XO (XO XH))), Settings) :: (((Npos (XI (XO XH))),
    Alert) :: (((Npos (XO (XI XH))), UpdatePaddingScheme) :: (((Npos (XI (XI
    XH))), SynAck) :: (((Npos (XO (XO (XO XH)))), HeartRequest) :: (((Npos
    (XI (XO (XO XH)))), HeartResponse) :: (((Npos (XO (XI (XO XH)))),
    ServerSettings) :: []))))))))))

(** val cmd_table : (n * cmd) list **)

let cmd_table =
  (N0, Waste) :: (((Npos XH), Syn) :: (((Npos (XO XH)), Push) :: (((Npos (XI
    XH)), Fin) :: (((Npos (XO (XO XH))), Settings) :: (((Npos (XI (XO XH))),
    Alert) :: (((Npos (XO (XI XH))), UpdatePaddingScheme) :: (((Npos (XI (XI
    XH))), SynAck) :: (((Npos (XO (XO (XO XH)))), HeartRequest) :: (((Npos
    (XI (XO (XO XH)))), HeartResponse) :: (((Npos (XO (XI (XO XH)))),
    ServerSettings) :: []))))))))))

(** val cmd_default : cmd **)

let cmd_default =
  Waste

(** val encode_max_payload : n **)

let encode_max_payload =
  Npos (XI (XI (XI (XI (XI (XI (XI (XI (XI (XI (XI (XI (XI (XI (XI
    XH)))))))))))))))

(** val assoc_N : n -> (n * 'a1) list -> 'a1 option **)

let assoc_N k l =
  match find (fun p -> N.eqb (fst p) k) l with
  | Some p -> Some (snd p)
  | None -> None

(** val cmd_of_byte : n -> cmd **)

let cmd_of_byte b =
  match assoc_N b cmd_table with
  | Some c -> c
  | None -> cmd_default

(** val byte_of_cmd : cmd -> n **)

let byte_of_cmd c =
  match find (fun p -> cmd_eqb (snd p) c) cmd_disc with
  | Some p -> fst p
  | None -> N0

type rframe = { rcmd : n; rsid : n; rdata : bytes }

type frame = { fcmd : cmd; fsid : n; fdata : bytes }

(** val cook : rframe -> frame **)

let cook r =
  { fcmd = (cmd_of_byte r.rcmd); fsid = r.rsid; fdata = r.rdata }

(** val max_payload : n **)

let max_payload =
  encode_max_payload

(** val encode : frame -> bytes option **)

let encode f =
  if N.leb (lenN f.fdata) max_payload
  then Some
         ((byte_of_cmd f.fcmd) :: (app (be32 f.fsid)
                                    (app (be16 (lenN f.fdata)) f.fdata)))
  else None

(** val decode1_raw : bytes -> (rframe * bytes) option **)

let decode1_raw = function
| [] -> None
| c :: l ->
  (match l with
   | [] -> None
   | s3 :: l2 ->
     (match l2 with
      | [] -> None
      | s2 :: l3 ->
        (match l3 with
         | [] -> None
         | s1 :: l4 ->
           (match l4 with
            | [] -> None
            | s0 :: l5 ->
              (match l5 with
               | [] -> None
               | l1 :: l6 ->
                 (match l6 with
                  | [] -> None
                  | l0 :: rest ->
                    let len = de16 l1 l0 in
                    if N.leb len (lenN rest)
                    then Some ({ rcmd = c; rsid = (de32 s3 s2 s1 s0); rdata =
                           (takeN len rest) }, (dropN len rest))
                    else None))))))

(** val decode1 : bytes -> (frame * bytes) option **)

let decode1 b =
  match decode1_raw b with
  | Some p -> let (r, rest) = p in Some ((cook r), rest)
  | None -> None

(** val decode_all_raw_fuel : nat -> bytes -> rframe list * bytes **)

let rec decode_all_raw_fuel fuel b =
  match fuel with
  | O -> ([], b)
  | S k ->
    (match decode1_raw b with
     | Some p ->
       let (f, r) = p in
       let (fs, r') = decode_all_raw_fuel k r in ((f :: fs), r')
     | None -> ([], b))

(** val decode_all_raw : bytes -> rframe list * bytes **)

let decode_all_raw b =
  decode_all_raw_fuel (length b) b

(** val decode_all : bytes -> frame list * bytes **)

let decode_all b =
  let (fs, r) = decode_all_raw b in ((map cook fs), r)

(** val feed : bytes -> bytes -> frame list * bytes **)

let feed carry chunk =
  decode_all (app carry chunk)

(** val feed_all : bytes -> bytes list -> frame list * bytes **)

let rec feed_all carry = function
| [] -> ([], carry)
| c :: cs ->
  let (fs, carry') = feed carry c in
  let (gs, carry'') = feed_all carry' cs in ((app fs gs), carry'')

type rd = { rq : bytes list; rclosed : bool; rbuf : bytes; reof : bool }

type rres =
| RData of bytes
| REof
| RPending

(** val rd_init : rd **)

let rd_init =
  { rq = []; rclosed = false; rbuf = []; reof = false }

(** val is_nil : 'a1 list -> bool **)

let is_nil = function
| [] -> true
| _ :: _ -> false

(** val rd_push : rd -> bytes -> rd **)

let rd_push st c =
  { rq = (app st.rq (c :: [])); rclosed = st.rclosed; rbuf = st.rbuf; reof =
    st.reof }

(** val rd_close : rd -> rd **)

let rd_close st =
  { rq = st.rq; rclosed = true; rbuf = st.rbuf; reof = st.reof }

(** val pop_nonempty : bytes list -> (bytes * bytes list) option **)

let rec pop_nonempty = function
| [] -> None
| c :: q' -> if is_nil c then pop_nonempty q' else Some (c, q')

(** val rd_read : rd -> n -> rd * rres **)

let rd_read st cap =
  if (&&) st.reof (is_nil st.rbuf)
  then (st, REof)
  else if negb (is_nil st.rbuf)
       then let n0 = N.min (lenN st.rbuf) cap in
            ({ rq = st.rq; rclosed = st.rclosed; rbuf = (dropN n0 st.rbuf);
            reof = st.reof }, (RData (takeN n0 st.rbuf)))
       else (match pop_nonempty st.rq with
             | Some p ->
               let (c, q') = p in
               let n0 = N.min (lenN c) cap in
               ({ rq = q'; rclosed = st.rclosed; rbuf = (dropN n0 c); reof =
               st.reof }, (RData (takeN n0 c)))
             | None ->
               if st.rclosed
               then ({ rq = []; rclosed = true; rbuf = []; reof = true },
                      REof)
               else ({ rq = []; rclosed = false; rbuf = []; reof = st.reof },
                      RPending))

type xres =
| XOk of bytes
| XEof
| XPending

(** val rd_read_exact_fuel : nat -> rd -> n -> bytes -> rd * xres **)

let rec rd_read_exact_fuel fuel st need acc =
  if N.eqb need N0
  then (st, (XOk acc))
  else (match fuel with
        | O -> (st, XPending)
        | S k ->
          let (st', r) = rd_read st need in
          (match r with
           | RData b ->
             rd_read_exact_fuel k st' (N.sub need (lenN b)) (app acc b)
           | REof -> (st', XEof)
           | RPending -> (st', XPending)))

(** val rd_read_exact : rd -> n -> rd * xres **)

let rd_read_exact st n0 =
  rd_read_exact_fuel (add (S (N.to_nat n0)) (length st.rq)) st n0 []

(** val rd_pending_bytes : rd -> bytes **)

let rd_pending_bytes st =
  app st.rbuf (concat st.rq)

(** val rd_read_script : rd -> n list -> (rd * bytes) * bool **)

let rec rd_read_script st = function
| [] -> ((st, []), false)
| c :: cs ->
  let (st', r) = rd_read st c in
  (match r with
   | RData b ->
     let (p, e) = rd_read_script st' cs in
     let (st'', got) = p in ((st'', (app b got)), e)
   | REof -> ((st', []), true)
   | RPending -> ((st', []), false))
