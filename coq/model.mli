
val negb : bool -> bool

type nat =
| O
| S of nat

val fst : ('a1 * 'a2) -> 'a1

val snd : ('a1 * 'a2) -> 'a2

val length : 'a1 list -> nat

val app : 'a1 list -> 'a1 list -> 'a1 list

type comparison =
| Eq
| Lt
| Gt

val compOpp : comparison -> comparison

val add : nat -> nat -> nat

module Nat :
 sig
  val eqb : nat -> nat -> bool
 end

val nth : nat -> 'a1 list -> 'a1 -> 'a1

val rev : 'a1 list -> 'a1 list

val concat : 'a1 list list -> 'a1 list

val map : ('a1 -> 'a2) -> 'a1 list -> 'a2 list

val flat_map : ('a1 -> 'a2 list) -> 'a1 list -> 'a2 list

val fold_left : ('a1 -> 'a2 -> 'a1) -> 'a2 list -> 'a1 -> 'a1

val existsb : ('a1 -> bool) -> 'a1 list -> bool

val forallb : ('a1 -> bool) -> 'a1 list -> bool

val filter : ('a1 -> bool) -> 'a1 list -> 'a1 list

val find : ('a1 -> bool) -> 'a1 list -> 'a1 option

val split : ('a1 * 'a2) list -> 'a1 list * 'a2 list

val firstn : nat -> 'a1 list -> 'a1 list

val skipn : nat -> 'a1 list -> 'a1 list

val repeat : 'a1 -> nat -> 'a1 list

type positive =
| XI of positive
| XO of positive
| XH

type n =
| N0
| Npos of positive

type z =
| Z0
| Zpos of positive
| Zneg of positive

module Pos :
 sig
  type mask =
  | IsNul
  | IsPos of positive
  | IsNeg
 end

module Coq_Pos :
 sig
  val succ : positive -> positive

  val add : positive -> positive -> positive

  val add_carry : positive -> positive -> positive

  val pred_double : positive -> positive

  type mask = Pos.mask =
  | IsNul
  | IsPos of positive
  | IsNeg

  val succ_double_mask : mask -> mask

  val double_mask : mask -> mask

  val double_pred_mask : positive -> mask

  val sub_mask : positive -> positive -> mask

  val sub_mask_carry : positive -> positive -> mask

  val mul : positive -> positive -> positive

  val size_nat : positive -> nat

  val compare_cont : comparison -> positive -> positive -> comparison

  val compare : positive -> positive -> comparison

  val eqb : positive -> positive -> bool

  val iter_op : ('a1 -> 'a1 -> 'a1) -> positive -> 'a1 -> 'a1

  val to_nat : positive -> nat

  val of_succ_nat : nat -> positive
 end

module N :
 sig
  val succ_double : n -> n

  val double : n -> n

  val succ : n -> n

  val add : n -> n -> n

  val sub : n -> n -> n

  val mul : n -> n -> n

  val compare : n -> n -> comparison

  val eqb : n -> n -> bool

  val leb : n -> n -> bool

  val ltb : n -> n -> bool

  val min : n -> n -> n

  val size_nat : n -> nat

  val pos_div_eucl : positive -> n -> n * n

  val div_eucl : n -> n -> n * n

  val div : n -> n -> n

  val modulo : n -> n -> n

  val to_nat : n -> nat

  val of_nat : nat -> n
 end

module Z :
 sig
  val double : z -> z

  val succ_double : z -> z

  val pred_double : z -> z

  val pos_sub : positive -> positive -> z

  val add : z -> z -> z

  val opp : z -> z

  val sub : z -> z -> z

  val mul : z -> z -> z

  val compare : z -> z -> comparison

  val leb : z -> z -> bool

  val ltb : z -> z -> bool

  val eqb : z -> z -> bool

  val max : z -> z -> z

  val min : z -> z -> z

  val to_N : z -> n

  val of_N : n -> z

  val pos_div_eucl : positive -> z -> z * z

  val div_eucl : z -> z -> z * z

  val modulo : z -> z -> z
 end

type bytes = n list

val lenN : 'a1 list -> n

val takeN : n -> 'a1 list -> 'a1 list

val dropN : n -> 'a1 list -> 'a1 list

val be16 : n -> bytes

val be32 : n -> bytes

val de16 : n -> n -> n

val de32 : n -> n -> n -> n -> n

val zeros : n -> bytes

val bytes_eqb : bytes -> bytes -> bool

val u16_of : n -> n

val u32_of : n -> n

type cmd =
| Waste
| Syn
| Push
| Fin
| Settings
| Alert
| UpdatePaddingScheme
| SynAck
| HeartRequest
| HeartResponse
| ServerSettings

val cmd_eqb : cmd -> cmd -> bool

val header_size : n

val cmd_disc : (n * cmd) list

val cmd_table : (n * cmd) list

val cmd_default : cmd

val encode_max_payload : n

val check_mark : z

val default_scheme : n list

val http_max_header : n

val http_terminator : n list

val http_read_chunk : n

val client_first_stream_id : n

val client_pkt_start : n

val client_send_padding : bool

val server_pkt_start : n

val server_send_padding : bool

val padding_size_bound : z option

val pkt_index_offset : n

val client_settings_fixed : (n list * n list) list

val client_settings_md5_key : n list

val server_settings_md5_key : n list

val assoc_N : n -> (n * 'a1) list -> 'a1 option

val cmd_of_byte : n -> cmd

val byte_of_cmd : cmd -> n

type rframe = { rcmd : n; rsid : n; rdata : bytes }

type frame = { fcmd : cmd; fsid : n; fdata : bytes }

val cook : rframe -> frame

val max_payload : n

val encode : frame -> bytes option

val decode1_raw : bytes -> (rframe * bytes) option

val decode1 : bytes -> (frame * bytes) option

val decode_all_raw_fuel : nat -> bytes -> rframe list * bytes

val decode_all_raw : bytes -> rframe list * bytes

val decode_all : bytes -> frame list * bytes

val feed : bytes -> bytes -> frame list * bytes

val feed_all : bytes -> bytes list -> frame list * bytes

type rd = { rq : bytes list; rclosed : bool; rbuf : bytes; reof : bool }

type rres =
| RData of bytes
| REof
| RPending

val rd_init : rd

val is_nil : 'a1 list -> bool

val rd_push : rd -> bytes -> rd

val rd_close : rd -> rd

val pop_nonempty : bytes list -> (bytes * bytes list) option

val rd_read : rd -> n -> rd * rres

type xres =
| XOk of bytes
| XEof
| XPending

val rd_read_exact_fuel : nat -> rd -> n -> bytes -> rd * xres

val rd_read_exact : rd -> n -> rd * xres

val rd_pending_bytes : rd -> bytes

val rd_read_script : rd -> n list -> (rd * bytes) * bool

val is_ws : n -> bool

val trim_start : bytes -> bytes

val trim_end : bytes -> bytes

val trim : bytes -> bytes

val split_once : n -> bytes -> (bytes * bytes) option

val split0 : n -> bytes -> bytes list

val strip_cr : bytes -> bytes

val lines_aux : bytes -> bytes -> bytes list

val lines : bytes -> bytes list

val digit_val : n -> z option

val parse_digits : z -> bytes -> z option

val parse_nat_digits : bytes -> z option

val i64_min : z

val i64_max : z

val u32_max : z

val parse_i64 : bytes -> z option

val parse_u32 : bytes -> n option

val to_dec_fuel : nat -> n -> bytes -> bytes

val u32_to_string : n -> bytes

val filter_map : ('a1 -> 'a2 option) -> 'a1 list -> 'a2 list

type smap = (bytes * bytes) list

val map_get : bytes -> smap -> bytes option

val parse_kv : bytes -> (bytes * bytes) option

val parse_map : bytes -> smap

val key_stop : bytes

val lit_c : bytes

type scheme = { sc_map : smap; sc_raw : bytes; sc_stop : n }

val factory_new : bytes -> scheme option

type entry =
| ECheck
| ERange of z * z

val or0 : z option -> z

val parse_entry : z option -> bytes -> entry option

val spec_entries : z option -> bytes -> entry list

val line_entries_gen : z option -> scheme -> n -> entry list

val line_entries : scheme -> n -> entry list

val i32_of : z -> z

val usize_of_i32 : z -> n

val isize_max : n

val sizes : entry list -> z list -> z list

val wr : bytes -> bytes list

val is_nil0 : 'a1 list -> bool

val waste_bytes : n -> n -> bytes

type shaped =
| Crash
| Writes of bytes list

val and_then : bytes list -> shaped -> shaped

val shape_loop : z list -> bytes -> shaped

val pkt_index : n -> n

val write_packet_gen :
  (n -> n) -> (scheme -> n -> entry list) -> bool -> scheme -> n -> z list ->
  bytes -> shaped * n

val write_packet : bool -> scheme -> n -> z list -> bytes -> shaped * n

type csess = { cs_client : bool; cs_scheme : scheme; cs_counter : n;
               cs_buffering : bool; cs_buffer : bytes }

val sess_new : bool -> scheme -> csess

val sess_pads : csess -> bool

val sess_write : csess -> z list -> bytes -> csess * shaped option

val sess_set_buffering : csess -> bool -> csess

val sess_set_scheme : csess -> scheme -> csess

val run_packets : bool -> scheme -> n -> (z list * bytes) list -> shaped list

val auth_writes : bytes -> z list -> bytes list

val waste : n -> bytes

val in_range : z -> z -> z -> bool

val accepts : entry list -> bytes -> bytes list -> bool

val builtin_scheme : scheme

type proc = { p_builtin_made : bool; p_updated : scheme option }

val proc_init : proc

val proc_default : proc -> scheme * proc

val proc_update : proc -> bytes -> proc option

val session_padding : proc -> scheme -> scheme

val on_update : proc -> csess -> bytes -> proc * csess

val scheme_md5 : (bytes -> bytes) -> scheme -> bytes

val client_settings : (bytes -> bytes) -> scheme -> smap

val server_on_announce :
  (bytes -> bytes) -> scheme -> bytes option -> bytes option

val server_on_settings : (bytes -> bytes) -> scheme -> smap -> bytes option

type world = { w_proc : proc; w_client : scheme; w_sessions : csess list;
               w_out : (nat * shaped) list }

val world_init : proc -> scheme -> world

val h_nil : 'a1 list -> bool

val h_is_ws : n -> bool

val h_starts_with : bytes -> bytes -> bool

val h_strip_prefix : bytes -> bytes -> bytes option

val h_find : bytes -> bytes -> n option

val h_find_if : (n -> bool) -> bytes -> n option

val h_rfind_byte : n -> bytes -> n option

val h_contains_byte : n -> bytes -> bool

val h_split_crlf : bytes -> bytes list

val h_ws_aux : bytes -> bytes * bytes list

val h_split_whitespace : bytes -> bytes list

val h_trim_start_by : (n -> bool) -> bytes -> bytes

val h_trim_end_by : (n -> bool) -> bytes -> bytes

val h_trim_by : (n -> bool) -> bytes -> bytes

val h_trim : bytes -> bytes

val h_trim_matches : n -> bytes -> bytes

val h_lower : n -> n

val h_to_lower : bytes -> bytes

val h_eq_ignore_case : bytes -> bytes -> bool

val h_digit : n -> n option

val h_parse_digits : n -> n -> bytes -> n option

val h_parse_uint : n -> bytes -> n option

val h_parse_u16 : bytes -> n option

val h_dec_fuel : nat -> n -> bytes -> bytes

val h_dec : n -> bytes

type 'a hres =
| HOk of 'a
| HErr

val k_crlf : bytes

val k_connect : bytes

val k_host_colon : bytes

val k_http : bytes

val k_https : bytes

val k_scheme_sep : bytes

val k_http11 : bytes

val k_host_sp : bytes

val c_colon : n

val c_slash : n

val c_qmark : n

val c_star : n

val c_lbr : n

val c_rbr : n

val c_sp : n

val find_header_end : bytes -> n option

type hrh =
| RhOk of bytes * bytes * bytes list
| RhTooLarge
| RhClosed
| RhPending of bytes

val read_header : bytes -> bytes list -> bool -> hrh

val rechunk_fuel : nat -> n -> bytes -> bytes list

val rechunk : n -> bytes -> bytes list

val tcp_reads : bytes list -> bytes list

val clean_host : bytes -> bytes

val split_host_port : bytes -> n -> bytes * n

val is_host_line : bytes -> bool

val find_host_header : bytes list -> bytes option

val is_authority_end : n -> bool

val determine_target :
  bytes -> bytes -> bytes list -> (((bytes * n) * bytes) * bool) hres

type hparsed = { hp_method : bytes; hp_version : bytes; hp_host : bytes;
                 hp_port : n; hp_path : bytes; hp_connect : bool;
                 hp_headers : bytes list; hp_body : bytes }

val parse_http_request : bytes -> bytes -> hparsed hres

val host_header_value : bytes -> n -> bytes

val host_line_out : bytes -> n -> bytes

val rewrite_line : bytes -> bytes -> bytes

val build_forward_request : hparsed -> bytes

type hev =
| EvOpen of bytes * n
| EvReply of n
| EvSend of bytes

val fwd_loop : bytes list -> hev list

val opt_send : bytes -> hev list

val handle : bytes list -> bool -> bool -> hev list

val sent_bytes : hev list -> bytes

type hostname =
| HName of bytes
| HV6 of bytes

type authority = { au_host : hostname; au_port : n list option }

type rtarget =
| TAuthority of authority
| TAbsolute of bool * bytes * authority * bytes
| TOrigin of bytes

type host_hdr = { hh_name : bytes; hh_pre : bytes; hh_auth : authority;
                  hh_post : bytes }

type hreq = { r_method : bytes; r_target : rtarget; r_version : bytes;
              r_before : bytes list; r_host : host_hdr option;
              r_after : bytes list; r_body : bytes }

val digits_text : n list -> bytes

val digits_value : n list -> n

val render_host : hostname -> bytes

val render_auth : authority -> bytes

val render_target : rtarget -> bytes

val render_host_line : host_hdr -> bytes

val header_lines : hreq -> bytes list

val render_lines : bytes list -> bytes

val render_head : hreq -> bytes

val render : hreq -> bytes

val host_text : hostname -> bytes

val auth_port : authority -> n -> n

val auth_target : authority -> n -> bytes * n

val is_connect_req : hreq -> bool

val spec_target : hreq -> (bytes * n) option

val spec_path : hreq -> bytes

val norm_host_hdr : hostname -> n -> host_hdr

val target_authority : hreq -> (authority * n) option

val origin_form : hreq -> hreq

val tokenb : bytes -> bool

val host_charb : n -> bool

val v6_charb : n -> bool

val wf_hostb : hostname -> bool

val wf_digitsb : n list -> bool

val wf_authb : authority -> bool

val owsb : bytes -> bool

val wf_host_hdrb : host_hdr -> bool

val plain_lineb : bytes -> bool

val wf_pqb : bytes -> bool

val wf_schemeb : bool -> bytes -> bool

val wf_targetb : hreq -> bool

val wf_req : hreq -> bool

val forward_of : hreq -> (((bytes * n) * bool) * bytes) hres

val split_host_port_cur : bytes -> n -> bytes * n

val find_host_header_cur : bytes list -> bytes option

val determine_target_cur :
  bytes -> bytes -> bytes list -> (((bytes * n) * bytes) * bool) hres

val parse_http_request_cur : bytes -> bytes -> hparsed hres

val host_line_out_cur : bytes -> n -> bytes

val build_forward_request_cur : hparsed -> bytes

val read_header_cur : bytes -> bytes list -> bool -> hrh

val handle_cur : bytes list -> bool -> bool -> hev list

type tid = nat

type witem = tid * frame

type res =
| ResOk
| ResClosed
| ResIo
| ResErrOpen
| ResTimeout
| ResData
| ResEof
| ResNoStream

type inev =
| InSynAck of tid * bool
| InPush of tid
| InFin of tid
| InAlert
| InEof
| InErr

type call =
| CWrite of frame
| CData of bytes
| COpen
| CAwait
| CTimeout
| CRead
| CClose
| CDisableBuf
| CEnableBuf
| CFail
| CFeed of inev

type after =
| AfterClose
| AfterIoErr
| AfterRecv

type wk =
| WkPlain
| WkOpen

type pc =
| PIdle
| PW0 of wk * frame
| PW1 of wk * frame
| PW2 of wk * frame
| PW2wait of wk * frame
| PW3 of wk * frame
| PW4 of wk * witem list
| PE0 of after * wk
| PC1 of after * wk
| PC2 of after * wk
| PC2wait of after * wk
| PO1 of n

type task = { t_prog : call list; t_pc : pc; t_res : res list;
              t_sid : n option; t_verdict : res option; t_rq : nat;
              t_rclosed : bool }

type state = { buffering : bool; pending : witem list; wr0 : tid option;
               waiters : tid list; pkt : n; wire : (n * witem list) list;
               closed : bool; shut : bool; failing : bool; next_sid : 
               n; table : (n * tid) list; ralive : bool;
               tasks : (tid -> task); lin : witem list }

val rtid : tid

val idle_task : call list -> task

val upd : (tid -> task) -> tid -> task -> tid -> task

val set_tasks : state -> (tid -> task) -> state

val set_task : state -> tid -> task -> state

val with_pc : task -> pc -> task

val with_res : task -> res -> task

val with_prog : task -> call list -> task

val with_sid : task -> n -> task

val with_verdict : task -> res option -> task

val with_rq : task -> nat -> bool -> task

val set_pc : state -> tid -> pc -> state

val finish : state -> tid -> res -> state

val set_flags : state -> bool -> bool -> bool -> bool -> bool -> state

val set_buffering : state -> bool -> state

val set_closed : state -> state

val set_shut : state -> state

val set_failing : state -> state

val set_rdead : state -> state

val set_queue : state -> witem list -> witem list -> state

val set_lock : state -> tid option -> tid list -> state

val set_wire : state -> n -> (n * witem list) list -> state

val set_table : state -> n -> (n * tid) list -> state

val finish_close : state -> tid -> after -> state

val release_ws : tid list -> state -> state

val release : state -> state

val enter_close : state -> tid -> after -> wk -> state

val drain : (n * tid) list -> (tid -> task) -> tid -> task

val lookup_owner : (n * tid) list -> tid -> n option

val remove_owner : (n * tid) list -> tid -> (n * tid) list

val pc_is_idle : pc -> bool

val feed_ev : state -> inev -> state

val syn_frame : n -> frame

val psh_frame : n -> bytes -> frame

val start_call : state -> tid -> call -> call list -> state option

val step : state -> tid -> state option

val step_or_skip : state -> tid -> state

val run : state -> tid list -> state

val init : call list list -> bool -> witem list -> state

val flat_wire : state -> witem list
