
val negb : bool -> bool

type nat =
| O
| S of nat

val fst : ('a1 * 'a2) -> 'a1

val snd : ('a1 * 'a2) -> 'a2

val length : 'a1 list -> nat

val app : 'a1 list -> 'a1 list -> 'a1 list

type comparison =
| Eq
| Lt
| Gt

val add : nat -> nat -> nat

val concat : 'a1 list list -> 'a1 list

val map : ('a1 -> 'a2) -> 'a1 list -> 'a2 list

val find : ('a1 -> bool) -> 'a1 list -> 'a1 option

val firstn : nat -> 'a1 list -> 'a1 list

val skipn : nat -> 'a1 list -> 'a1 list

type positive =
| XI of positive
| XO of positive
| XH

type n =
| N0
| Npos of positive

type z =
| Z0
| Zpos of positive
| Zneg of positive

module Pos :
 sig
  type mask =
  | IsNul
  | IsPos of positive
  | IsNeg
 end

module Coq_Pos :
 sig
  val succ : positive -> positive

  val add : positive -> positive -> positive

  val add_carry : positive -> positive -> positive

  val pred_double : positive -> positive

  type mask = Pos.mask =
  | IsNul
  | IsPos of positive
  | IsNeg

  val succ_double_mask : mask -> mask

  val double_mask : mask -> mask

  val double_pred_mask : positive -> mask

  val sub_mask : positive -> positive -> mask

  val sub_mask_carry : positive -> positive -> mask

  val mul : positive -> positive -> positive

  val compare_cont : comparison -> positive -> positive -> comparison

  val compare : positive -> positive -> comparison

  val eqb : positive -> positive -> bool

  val iter_op : ('a1 -> 'a1 -> 'a1) -> positive -> 'a1 -> 'a1

  val to_nat : positive -> nat

  val of_succ_nat : nat -> positive
 end

module N :
 sig
  val succ_double : n -> n

  val double : n -> n

  val add : n -> n -> n

  val sub : n -> n -> n

  val mul : n -> n -> n

  val compare : n -> n -> comparison

  val eqb : n -> n -> bool

  val leb : n -> n -> bool

  val min : n -> n -> n

  val pos_div_eucl : positive -> n -> n * n

  val div_eucl : n -> n -> n * n

  val div : n -> n -> n

  val modulo : n -> n -> n

  val to_nat : n -> nat

  val of_nat : nat -> n
 end

module Z :
 sig
  val double : z -> z

  val succ_double : z -> z

  val pred_double : z -> z

  val pos_sub : positive -> positive -> z

  val add : z -> z -> z

  val to_N : z -> n

  val of_N : n -> z
 end

type bytes = n list

val lenN : 'a1 list -> n

val takeN : n -> 'a1 list -> 'a1 list

val dropN : n -> 'a1 list -> 'a1 list

val be16 : n -> bytes

val be32 : n -> bytes

val de16 : n -> n -> n

val de32 : n -> n -> n -> n -> n

type cmd =
| Waste
| Syn
| Push
| Fin
| Settings
| Alert
| UpdatePaddingScheme
| SynAck
| HeartRequest
| HeartResponse
| ServerSettings

val cmd_eqb : cmd -> cmd -> bool

val cmd_disc : (n * cmd) list

val cmd_table : (n * cmd) list

val cmd_default : cmd

val encode_max_payload : n

val assoc_N : n -> (n * 'a1) list -> 'a1 option

val cmd_of_byte : n -> cmd

val byte_of_cmd : cmd -> n

type rframe = { rcmd : n; rsid : n; rdata : bytes }

type frame = { fcmd : cmd; fsid : n; fdata : bytes }

val cook : rframe -> frame

val max_payload : n

val encode : frame -> bytes option

val decode1_raw : bytes -> (rframe * bytes) option

val decode1 : bytes -> (frame * bytes) option

val decode_all_raw_fuel : nat -> bytes -> rframe list * bytes

val decode_all_raw : bytes -> rframe list * bytes

val decode_all : bytes -> frame list * bytes

val feed : bytes -> bytes -> frame list * bytes

val feed_all : bytes -> bytes list -> frame list * bytes

type rd = { rq : bytes list; rclosed : bool; rbuf : bytes; reof : bool }

type rres =
| RData of bytes
| REof
| RPending

val rd_init : rd

val is_nil : 'a1 list -> bool

val rd_push : rd -> bytes -> rd

val rd_close : rd -> rd

val pop_nonempty : bytes list -> (bytes * bytes list) option

val rd_read : rd -> n -> rd * rres

type xres =
| XOk of bytes
| XEof
| XPending

val rd_read_exact_fuel : nat -> rd -> n -> bytes -> rd * xres

val rd_read_exact : rd -> n -> rd * xres

val rd_pending_bytes : rd -> bytes

val rd_read_script : rd -> n list -> (rd * bytes) * bool
