(* driver.ml -- hand-written glue (trusted): parses one case per line, runs the
   extracted model through the per-package driver modules, prints one canonical result line per case.
   Line format:  <driver> <caseid> <token> ...   Output:  <caseid> <token> ... *)
let packages : (string -> string list -> string option) list =
  [ Drv_codec.dispatch; Drv_padding.dispatch; Drv_parsers.dispatch; Drv_http.dispatch;
    Drv_timed.dispatch; Drv_session.dispatch; Drv_tunnel.dispatch; Drv_conc.dispatch; Drv_misc.dispatch; Drv_hostile.dispatch ]

let dispatch drv args =
  let rec go = function
    | [] -> "UNKNOWN-DRIVER " ^ drv
    | d :: ds -> (match d drv args with Some s -> s | None -> go ds) in
  go packages

let () =
  try
    while true do
      let line = input_line stdin in
      match Util.split_ws line with
      | drv :: id :: args ->
        let out = try dispatch drv args with e -> "MODEL-EXN " ^ Printexc.to_string e in
        print_string id; print_char ' '; print_string (String.trim out); print_newline ()
      | _ -> ()
    done
  with End_of_file -> ()
