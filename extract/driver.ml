(* driver.ml -- hand-written glue (trusted): parses one case per line, runs the
   extracted model, prints one canonical result line per case.
   Line format:  <driver> <caseid> <token> ...   Output:  <caseid> <token> ... *)
open Model

let rec pos_of_int (i : int) : positive =
  if i = 1 then XH
  else if i land 1 = 0 then XO (pos_of_int (i lsr 1))
  else XI (pos_of_int (i lsr 1))
let n_of_int (i : int) : n = if i = 0 then N0 else Npos (pos_of_int i)
let rec int_of_pos (p : positive) : int =
  match p with XH -> 1 | XO q -> 2 * int_of_pos q | XI q -> 2 * int_of_pos q + 1
let int_of_n (x : n) : int = match x with N0 -> 0 | Npos p -> int_of_pos p
let z_of_int (i : int) : z =
  if i = 0 then Z0 else if i > 0 then Zpos (pos_of_int i) else Zneg (pos_of_int (-i))
let int_of_z (x : z) : int =
  match x with Z0 -> 0 | Zpos p -> int_of_pos p | Zneg p -> - (int_of_pos p)

let small = Array.init 256 n_of_int
let hexval c =
  match c with
  | '0'..'9' -> Char.code c - 48
  | 'a'..'f' -> Char.code c - 87
  | 'A'..'F' -> Char.code c - 55
  | _ -> failwith "hex"
(* "-" is the empty byte string *)
let bytes_of_hex (s : string) : n list =
  if s = "-" then [] else begin
    let len = String.length s / 2 in
    let rec go i acc =
      if i < 0 then acc
      else go (i - 1) (small.(hexval s.[2*i] * 16 + hexval s.[2*i+1]) :: acc) in
    go (len - 1) []
  end
let hex_of_bytes (l : n list) : string =
  match l with
  | [] -> "-"
  | _ ->
    let b = Buffer.create 64 in
    List.iter (fun x -> Buffer.add_string b (Printf.sprintf "%02x" (int_of_n x))) l;
    Buffer.contents b

let frame_str (f : frame) : string =
  Printf.sprintf "F %d %d %s" (int_of_n (byte_of_cmd f.fcmd)) (int_of_n f.fsid) (hex_of_bytes f.fdata)

let split_ws s = List.filter (fun t -> t <> "") (String.split_on_char ' ' s)

(* ---- drivers ---- *)
let drv_enc args =
  match args with
  | [c; sid; data] ->
    let f = { fcmd = cmd_of_byte (n_of_int (int_of_string c));
              fsid = n_of_int (int_of_string sid); fdata = bytes_of_hex data } in
    (match encode f with Some e -> "OK " ^ hex_of_bytes e | None -> "ERR")
  | _ -> "BADCASE"

let drv_dec args =
  (* chunks fed one after the other to a streaming decoder *)
  let b = Buffer.create 256 in
  let carry = ref [] in
  List.iter (fun ch ->
      let (fs, r) = feed !carry (bytes_of_hex ch) in
      carry := r;
      List.iter (fun f -> Buffer.add_string b (frame_str f); Buffer.add_char b ' ') fs;
      Buffer.add_string b (Printf.sprintf "R %d | " (List.length r))) args;
  Buffer.contents b

let dispatch drv args =
  match drv with
  | "enc" -> drv_enc args
  | "dec" -> drv_dec args
  | _ -> Driver2.dispatch drv args

let () =
  try
    while true do
      let line = input_line stdin in
      match split_ws line with
      | drv :: id :: args ->
        let out = try dispatch drv args with e -> "MODEL-EXN " ^ Printexc.to_string e in
        print_string id; print_char ' '; print_string (String.trim out); print_newline ()
      | _ -> ()
    done
  with End_of_file -> ()
