(* further drivers are added here *)
let dispatch drv _args = "UNKNOWN-DRIVER " ^ drv
