(* drv_codec.ml -- drivers enc / dec (C03) *)
open Model
open Util

let drv_enc args =
  match args with
  | [c; sid; data] ->
    let f = { fcmd = cmd_of_byte (n_of_int (int_of_string c));
              fsid = n_of_int (int_of_string sid); fdata = bytes_of_hex data } in
    (match encode f with Some e -> "OK " ^ hex_of_bytes e | None -> "ERR")
  | _ -> "BADCASE"

let drv_dec args =
  let b = Buffer.create 256 in
  let carry = ref [] in
  List.iter (fun ch ->
      let (fs, r) = feed !carry (bytes_of_hex ch) in
      carry := r;
      List.iter (fun f -> Buffer.add_string b (frame_str f); Buffer.add_char b ' ') fs;
      Buffer.add_string b (Printf.sprintf "R %d | " (List.length r))) args;
  Buffer.contents b

(* encseq <cmd:sid:len:seed>... : frames encoded one after the other into ONE output buffer (payload byte i = seed + i mod 256);
   a refused frame must leave the buffer as it was. Prints the verdict per frame, then length, byte sum and FNV-1a of the buffer *)
let drv_encseq args =
  let verdicts = Buffer.create 64 in
  let out = ref [] in
  List.iter (fun tok ->
      match String.split_on_char ':' tok with
      | [c; sid; len; seed] ->
        let len = int_of_string len and seed = int_of_string seed in
        let data = List.init len (fun i -> n_of_int ((seed + i) land 255)) in
        let f = { fcmd = cmd_of_byte (n_of_int (int_of_string c)); fsid = n_of_int (int_of_string sid); fdata = data } in
        (match encode f with
         | Some e -> Buffer.add_string verdicts "ok "; out := List.rev_append e !out
         | None -> Buffer.add_string verdicts "err ")
      | _ -> Buffer.add_string verdicts "BADTOK ") args;
  let bytes = List.rev_map int_of_n !out in
  let sum = List.fold_left (fun a b -> (a + b) land 0xFFFFFFFF) 0 bytes in
  let fnv = List.fold_left (fun h b -> ((h lxor b) * 16777619) land 0xFFFFFFFF) 2166136261 bytes in
  Printf.sprintf "%s| len=%d sum=%d fnv=%d" (Buffer.contents verdicts) (List.length bytes) sum fnv

let dispatch drv args : string option =
  match drv with
  | "enc" -> Some (drv_enc args)
  | "dec" -> Some (drv_dec args)
  | "encseq" -> Some (drv_encseq args)
  | _ -> None
