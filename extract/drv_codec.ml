(* drv_codec.ml -- drivers enc / dec (C03) *)
open Model
open Util

let drv_enc args =
  match args with
  | [c; sid; data] ->
    let f = { fcmd = cmd_of_byte (n_of_int (int_of_string c));
              fsid = n_of_int (int_of_string sid); fdata = bytes_of_hex data } in
    (match encode f with Some e -> "OK " ^ hex_of_bytes e | None -> "ERR")
  | _ -> "BADCASE"

let drv_dec args =
  let b = Buffer.create 256 in
  let carry = ref [] in
  List.iter (fun ch ->
      let (fs, r) = feed !carry (bytes_of_hex ch) in
      carry := r;
      List.iter (fun f -> Buffer.add_string b (frame_str f); Buffer.add_char b ' ') fs;
      Buffer.add_string b (Printf.sprintf "R %d | " (List.length r))) args;
  Buffer.contents b

let dispatch drv args : string option =
  match drv with
  | "enc" -> Some (drv_enc args)
  | "dec" -> Some (drv_dec args)
  | _ -> None
