(* drv_conc.ml -- model-side drivers of work package "conc" (see docs/AGENT_GUIDE.md) *)
open Model
open Util

let dispatch (drv : string) (args : string list) : string option =
  ignore args;
  match drv with
  | _ -> None
