(* drv_conc.ml -- model-side driver "conc": run Model/Conc.v on an explicit schedule.
   case:  conc <id> <start|plain> | <calls of task 0> | <calls of task 1> | ... sched <tid> <tid> ...
   calls: W:<cmd>:<sid>:<hex>  D:<hex>  O  A  T  R  X  B0  B1  FAIL  F:sa:<owner>:<0|1>  F:psh:<owner>
          F:fin:<owner>  F:alert  F:eof  F:err      ("-" = empty program)
   In `start` mode the receive task (task 0) is free-running in the implementation (spawned by
   start_client), so the driver grants it steps eagerly after every scheduled step. *)
open Model
open Util

let hreq_marker = 9999
let is_hreq_feed (s : state) (t : int) =
  let x = s.tasks (nat_of_int t) in
  match x.t_pc, x.t_prog with
  | PIdle, CFeed (InPush o) :: _ -> int_of_nat o = hreq_marker
  | _ -> false

let parse_call (tok : string) : call =
  match String.split_on_char ':' tok with
  | ["W"; c; sid; d] ->
    CWrite { fcmd = cmd_of_byte (n_of_int (int_of_string c)); fsid = n_of_int (int_of_string sid);
             fdata = bytes_of_hex d }
  | ["D"; d] -> CData (bytes_of_hex d)
  | ["O"] -> COpen | ["A"] -> CAwait | ["T"] -> CTimeout | ["R"] -> CRead | ["X"] -> CClose
  | ["B0"] -> CDisableBuf | ["B1"] -> CEnableBuf | ["FAIL"] -> CFail
  | ["FAIL"; _] -> CFail   (* failure k bytes into the next burst: the model fails the whole burst; the wire is not compared *)
  | ["STALL"; "0"] -> CStall   (* the peer stops reading now: every later transport write / shutdown stays pending *)
  | ["F"; "sa"; o; ok] -> CFeed (InSynAck (nat_of_int (int_of_string o), ok = "1"))
  | ["F"; "psh"; o] -> CFeed (InPush (nat_of_int (int_of_string o)))
  | ["F"; "fin"; o] -> CFeed (InFin (nat_of_int (int_of_string o)))
  | ["F"; "hreq"] -> CFeed (InPush (nat_of_int hreq_marker))
    (* a keep-alive request: for the feeding task a feed that touches no stream; the receive task's answer is the next
       CWrite call of task 0's program (its write_frame(HeartResponse)), started by the driver right after the feed *)
  | ["F"; "alert"] -> CFeed InAlert | ["F"; "eof"] -> CFeed InEof | ["F"; "err"] -> CFeed InErr
  | ["F"; "err"; "eof"] -> CFeed InEof   (* recv_loop takes an UnexpectedEof read error (a TLS peer that hangs up without
                                            close_notify) as the end of the transport: the EOF path, not the error path *)
  | ["F"; "err"; _] -> CFeed InErr   (* whatever other kind of error the transport read reports *)
  | ["FAILK"; _] -> CFail            (* from now on every transport write fails, with the named error kind *)
  | ["F"; "cut"; _] -> CFeed InEof     (* EOF inside a frame: the same termination cause as a clean EOF *)
  | ["S"; d] -> CSend (bytes_of_hex d)
  | ["P"] -> CPump
  | _ -> failwith ("bad call " ^ tok)

let res_str = function
  | ResOk -> "ok" | ResClosed -> "closed" | ResIo -> "io" | ResErrOpen -> "erropen" | ResTimeout -> "timeout"
  | ResData -> "data" | ResEof -> "eof" | ResNoStream -> "nostream"

let is_pump (s : state) (t : int) =
  match s.pump_owner with Some p -> int_of_nat p = t | None -> false

(* the forwarding task: process_stream_data is ONE long call in the implementation; in the model every loop
   iteration is a CPump call. Its PIdle is the scheduling point at the top of the loop; once it has returned
   (pump_done) the task is gone, whatever CPump calls are left in its program *)
let pc_str (intr : int list) (s : state) (t : int) (x : task) =
  match x.t_pc with
  | PW4 _ when List.mem t intr -> "stalled-in-transport"
  | PIdle when is_pump s t -> if s.pump_done then "done" else "pump.loop"
  | PIdle ->
    if t = 0 then (if s.ralive then "recv" else "done")
    else (match x.t_prog with [] -> "done" | _ -> "h.call")
  | PW0 _ -> "wf.enter" | PW1 _ -> "wf.buffering" | PW2 _ -> "wf.before_writer"
  | PW2wait _ | PC2wait _ -> "queued"
  | PW3 _ -> "wf.writer_locked" | PW4 _ -> "wf.buffer_taken" | PE0 _ -> "io_err.enter"
  | PC1 _ -> "close.flag_set" | PC2 _ -> "close.before_writer" | PO0 -> "open.checked" | PO0b _ -> "open.rx_registered" | PO1 _ -> "open.registered" | PPwait -> "pump.wait"

let frame_tok (f : frame) =
  let c = int_of_n (byte_of_cmd f.fcmd) in
  if c = 4 then "SETTINGS" else Printf.sprintf "%d.%d.%s" c (int_of_n f.fsid) (hex_of_bytes f.fdata)

let drv_conc args =
  let mode, rest = (match args with m :: r -> m, r | [] -> failwith "mode") in
  (* split at "sched" *)
  let rec split_sched acc = function
    | "sched" :: r -> (List.rev acc, r)
    | x :: r -> split_sched (x :: acc) r
    | [] -> (List.rev acc, []) in
  let progtoks, sched = split_sched [] rest in
  (* tasks separated by "|" ; the list starts with "|" *)
  let rec split_tasks cur acc = function
    | "|" :: r -> split_tasks [] (List.rev cur :: acc) r
    | x :: r -> split_tasks (x :: cur) acc r
    | [] -> List.rev (List.rev cur :: acc) in
  let groups = (match split_tasks [] [] progtoks with _ :: g -> g | [] -> []) in
  let progs = List.map (fun g -> List.filter_map (fun t -> if t = "-" then None else Some (parse_call t)) g) groups in
  let ntasks = List.length progs in
  let settings = { fcmd = Settings; fsid = N0; fdata = [] } in
  let s0 = if mode = "start" then init progs true [ (nat_of_int 99, settings) ] else init progs false [] in
  let free_recv s =
    if mode <> "start" then s else begin
      let s = ref s and go = ref true and fuel = ref 8 in
      while !go && !fuel > 0 do
        decr fuel;
        (match (!s.tasks O).t_pc with
         | PIdle -> go := false
         | _ -> (match step !s O with Some s' -> s := s' | None -> go := false))
      done; !s end in
  let b = Buffer.create 256 in
  (* tasks that were granted the step that writes the burst on a stalled transport: in the implementation the
     task leaves its scheduling point and never reaches another one (the model's step is None from then on) *)
  let intr = ref [] in
  let pending_req = ref 0 in
  let s = List.fold_left (fun s tok ->
      let t = int_of_string tok in
      let gone = is_pump s t && s.pump_done && (match (s.tasks (nat_of_int t)).t_pc with PIdle -> true | _ -> false) in
      let entering = (match (s.tasks (nat_of_int t)).t_pc with
          | PW4 _ -> s.stalled && not s.shut && not (List.mem t !intr) | _ -> false) in
      if entering then (intr := t :: !intr; s) else
      let hreq = (not gone) && is_hreq_feed s t in
      (* the receive task starts a call only when a request is dispatched, never by a grant of the scheduler *)
      let idle0 = (t = 0) && (match (s.tasks O).t_pc with PIdle -> true | _ -> false) in
      match (if gone || idle0 then None else step s (nat_of_int t)) with
      | Some s' ->
        if hreq then incr pending_req;
        (* a dispatched HeartRequest makes the receive task enter write_frame: task 0 begins its next call as soon as
           it is back in its loop (requests that arrive meanwhile wait in the transport) *)
        let s' = ref (free_recv s') in
        while !pending_req > 0 && (match (!s'.tasks O).t_pc with PIdle -> true | _ -> false)
              && (match (!s'.tasks O).t_prog with [] -> false | _ -> true) && !s'.ralive do
          decr pending_req;
          (match step !s' O with Some s'' -> s' := free_recv s'' | None -> ())
        done;
        !s'
      | None -> Buffer.add_string b (Printf.sprintf "skip%d " t); s) s0 sched in
  Buffer.add_string b "W ";
  List.iter (fun (idx, items) ->
      Buffer.add_string b (Printf.sprintf "%d:" (int_of_n idx));
      Buffer.add_string b (String.concat "," (List.map (fun (_, f) -> frame_tok f) items));
      Buffer.add_char b ' ') s.wire;
  Buffer.add_string b (Printf.sprintf "| closed=%b shut=%b |" s.closed s.shut);
  for t = 0 to ntasks - 1 do
    let x = s.tasks (nat_of_int t) in
    Buffer.add_string b (Printf.sprintf " t%d:%s:%s" t (if t = 0 && mode = "start" then "-" else pc_str !intr s t x)
                           (if is_pump s t || t = 0 then "-" else
                              match x.t_res with [] -> "-" | l -> String.concat "," (List.map res_str l)))
  done;
  Buffer.contents b

let dispatch (drv : string) (args : string list) : string option =
  match drv with
  | "conc" -> Some (drv_conc args)
  | _ -> None
