(* drv_hostile.ml -- model side of driver "hostile" (C20): Sess.recv_all on the fed chunks, then one
   HeartRequest; prints what the implementation side prints (see harness/src/drv_hostile.rs).
     hostile <id> <c|s> <md5 ascii hex> <scheme hex> <hexchunk> ...     (the harness ignores args 2 and 3) *)
open Model
open Util

let frame_tok (f : frame) =
  Printf.sprintf "%d.%d.%s" (int_of_n (byte_of_cmd f.fcmd)) (int_of_n f.fsid) (hex_of_bytes f.fdata)

let outs_str (os : Sess.out list) =
  let fr = List.filter_map (fun o -> match o with Sess.Send f -> (match encode f with Some _ -> Some (frame_tok f) | None -> None) | _ -> None) os in
  if fr = [] then "-" else String.concat "," fr
let news_str (os : Sess.out list) =
  let ns = List.filter_map (fun o -> match o with Sess.NewStream sid -> Some (string_of_int (int_of_n sid)) | _ -> None) os in
  if ns = [] then "-" else String.concat "," ns

let drv_hostile args =
  match args with
  | role :: md5 :: scheme :: chunks ->
    let cfg = { Sess.c_role = (if role = "c" then Sess.Client else Sess.Server);
                Sess.c_md5 = bytes_of_hex md5; Sess.c_scheme = bytes_of_hex scheme } in
    let st0 = Sess.init_sess cfg in
    let ((st1, carry), os) = Sess.recv_all cfg st0 [] (List.map bytes_of_hex chunks) in
    let closed = st1.Sess.s_closed || st1.Sess.dead in
    let hb sid = bytes_of_hex (Printf.sprintf "08%08x0000" sid) in
    let ((st2, _), os2) = Sess.recv cfg st1 carry (hb 0x7777) in
    ignore st2;
    let ((_, _), os3) = Sess.recv cfg st0 [] (hb 0x5555) in
    Printf.sprintf "closed=%b out=%s new=%s echo=%s sibling=%s shut=%b panics=0"
      closed (outs_str os) (news_str os) (outs_str os2) (outs_str os3) st1.Sess.s_closed
  | _ -> "BADCASE"

let dispatch (drv : string) (args : string list) : string option =
  match drv with
  | "hostile" -> Some (drv_hostile args)
  | _ -> None
