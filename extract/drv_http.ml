(* drv_http.ml -- model-side drivers of work package "http" (C17); mirrors harness/src/drv_http.rs.
   Drivers http_* run Model/Http.v (the repaired code), httpL_* run Legacy/HttpLegacy.v (the pinned code). *)
open Model
open Util

let h = hex_of_bytes
let b = bytes_of_hex
let port s = n_of_int (int_of_string s)
let pi n = string_of_int (int_of_n n)

let drv_fhe args =
  match args with
  | [buf] -> (match find_header_end (b buf) with Some n -> "SOME " ^ pi n | None -> "NONE")
  | _ -> "BADCASE"

let drv_shp f args =
  match args with
  | [v; d] -> let (hst, p) = f (b v) (port d) in Printf.sprintf "OK %s %s" (h hst) (pi p)
  | _ -> "BADCASE"

let drv_dt f args =
  match args with
  | m :: t :: ls ->
    (match f (b m) (b t) (List.map b ls) with
     | HOk (((hst, p), path), c) -> Printf.sprintf "OK %s %s %s %d" (h hst) (pi p) (h path) (if c then 1 else 0)
     | HErr -> "ERR")
  | _ -> "BADCASE"

let parsed_str (p : hparsed) =
  let bu = Buffer.create 256 in
  Buffer.add_string bu (Printf.sprintf "OK %s %s %s %s %s %d %s %d" (h p.hp_method) (h p.hp_version) (h p.hp_host)
    (pi p.hp_port) (h p.hp_path) (if p.hp_connect then 1 else 0) (h p.hp_body) (List.length p.hp_headers));
  List.iter (fun l -> Buffer.add_char bu ' '; Buffer.add_string bu (h l)) p.hp_headers;
  Buffer.contents bu

let drv_parse f args =
  match args with
  | [hd; body] -> (match f (b hd) (b body) with HOk p -> parsed_str p | HErr -> "ERR")
  | _ -> "BADCASE"

let drv_build f args =
  match args with
  | m :: v :: hst :: p :: path :: c :: body :: ls ->
    let r = { hp_method = b m; hp_version = b v; hp_host = b hst; hp_port = port p; hp_path = b path;
              hp_connect = (c = "1"); hp_headers = List.map b ls; hp_body = b body } in
    "OK " ^ h (f r)
  | _ -> "BADCASE"

let rec take n l = if n <= 0 then [] else match l with [] -> [] | x :: r -> x :: take (n - 1) r
let rec drop n l = if n <= 0 then l else match l with [] -> [] | _ :: r -> drop (n - 1) r

let drv_fwd parse build args =
  match args with
  | [buf] ->
    let buf = b buf in
    (match find_header_end buf with
     | None -> "INCOMPLETE"
     | Some e ->
       let e = int_of_n e in
       (match parse (take e buf) (drop e buf) with
        | HErr -> "ERR"
        | HOk p ->
          let out = if p.hp_connect then [] else build p in
          Printf.sprintf "OK %s %s %d %s %s" (h p.hp_host) (pi p.hp_port) (if p.hp_connect then 1 else 0) (h out) (h p.hp_body)))
  | _ -> "BADCASE"

(* http_read <eof> <segment>... : the segments reach the loop as reads of at most http_read_chunk bytes *)
let drv_read rd args =
  match args with
  | eof :: segs ->
    let chunks = tcp_reads (List.map b segs) in
    (match rd [] chunks (eof = "1") with
     | RhOk (hd, rest, remaining) -> Printf.sprintf "OK %s %s" (h hd) (h (List.concat (rest :: remaining)))
     | RhTooLarge | RhClosed -> "ERR"
     | RhPending _ -> "PENDING")
  | _ -> "BADCASE"

(* http_e2e <open_ok> <resp> <want_stream_len> <want_reply> <segment>... (the hints are for the implementation driver) *)
let drv_e2e hd args =
  match args with
  | ok :: _resp :: _wl :: _wr :: segs ->
    let ok = (ok = "1") in
    let evs = hd (tcp_reads (List.map b segs)) false ok in
    let opn = ref "NOOPEN" and reply = ref "NONE" and seen_open = ref false and ord = ref true in
    List.iter (fun e -> match e with
        | EvOpen (hst, p) -> opn := Printf.sprintf "OPEN %s %s" (h hst) (pi p); seen_open := true
        | EvReply c -> reply := pi c; if not !seen_open then ord := false
        | EvSend _ -> ()) evs;
    let relayed = !seen_open && ok && (_resp <> "-") in
    Printf.sprintf "%s %s %s %d %s" !opn !reply (if !ord then "ORD1" else "ORD0") (if relayed then 1 else 0) (h (sent_bytes evs))
  | _ -> "BADCASE"

let dispatch (drv : string) (args : string list) : string option =
  match drv with
  | "http_fhe" -> Some (drv_fhe args)
  | "http_shp" -> Some (drv_shp split_host_port args)
  | "http_dt" -> Some (drv_dt determine_target args)
  | "http_parse" -> Some (drv_parse parse_http_request args)
  | "http_build" -> Some (drv_build build_forward_request args)
  | "http_fwd" -> Some (drv_fwd parse_http_request build_forward_request args)
  | "http_read" -> Some (drv_read read_header args)
  | "http_e2e" -> Some (drv_e2e handle args)
  | "httpL_shp" -> Some (drv_shp split_host_port_cur args)
  | "httpL_dt" -> Some (drv_dt determine_target_cur args)
  | "httpL_parse" -> Some (drv_parse parse_http_request_cur args)
  | "httpL_build" -> Some (drv_build build_forward_request_cur args)
  | "httpL_fwd" -> Some (drv_fwd parse_http_request_cur build_forward_request_cur args)
  | "httpL_read" -> Some (drv_read read_header_cur args)
  | "httpL_e2e" -> Some (drv_e2e handle_cur args)
  | _ -> None
