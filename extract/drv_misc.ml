(* drv_misc.ml -- model-side drivers of work package "misc" (see docs/AGENT_GUIDE.md)

   C18:  cert <check_expiry 0|1> <nblobs> <hex|C|K>{nblobs} <op>...
   The extracted CertReload model is run with the environment functions (PEM parsing, key match,
   X.509 analysis) instantiated from the classification carried by each blob token:
     C (the blob used as certificate file):  n                      no PEM certificate in it
                                             b                      PEM block present, DER unusable
                                             c~<leaf fp>~<key id>~<identity>~<not_after offset, s>
     K (the blob used as key file):          n | b | k~<key id>
   The classification is produced by the Python side from how the material was constructed; the hex
   bytes are ignored here (the implementation side ignores the classification). Clock: wall = 0,
   not_after = offset * 1e9, cr_mono = index of the operation. *)
open Model
open Util

type cclass = CNone | CBad | CCert of string * string * string * int   (* fp, key id, identity, off *)
type kclass = KNone | KBad | KKey of string

let split c s = String.split_on_char c s

let parse_blob (tok : string) : cclass * kclass =
  match split '|' tok with
  | [_; c; k] ->
    let cc = match split '~' c with
      | ["n"] -> CNone
      | ["b"] -> CBad
      | ["c"; fp; kid; ident; off] -> CCert (fp, kid, ident, int_of_string off)
      | _ -> failwith "bad cert class" in
    let kc = match split '~' k with
      | ["n"] -> KNone
      | ["b"] -> KBad
      | ["k"; kid] -> KKey kid
      | _ -> failwith "bad key class" in
    (cc, kc)
  | _ -> failwith "bad blob token"

let drv_cert args =
  match args with
  | ce :: nb :: rest ->
    let check_expiry = (ce = "1") in
    let n = int_of_string nb in
    let blobs = Array.of_list (List.filteri (fun i _ -> i < n) rest) in
    let cls = Array.map parse_blob blobs in
    let ops = List.filteri (fun i _ -> i >= n) rest in
    (* environment *)
    let parse_certs (i : int) : (string * string) option =
      match fst cls.(i) with CNone -> None | CBad -> Some ("bad", "") | CCert (fp, kid, _, _) -> Some (fp, kid) in
    let parse_key (i : int) : string option =
      match snd cls.(i) with KNone -> None | KBad -> Some "bad" | KKey kid -> Some kid in
    let pair_ok ((fp, kid) : string * string) (k : string) : bool = fp <> "bad" && k <> "bad" && kid = k in
    let parse_info (i : int) : (string * z) option =
      match fst cls.(i) with
      | CCert (_, _, ident, off) -> Some (ident, z_of_int (off * 1_000_000_000))
      | _ -> None in
    let blob tok = if tok = "-" then None else Some (int_of_string tok) in
    let clock step = { cr_wall_an = Z0; cr_wall_chk = Z0; cr_mono = z_of_int step } in
    let disk_c = ref None and disk_k = ref None in
    let sys : ((int, string * string, string, string) cr_sys) option ref = ref None in
    (* accepted connections / sessions survive a new reloader, as in the impl driver *)
    let out = Buffer.create 256 in
    let emit s = if Buffer.length out > 0 then Buffer.add_char out ' '; Buffer.add_string out s in
    let observe (st : (int, string * string, string, string) cr_state) =
      Printf.sprintf "[leaf=%s info=%s cnt=%d last=%s]"
        (fst st.cr_active.l_chain)
        (match st.cr_info with None -> "none" | Some i -> i.ci_ident)
        (int_of_n st.cr_count)
        (match st.cr_last with None -> "none" | Some z -> string_of_int (int_of_z z)) in
    let errs = function CrIo -> "io" | CrTls -> "tls" in
    let do_new step rd =
      match cr_new parse_certs parse_key pair_ok parse_info rd (clock step) with
      | Inl st ->
        let (cs, ss) = match !sys with Some s -> (s.cr_conns, s.cr_sess) | None -> ([], []) in
        sys := Some { cr_rl = st; cr_conns = cs; cr_sess = ss };
        emit ("new=ok " ^ observe st)
      | Inr e -> emit ("new=err:" ^ errs e) in
    let do_reload step rd =
      match !sys with
      | None -> emit "r=noreloader"
      | Some s ->
        let (_, r) = cr_reload parse_certs parse_key pair_ok parse_info check_expiry s.cr_rl rd (clock step) in
        let s' = cr_step parse_certs parse_key pair_ok parse_info check_expiry s (CrReload (rd, clock step)) in
        sys := Some s';
        let rs = match r with CrOk -> "ok" | CrErr e -> "err:" ^ errs e | CrPanic -> "panic" in
        emit ("r=" ^ rs ^ " " ^ observe s'.cr_rl) in
    List.iteri (fun step op ->
        match split ':' op with
        | ["Wc"; i] -> disk_c := blob i
        | ["Wk"; i] -> disk_k := blob i
        | ["Dc"] -> disk_c := None
        | ["Dk"] -> disk_k := None
        | ["N"] -> do_new step { rd_cert = !disk_c; rd_key = !disk_k; rd_cert2 = !disk_c }
        | ["R"] -> do_reload step { rd_cert = !disk_c; rd_key = !disk_k; rd_cert2 = !disk_c }
        | ["NN"; c1; k; c2] ->
          do_new step { rd_cert = blob c1; rd_key = blob k; rd_cert2 = blob c2 };
          disk_c := blob c2; disk_k := blob k
        | ["RR"; c1; k; c2] ->
          do_reload step { rd_cert = blob c1; rd_key = blob k; rd_cert2 = blob c2 };
          disk_c := blob c2; disk_k := blob k
        | ["A"] ->
          (match !sys with
           | None -> emit "a=noreloader"
           | Some s ->
             let s' = cr_step parse_certs parse_key pair_ok parse_info check_expiry s CrAccept in
             sys := Some s';
             emit (Printf.sprintf "a=%d" (List.length s'.cr_conns - 1)))
        | ["H"; j] ->
          (match (match !sys with None -> None | Some s -> cr_served_conn s (nat_of_int (int_of_string j))) with
           | None -> emit "h=noconn"
           | Some ch -> emit ("h=" ^ fst ch))
        | ["E"] ->
          (match !sys with
           | None -> emit "e=noreloader"
           | Some s ->
             let s' = cr_step parse_certs parse_key pair_ok parse_info check_expiry s CrEstablish in
             sys := Some s';
             let j = List.length s'.cr_sess - 1 in
             (match cr_served_sess s' (nat_of_int j) with
              | Some ch -> emit (Printf.sprintf "e=%d:%s" j (fst ch))
              | None -> emit "e=fail"))
        | ["P"; j] ->
          (match (match !sys with None -> None | Some s -> cr_served_sess s (nat_of_int (int_of_string j))) with
           | None -> emit "p=nosession"
           | Some ch -> emit ("p=" ^ fst ch))
        | _ -> emit "BADOP") ops;
    Buffer.contents out
  | _ -> "BADCASE"

let dispatch (drv : string) (args : string list) : string option =
  match drv with
  | "cert" -> Some (drv_cert args)
  | _ -> None
