(* drv_padding.ml -- model-side drivers of work package "padding" (C04, C05, C19).
   Same line protocol and the same canonical output as harness/src/drv_padding.rs.
   md5 (a function argument of the model) is instantiated with OCaml's Digest (MD5). *)
open Model
open Util

let string_of_bytes (l : n list) : string =
  let b = Buffer.create 64 in
  List.iter (fun x -> Buffer.add_char b (Char.chr (int_of_n x))) l;
  Buffer.contents b
let bytes_of_string (s : string) : n list =
  List.init (String.length s) (fun i -> small.(Char.code s.[i]))
let md5_str (raw : n list) : string = Digest.to_hex (Digest.string (string_of_bytes raw))
let md5 (raw : n list) : n list = bytes_of_string (md5_str raw)

(* decimal string -> Z, any size *)
let z_of_string (s : string) : z =
  let neg = String.length s > 0 && s.[0] = '-' in
  let body = if neg then String.sub s 1 (String.length s - 1) else s in
  let ten = z_of_int 10 in
  let v = ref Z0 in
  String.iter (fun c -> v := Z.add (Z.mul !v ten) (z_of_int (Char.code c - 48))) body;
  if neg then Z.opp !v else !v
let n_of_string (s : string) : n = Z.to_N (z_of_string s)
(* decimal rendering of arbitrarily large positives: double-and-add on a little-endian digit list *)
let dec_double_add (digits : int list) (carry0 : int) : int list =
  let rec go ds carry = match ds with
    | [] -> if carry = 0 then [] else [carry]
    | d :: t -> let v = 2 * d + carry in (v mod 10) :: go t (v / 10) in
  go digits carry0
let rec dec_of_pos (p : positive) : int list =
  match p with XH -> [1] | XO q -> dec_double_add (dec_of_pos q) 0 | XI q -> dec_double_add (dec_of_pos q) 1
let string_of_pos (p : positive) : string =
  String.concat "" (List.rev_map string_of_int (dec_of_pos p))
let string_of_z (x : z) : string =
  match x with Z0 -> "0" | Zpos p -> string_of_pos p | Zneg p -> "-" ^ string_of_pos p

let pattern len a b : n list = List.init len (fun i -> small.((a + b * i) land 255))

let writes_tokens (ws : n list list) : string =
  String.concat "" (List.map (fun w -> "W " ^ hex_of_bytes w ^ " ") ws)

let parse_draws (tok : string) : z list list =
  (* draws=<d,d;d;...> one `;`-separated group per transport packet *)
  let body = String.sub tok 6 (String.length tok - 6) in
  List.map (fun g -> if g = "" then [] else List.map z_of_string (String.split_on_char ',' g))
    (String.split_on_char ';' body)

let find_draws args =
  match List.filter (fun a -> String.length a >= 6 && String.sub a 0 6 = "draws=") args with
  | t :: _ -> parse_draws t
  | [] -> []

let drv_pfnew args =
  match args with
  | raw :: _ ->
    let raw = bytes_of_hex raw in
    (match factory_new raw with
     | Some sc -> Printf.sprintf "OK %s %s" (string_of_int (int_of_n sc.sc_stop)) (md5_str raw)
     | None -> "ERR")
  | _ -> "BADCASE"

let entry_str = function
  | ECheck -> "c"
  | ERange (lo, hi) -> string_of_z lo ^ "-" ^ string_of_z hi

let drv_sizes args =
  match args with
  | raw :: pkt :: _ ->
    (match factory_new (bytes_of_hex raw) with
     | Some sc -> "E" ^ String.concat "" (List.map (fun e -> " " ^ entry_str e) (line_entries sc (n_of_string pkt)))
     | None -> "ERR")
  | _ -> "BADCASE"

let auth_hash : n list = List.init 32 (fun i -> small.(0xa0 + i))

let drv_auth args =
  match args with
  | raw :: _ ->
    (match factory_new (bytes_of_hex raw) with
     | Some sc ->
       let d = match find_draws args with g :: _ -> g | [] -> [] in
       writes_tokens (auth_writes auth_hash (sizes (line_entries sc N0) d)) ^ "| "
     | None -> "ERR")
  | _ -> "BADCASE"

let settings_bytes (sc : scheme) : n list =
  let kv = client_settings md5 sc in
  let lines = List.map (fun (k, v) -> string_of_bytes k ^ "=" ^ string_of_bytes v) kv in
  bytes_of_string (String.concat "\n" lines)

let mkframe c sid data = { fcmd = cmd_of_byte (n_of_int c); fsid = n_of_string sid; fdata = data }

let shaped_tokens = function
  | Crash -> "PANIC "
  | Writes ws -> writes_tokens ws ^ "| "

let drv_shape args =
  match args with
  | role :: raw :: ops ->
    (match factory_new (bytes_of_hex raw) with
     | None -> "ERR"
     | Some sc ->
       let draws = ref (find_draws args) in
       let next_draws () = match !draws with g :: r -> draws := r; g | [] -> [] in
       let st = ref (sess_new (role = "c") sc) in
       let out = Buffer.create 1024 in
       let crashed = ref false in
       let write_frame (f : frame) : bool =
         match encode f with
         | None -> false
         | Some e ->
           let d = if !st.cs_buffering then [] else next_draws () in
           let (s', r) = sess_write !st d e in
           st := s';
           (match r with
            | None -> ()
            | Some Crash -> crashed := true
            | Some sh -> Buffer.add_string out (shaped_tokens sh));
           true in
       List.iter (fun op ->
           if !crashed || (String.length op >= 6 && String.sub op 0 6 = "draws=") then ()
           else begin
             let ok =
               if op = "S" then begin
                 st := sess_set_buffering !st true;
                 write_frame { fcmd = Settings; fsid = N0; fdata = settings_bytes !st.cs_scheme }
               end else if op = "U" then (st := sess_set_buffering !st false; true)
               else if String.length op > 2 && String.sub op 0 2 = "F:" then begin
                 match String.split_on_char '.' (String.sub op 2 (String.length op - 2)) with
                 | [c; sid; len; a; b] ->
                   write_frame (mkframe (int_of_string c) sid (pattern (int_of_string len) (int_of_string a) (int_of_string b)))
                 | _ -> failwith "bad F"
               end else if String.length op > 2 && String.sub op 0 2 = "D:" then begin
                 match String.split_on_char '.' (String.sub op 2 (String.length op - 2)) with
                 | [sid; len; a; b] ->
                   let data = ref (pattern (int_of_string len) (int_of_string a) (int_of_string b)) in
                   let ok = ref true in
                   let rec take k l acc = if k = 0 then (List.rev acc, l) else match l with x :: t -> take (k - 1) t (x :: acc) | [] -> (List.rev acc, []) in
                   while !ok && List.length !data > 65535 do
                     let (h, t) = take 65535 !data [] in
                     data := t;
                     ok := write_frame (mkframe 2 sid h)
                   done;
                   if !ok then write_frame (mkframe 2 sid !data) else false
                 | _ -> failwith "bad D"
               end else failwith ("bad op " ^ op) in
             if not !crashed then begin
               if not ok then Buffer.add_string out "E ";
               Buffer.add_string out "; "
             end
           end) ops;
       if !crashed then "PANIC" else Buffer.contents out)
  | _ -> "BADCASE"

(* ------------------------------------------------------------------ C19 *)
let lens (ws : n list list) : string =
  match ws with
  | [] -> "-"
  | _ -> String.concat "," (List.map (fun w -> string_of_int (List.length w)) ws)

let settings_canon (data : n list) : string =
  let ls = String.split_on_char '\n' (string_of_bytes data) in
  String.concat "," (List.sort compare ls)

let frames_summary (fs : frame list) : string =
  match fs with
  | [] -> "-"
  | _ ->
    String.concat "~" (List.map (fun f ->
        let c = int_of_n (byte_of_cmd f.fcmd) in
        match f.fcmd with
        | UpdatePaddingScheme -> "upd:" ^ md5_str f.fdata
        | Settings | ServerSettings -> Printf.sprintf "%d:%s" c (settings_canon f.fdata)
        | Waste -> Printf.sprintf "0:%d" (List.length f.fdata)
        | _ -> Printf.sprintf "%d:%d:%d" c (int_of_n f.fsid) (List.length f.fdata)) fs)

type c19sess = { mutable cs : csess; srv : scheme option; mutable settings_frame : n list }

let drv_c19 args =
  let out = Buffer.create 1024 in
  let p = ref proc_init in
  let client : scheme option ref = ref None in
  let sessions : c19sess list ref = ref [] in
  let nth i = List.nth !sessions i in
  let result = ref None in
  let enc f = match encode f with Some e -> e | None -> failwith "encode" in
  let draws = ref (find_draws args) in
  let next_draws () = match !draws with g :: r -> draws := r; g | [] -> [] in
  let burst (s : c19sess) (f : frame) : string =
    let (s', r) = sess_write s.cs (next_draws ()) (enc f) in
    s.cs <- s';
    match r with
    | Some (Writes ws) ->
      let (fs, rest) = decode_all (List.concat ws) in
      Printf.sprintf "ok %s %s %d" (lens ws) (frames_summary fs) (List.length rest)
    | Some Crash -> "PANIC"
    | None -> "ok - - 0" in
  List.iter (fun op ->
      if !result <> None || (String.length op >= 6 && String.sub op 0 6 = "draws=") then ()
      else if op = "D" then begin
        let (_, p') = proc_default !p in p := p'; Buffer.add_string out "D "
      end else if op = "Q" then begin
        let (d, p') = proc_default !p in p := p';
        Buffer.add_string out (Printf.sprintf "Q %s " (md5_str d.sc_raw))
      end else begin
        let tag = String.sub op 0 2 and body = String.sub op 2 (String.length op - 2) in
        match tag with
        | "C:" ->
          if body = "default" then begin
            let (d, p') = proc_default !p in p := p'; client := Some d; Buffer.add_string out "C "
          end else begin
            match factory_new (bytes_of_hex body) with
            | Some sc -> client := Some sc; Buffer.add_string out "C "
            | None -> result := Some "CLIENT-SCHEME-ERR"
          end
        | "N:" ->
          let srv = if body = "-" then Some None
            else (match factory_new (bytes_of_hex body) with Some s -> Some (Some s) | None -> None) in
          (match srv, !client with
           | None, _ -> result := Some "SERVER-SCHEME-ERR"
           | _, None -> failwith "C before N"
           | Some srv, Some cl ->
             let sc = session_padding !p cl in
             let aw = auth_writes auth_hash (sizes (line_entries sc N0) []) in
             let all = List.concat aw in
             let plen = match List.nth_opt all 32, List.nth_opt all 33 with
               | Some a, Some b -> int_of_n a * 256 + int_of_n b | _ -> 99999999 in
             Buffer.add_string out (Printf.sprintf "N %d %d " (List.length all) plen);
             (* start_client: Settings is buffered; the client (built with a heartbeat configuration)
                then buffers one HeartRequest *)
             let s = { cs = sess_set_buffering (sess_new true sc) true; srv; settings_frame = [] } in
             let sf = { fcmd = Settings; fsid = N0; fdata = settings_bytes sc } in
             s.settings_frame <- sf.fdata;
             let (s1, _) = sess_write s.cs [] (enc sf) in
             let (s2, _) = sess_write s1 [] (enc { fcmd = HeartRequest; fsid = N0; fdata = [] }) in
             s.cs <- s2;
             sessions := !sessions @ [s])
        | "K:" ->
          let s = nth (int_of_string body) in
          s.cs <- sess_set_buffering s.cs false;
          let b = burst s { fcmd = Syn; fsid = n_of_int 1; fdata = [] } in
          let srv_txt =
            match s.srv with
            | None -> "-"
            | Some srv ->
              let pushed = server_on_settings md5 srv (parse_map s.settings_frame) in
              (match pushed with
               | Some raw ->
                 let (p', cs') = on_update !p s.cs raw in
                 p := p'; s.cs <- cs';
                 "upd:" ^ md5_str raw ^ "~"
               | None -> "") ^ "10:v=2~9:0:0" in
          Buffer.add_string out (Printf.sprintf "K %s %s " b srv_txt)
        | "P:" ->
          (match String.split_on_char ':' body with
           | [i; raw] ->
             let s = nth (int_of_string i) in
             let (p', cs') = on_update !p s.cs (bytes_of_hex raw) in
             p := p'; s.cs <- cs';
             Buffer.add_string out "P open "
           | _ -> failwith "bad P")
        | "W:" ->
          (match String.split_on_char ':' body with
           | [i; len] ->
             let s = nth (int_of_string i) in
             let b = burst s { fcmd = Push; fsid = n_of_int 1; fdata = pattern (int_of_string len) 1 1 } in
             Buffer.add_string out (Printf.sprintf "W %s " b)
           | _ -> failwith "bad W")
        | _ -> failwith ("bad op " ^ op)
      end) args;
  match !result with
  | Some r -> r
  | None -> Buffer.contents out

let dispatch (drv : string) (args : string list) : string option =
  match drv with
  | "pfnew" -> Some (drv_pfnew args)
  | "sizes" -> Some (drv_sizes args)
  | "auth" -> Some (drv_auth args)
  | "shape" -> Some (drv_shape args)
  | "c19" -> Some (drv_c19 args)
  | _ -> None
