(* drv_padding.ml -- model-side drivers of work package "padding" (see docs/AGENT_GUIDE.md) *)
open Model
open Util

let dispatch (drv : string) (args : string list) : string option =
  ignore args;
  match drv with
  | _ -> None
