(* drv_parsers.ml -- model-side drivers of work package "parsers" (C06, C07, C15, C16).
   Line protocol documented in harness/src/drv_parsers.rs (same drivers, same output). *)
open Model
open Util

let errname (e : n) : string =
  match int_of_n e with
  | 1 -> "EOF" | 2 -> "AUTH" | 3 -> "ATYP" | 4 -> "LEN" | 5 -> "UTF8" | 6 -> "VER" | 7 -> "FMT" | 8 -> "BIG"
  | k -> "E" ^ string_of_int k

let dest_str (d : dest) : string =
  match d with
  | DV4 a -> "V4:" ^ hex_of_bytes a
  | DV6 a -> "V6:" ^ hex_of_bytes a
  | DName n -> "N:" ^ hex_of_bytes n

let chunks_of args = List.map bytes_of_hex args
let closed_of s = (s = "1")

(* authsrv <hashhex> <eof> <chunk>... *)
let drv_auth args =
  match args with
  | h :: eof :: chunks ->
    let st = rd_of_chunks (chunks_of chunks) (closed_of eof) in
    (match run_rd (auth_prog (bytes_of_hex h)) st with
     | (st', SDone _) -> "OK " ^ hex_of_bytes (rd_pending_bytes st')
     | (_, SFail e) -> "ERR " ^ errname e
     | (_, SPending) -> "PENDING")
  | _ -> "BADCASE"

(* destdec <eof> <chunk>... *)
let drv_destdec prog args =
  match args with
  | eof :: chunks ->
    let st = rd_of_chunks (chunks_of chunks) (closed_of eof) in
    (match run_rd prog st with
     | (st', SDone (d, p)) ->
       Printf.sprintf "OK %s %d %s" (dest_str d) (int_of_n p) (hex_of_bytes (rd_pending_bytes st'))
     | (_, SFail e) -> "ERR " ^ errname e
     | (_, SPending) -> "PENDING")
  | _ -> "BADCASE"

(* destenc <hosthex> <port> <class>   class = n | 4:<octets> | 6:<octets> (the parse oracles' answers) *)
let drv_destenc args =
  match args with
  | [host; port; cls] ->
    let hostb = bytes_of_hex host in
    let p4 = fun _ -> if String.length cls > 2 && cls.[0] = '4' then Some (bytes_of_hex (String.sub cls 2 (String.length cls - 2))) else None in
    let p6 = fun _ -> if String.length cls > 2 && cls.[0] = '6' then Some (bytes_of_hex (String.sub cls 2 (String.length cls - 2))) else None in
    (match client_encode p4 p6 hostb (n_of_int (int_of_string port)) with
     | Some w -> "OK " ^ hex_of_bytes w
     | None -> "ERR")
  | _ -> "BADCASE"

(* dns <resolver table> <op>...
   table: name=ip,ip;name=ip   (hex names, hex octets; "-" = empty table)
   ops:   s:<name>:<ip>.<port>,<ip>.<port>:<age_ms>   seed
          r:<name>:<port>[:<lit>]                     request (lit = octets if the host is an IP literal)
          c                                           clear
   op i happens at model time i (ms) *)
let split_on c s = List.filter (fun t -> t <> "") (String.split_on_char c s)
let drv_dns args =
  match args with
  | table :: ops ->
    let tbl =
      if table = "-" then []
      else List.map (fun ent ->
          match String.split_on_char '=' ent with
          | [nm; ips] -> (bytes_of_hex nm, List.map bytes_of_hex (split_on ',' ips))
          | _ -> failwith "table") (split_on ';' table) in
    let resolve _ host = try List.assoc host tbl with Not_found -> [] in
    let cache = ref [] in
    let out = Buffer.create 64 in
    List.iteri (fun i op ->
        let now = z_of_int i in
        match String.split_on_char ':' op with
        | ["c"] -> cache := []
        | ["s"; nm; addrs; age] ->
          let al = List.map (fun a ->
              match String.split_on_char '.' a with
              | [ip; p] -> (bytes_of_hex ip, n_of_int (int_of_string p))
              | _ -> failwith "addr") (split_on ',' addrs) in
          cache := cache_seed !cache now (bytes_of_hex nm) al (z_of_int (int_of_string age))
        | "r" :: nm :: port :: lit ->
          let parse_ip _ = match lit with [l] -> Some (bytes_of_hex l) | _ -> None in
          let (c', r) = dns_request parse_ip resolve !cache now (bytes_of_hex nm) (n_of_int (int_of_string port)) in
          cache := c';
          (match r with
           | Some (ip, p) -> Buffer.add_string out (Printf.sprintf "%s.%d " (hex_of_bytes ip) (int_of_n p))
           | None -> Buffer.add_string out "ERR ")
        | _ -> failwith "op") ops;
    Buffer.contents out
  | _ -> "BADCASE"

let side_c s = (s = "c")

(* udpenc <side> <payloadhex> *)
let drv_udpenc args =
  match args with
  | [side; d] ->
    (match udp_encode (udp_max (side_c side)) (bytes_of_hex d) with
     | Some w -> "OK " ^ hex_of_bytes w
     | None -> "ERR")
  | _ -> "BADCASE"

(* udpdec <side> <eof> <chunk>... *)
let drv_udpdec args =
  match args with
  | side :: eof :: chunks ->
    let (ds, e) = udp_stream_rd (udp_stop (side_c side)) (udp_max (side_c side)) (chunks_of chunks) (closed_of eof) in
    let b = Buffer.create 256 in
    List.iter (fun d -> Buffer.add_string b ("D " ^ hex_of_bytes d ^ " ")) ds;
    Buffer.add_string b (match e with
        | SDone _ -> "END STOP"
        | SFail x -> "END ERR " ^ errname x
        | SPending -> "END PENDING");
    Buffer.contents b
  | _ -> "BADCASE"

(* socksreq <eof> <chunk>... *)
let drv_socksreq args =
  match args with
  | eof :: chunks ->
    let st = rd_of_chunks (chunks_of chunks) (closed_of eof) in
    (match run_rd request_prog st with
     | (st', SDone q) ->
       Printf.sprintf "OK %d %s %d %s" (int_of_n q.q_cmd) (dest_str q.q_dest) (int_of_n q.q_port)
         (hex_of_bytes (rd_pending_bytes st'))
     | (_, SFail e) -> "ERR " ^ errname e
     | (_, SPending) -> "PENDING")
  | _ -> "BADCASE"

(* socks <open_ok> <eof> <chunk>... *)
let drv_socks args =
  match args with
  | ok :: eof :: chunks ->
    let evs = socks_session_rd (fun _ _ -> ok = "1") (chunks_of chunks) (closed_of eof) in
    let w = Buffer.create 32 and opn = ref "-" and fwd = ref "-" and tun = ref false and ended = ref false in
    List.iter (fun e ->
        match e with
        | SWrite b -> List.iter (fun x -> Buffer.add_string w (Printf.sprintf "%02x" (int_of_n x))) b
        | SOpen (d, p) -> opn := Printf.sprintf "%s/%d" (dest_str d) (int_of_n p)
        | STunnel f -> tun := true; fwd := hex_of_bytes f
        | SEnd -> ended := true) evs;
    Printf.sprintf "W=%s OPEN=%s TUNNEL=%d FWD=%s END=%d"
      (if Buffer.length w = 0 then "-" else Buffer.contents w) !opn (if !tun then 1 else 0) !fwd (if !ended then 1 else 0)
  | _ -> "BADCASE"

let dispatch (drv : string) (args : string list) : string option =
  match drv with
  | "authsrv" -> Some (drv_auth args)
  | "destdec" -> Some (drv_destdec dest_prog args)
  | "udpinit" -> Some (drv_destdec udp_init_prog (List.tl args))
  | "destenc" -> Some (drv_destenc args)
  | "dns" -> Some (drv_dns args)
  | "udpenc" -> Some (drv_udpenc args)
  | "udpdec" -> Some (drv_udpdec args)
  | "socksreq" -> Some (drv_socksreq args)
  | "socks" -> Some (drv_socks args)
  | _ -> None
