(* drv_session.ml -- model-side drivers of work package "session" (see docs/AGENT_GUIDE.md)
     ss   : two model sessions (c = client, s = server) driven by an operation script (C01, C02, C08)
     c10  : a client session with n pending opens against a timed event script (C10)
   Trusted glue only: parsing, the shared payload generator / hash, bookkeeping of wires and logs.
   Every protocol decision is taken by the extracted functions of module Sess. *)
open Model
open Util

let fnv (l : n list) : int =
  List.fold_left (fun h b -> ((h lxor (int_of_n b)) * 0x01000193) land 0xffffffff) 0x811c9dc5 l

let gen_byte (side : char) (sid : int) (off : int) : int =
  (sid * 37 + off * 11 + (off lsr 8) * 3 + (if side = 's' then 128 else 0)) land 255

let gen (side : char) (sid : int) (off : int) (len : int) : n list =
  let rec go i acc = if i < 0 then acc else go (i - 1) (small.(gen_byte side sid (off + i)) :: acc) in
  go (len - 1) []

let data_tok (b : n list) : string =
  let len = List.length b in
  if len <= 64 then "d" ^ hex_of_bytes b else Printf.sprintf "d%d.%08x" len (fnv b)

type side = {
  name : char;
  cfg : Sess.cfg;
  mutable st : Sess.sess;
  mutable carry : n list;
  mutable wire : n list list;          (* chunks written since the last relay, newest first *)
  mutable log : frame list;            (* frames written since the last L, newest first *)
  mutable shut : bool;                 (* transport writer shut down *)
  mutable shut_sent : bool;
  mutable news : int list;             (* NewStream ids since the last N, newest first *)
  offs : (int, int) Hashtbl.t;
}

let mk_side name role md5 scheme =
  let cfg = { Sess.c_role = role; Sess.c_md5 = md5; Sess.c_scheme = scheme } in
  { name; cfg; st = Sess.init_sess cfg; carry = []; wire = []; log = []; shut = false; shut_sent = false;
    news = []; offs = Hashtbl.create 8 }

let emit (s : side) (outs : Sess.out list) =
  List.iter (fun o ->
      match o with
      | Sess.Send f ->
        (match encode f with
         | Some e -> s.wire <- e :: s.wire; s.log <- f :: s.log
         | None -> ())
      | Sess.NewStream sid -> s.news <- int_of_n sid :: s.news
      | Sess.Closed -> s.shut <- true) outs

let next_payload (s : side) (sid : int) (len : int) : n list =
  let off = try Hashtbl.find s.offs sid with Not_found -> 0 in
  Hashtbl.replace s.offs sid (off + len);
  gen s.name sid off len

let rec take_n k l = if k <= 0 then [] else match l with [] -> [] | x :: r -> x :: take_n (k - 1) r
let rec drop_n k l = if k <= 0 then l else match l with [] -> [] | _ :: r -> drop_n (k - 1) r

(* cut b into fragments with the given sizes, used cyclically; size 0 = everything that is left *)
let fragments (sizes : int list) (b : n list) : n list list =
  let sizes = if sizes = [] then [0] else sizes in
  let arr = Array.of_list sizes in
  let rec go i b acc =
    match b with
    | [] -> List.rev acc
    | _ ->
      let k = arr.(i mod Array.length arr) in
      if k <= 0 then List.rev (b :: acc)
      else go (i + 1) (drop_n k b) (take_n k b :: acc) in
  go 0 b []

let wres_ok = function Sess.WOk -> true | _ -> false

let feed_side (s : side) (chunk : n list) =
  let ((st', carry'), outs) = Sess.recv s.cfg s.st s.carry chunk in
  s.st <- st'; s.carry <- carry'; emit s outs

let eof_side (s : side) =
  let (st', outs) = Sess.recv_eof s.st in
  s.st <- st'; emit s outs

let drv_ss args =
  match args with
  | scheme :: md5 :: _st :: ops ->
    let scheme = bytes_of_hex scheme and md5 = bytes_of_hex md5 in
    let c = mk_side 'c' Sess.Client md5 scheme and s = mk_side 's' Sess.Server md5 scheme in
    let side_of ch = if ch = "c" then c else s in
    let other x = if x == c then s else c in
    let out = Buffer.create 256 in
    let say t = Buffer.add_string out t; Buffer.add_char out ' ' in
    List.iter (fun op ->
        match String.split_on_char ':' op with
        | ["O"; sd] ->
          let x = side_of sd in
          let ((st', outs), r) = Sess.coq_open x.st in
          x.st <- st'; emit x outs;
          (match r with Some sid -> say (Printf.sprintf "o%d" (int_of_n sid)) | None -> say "o-")
        | ["W"; sd; sid; len] ->
          let x = side_of sd in
          let sid = int_of_string sid in
          let d = next_payload x sid (int_of_string len) in
          let (outs, r) = Sess.write_data x.st (n_of_int sid) d in
          emit x outs; say (if wres_ok r then "w+" else "w-")
        | ["V"; sd; sid; len1; len2] ->
          let x = side_of sd in
          let sid = int_of_string sid in
          let d1 = next_payload x sid (int_of_string len1) in
          let d2 = next_payload x sid (int_of_string len2) in
          let (outs1, r1) = Sess.write_data x.st (n_of_int sid) d1 in
          emit x outs1;
          let (outs2, r2) = Sess.write_data x.st (n_of_int sid) d2 in
          emit x outs2;
          say (Printf.sprintf "v%s%s" (if wres_ok r1 then "+" else "-") (if wres_ok r2 then "+" else "-"))
        | [("S" | "A") as kind; sd; sid; k; len] ->
          let x = side_of sd in
          let sid = int_of_string sid in
          let len = int_of_string len in
          let d = next_payload x sid len in
          if kind = "A" && len = 0 then begin
            (* AsyncWriteExt::write_all with an empty buffer does not call poll_write *)
            say "a+"
          end else begin
            let (st', r) = Sess.stream_send x.st (n_of_int sid) (nat_of_int (int_of_string k)) d in
            x.st <- st';
            let (st'', outs) = Sess.pump_all x.st in
            x.st <- st''; emit x outs;
            say ((if kind = "S" then "s" else "a") ^ (if wres_ok r then "+" else "-"))
          end
        | ["P"; sd; sid; data] ->
          let x = side_of sd in
          let (outs, r) = Sess.write_data x.st (n_of_int (int_of_string sid)) (bytes_of_hex data) in
          emit x outs; say (if wres_ok r then "w+" else "w-")
        | ["U"; sd; sid; k; data] ->
          let x = side_of sd in
          let (st', r) = Sess.stream_send x.st (n_of_int (int_of_string sid)) (nat_of_int (int_of_string k)) (bytes_of_hex data) in
          x.st <- st';
          let (st'', outs) = Sess.pump_all x.st in
          x.st <- st''; emit x outs;
          say (if wres_ok r then "s+" else "s-")
        | ["H"; sd; sid; k] ->
          let x = side_of sd in
          let (st', outs) = Sess.stream_shutdown x.st (n_of_int (int_of_string sid)) (nat_of_int (int_of_string k)) in
          x.st <- st'; emit x outs; say "h"
        | ["G"; sd; cmd; sid; data] ->
          let x = side_of sd in
          let f = { fcmd = cmd_of_byte (n_of_int (int_of_string cmd)); fsid = n_of_int (int_of_string sid);
                    fdata = bytes_of_hex data } in
          let (outs, r) = Sess.write_ctrl x.st f in
          emit x outs; say (if wres_ok r then "g+" else "g-")
        | ["R"; sd; data] ->
          feed_side (side_of sd) (bytes_of_hex data); say "r"
        | ["X"; sd; sizes] ->
          let x = side_of sd in
          let y = other x in
          let sizes = if sizes = "-" then [] else List.map int_of_string (String.split_on_char ',' sizes) in
          let bytes = List.concat (List.rev x.wire) in
          x.wire <- [];
          List.iter (fun ch -> if ch <> [] then feed_side y ch) (fragments sizes bytes);
          if x.shut && not x.shut_sent then begin x.shut_sent <- true; eof_side y end;
          say "x"
        | ["K"; _; _] -> say "k"
        | ["Q"; _] -> say "q"
        | ["D"; sd; sid; k; cap] ->
          let x = side_of sd in
          let (st', r) = Sess.read x.st (n_of_int (int_of_string sid)) (nat_of_int (int_of_string k))
              (n_of_int (int_of_string cap)) in
          x.st <- st';
          (match r with
           | Some (RData b) -> say (data_tok b)
           | Some REof -> say "e"
           | Some RPending -> say "p"
           | None -> say "x")
        | ["T"; sd] ->
          let x = side_of sd in
          let l = List.length x.st.Sess.tbl in
          say (Printf.sprintf "t%d.%d" l l)
        | ["C"; sd] ->
          let x = side_of sd in
          let (st', outs) = Sess.close x.st in
          x.st <- st'; emit x outs; say "c"
        | ["E"; sd] -> eof_side (side_of sd); say "z"
        | ["Y"; sd; sid; k] ->
          let x = side_of sd in
          (match Sess.obj x.st (n_of_int (int_of_string sid)) (nat_of_int (int_of_string k)) with
           | None -> say "yx"
           | Some o ->
             (match o.Sess.synack with
              | Sess.Pending -> say "yp"
              | Sess.Resolved Sess.SOk -> say "yo"
              | Sess.Resolved (Sess.SErr m) -> say (Printf.sprintf "ye%08x" (fnv m))
              | Sess.Resolved Sess.SClosed -> say "yc"))
        | ["V"; sd] -> say (Printf.sprintf "v%d" (int_of_n (side_of sd).st.Sess.peer_version))
        | ["L"; sd] ->
          let x = side_of sd in
          let fs = List.rev x.log in
          x.log <- [];
          if fs = [] then say "l-"
          else say ("l" ^ String.concat ","
                      (List.map (fun f -> Printf.sprintf "%d.%d.%d.%08x" (int_of_n (byte_of_cmd f.fcmd))
                                    (int_of_n f.fsid) (List.length f.fdata) (fnv f.fdata)) fs))
        | ["N"; sd] ->
          let x = side_of sd in
          let l = List.rev x.news in
          x.news <- [];
          if l = [] then say "n-" else say ("n" ^ String.concat "," (List.map string_of_int l))
        | _ -> say ("?" ^ op)) ops;
    Buffer.contents out
  | _ -> "BADCASE"

(* ---------------------------------------------------------------- c10 *)
(* events: <t>:ack:<sid>:<hexmsg> | <t>:fin:<sid> | <t>:psh:<sid> | <t>:syn:<sid> | <t>:alert | <t>:eof |
           <t>:rerr | <t>:close | <t>:hb *)
let drv_c10 args =
  match args with
  | nopen :: evs ->
    let nopen = int_of_string nopen in
    let cfg = { Sess.c_role = Sess.Client; Sess.c_md5 = []; Sess.c_scheme = [] } in
    let st = ref (Sess.init_sess cfg) in
    for _ = 1 to nopen do
      let ((st', _), _) = Sess.coq_open !st in st := st'
    done;
    let parse e =
      match String.split_on_char ':' e with
      | [t; "ack"; sid; msg] | [t; "ack"; sid; msg; _] -> (int_of_string t, 0, Sess.EFrame (Sess.mk SynAck (n_of_int (int_of_string sid)) (bytes_of_hex msg)))
      | [t; "fin"; sid] -> (int_of_string t, 0, Sess.EFrame (Sess.mk Fin (n_of_int (int_of_string sid)) []))
      | [t; "psh"; sid] -> (int_of_string t, 0, Sess.EFrame (Sess.mk Push (n_of_int (int_of_string sid)) [small.(1)]))
      | [t; "syn"; sid] -> (int_of_string t, 0, Sess.EFrame (Sess.mk Syn (n_of_int (int_of_string sid)) []))
      | [t; "alert"] -> (int_of_string t, 0, Sess.EFrame (Sess.mk Alert N0 [small.(120)]))
      | [t; "hb"] -> (int_of_string t, 0, Sess.EFrame (Sess.mk HeartRequest N0 []))
      | [t; "eof"] -> (int_of_string t, 0, Sess.EEof)
      | [t; "rerr"] -> (int_of_string t, 0, Sess.EEof)
      | [t; "close"] -> (int_of_string t, 0, Sess.EClose)
      | _ -> failwith ("bad event " ^ e) in
    let raw_sids = List.filter_map (fun e ->
        match String.split_on_char ':' e with
        | [_; "ack"; sid; _; "r"] -> Some (int_of_string sid)
        | _ -> None) evs in
    let evs = List.map parse evs in
    let timers = List.init nopen (fun i -> (30000, 1, Sess.ETimeout (n_of_int (i + 1)))) in
    let all = List.stable_sort (fun (a, pa, _) (b, pb, _) -> compare (a, pa) (b, pb)) (evs @ timers) in
    let result sid =
      let sidn = n_of_int sid in
      let rec go x = function
        | [] -> "hang"
        | (t, _, e) :: r ->
          let (st', w) = Sess.cstep cfg sidn x e in
          (match w with
           | Sess.Done Sess.OOk -> Printf.sprintf "ok@%d" t
           | Sess.Done (Sess.OErr m) ->
             if List.mem sid raw_sids then Printf.sprintf "srv.raw@%d" t
             else Printf.sprintf "srv.%08x@%d" (fnv m) t
           | Sess.Done Sess.OClosed -> Printf.sprintf "closed@%d" t
           | Sess.Done Sess.OTimeout -> Printf.sprintf "timeout@%d" t
           | Sess.Waiting -> go (st', w) r) in
      go (!st, Sess.Waiting) all in
    String.concat " " (List.init nopen (fun i -> result (i + 1)))
  | _ -> "BADCASE"

let dispatch (drv : string) (args : string list) : string option =
  match drv with
  | "ss" -> Some (drv_ss args)
  | "c10" -> Some (drv_c10 args)
  | _ -> None
