(* drv_timed.ml -- model-side drivers of work package "timed": pool / bpool (C12, C13), hb (C14) *)
open Model
open Util

let parse_op tok =
  match String.index_opt tok ':' with
  | None -> failwith "poolop token"
  | Some i ->
    let t = int_of_string (String.sub tok 0 i) in
    let rest = String.sub tok (i + 1) (String.length tok - i - 1) in
    let c = rest.[0] in
    let n = if String.length rest > 1 then int_of_string (String.sub rest 1 (String.length rest - 1)) else 0 in
    (t, c, n)

let snap_str with_tbl st =
  let (cnt, l) = pool_snapshot st in
  let b = Buffer.create 32 in
  Buffer.add_string b (Printf.sprintf "i%d" (int_of_n cnt));
  List.iter (fun (c, t) ->
      Buffer.add_string b (if c then ",C" else ",L");
      if with_tbl then Buffer.add_string b (string_of_int (int_of_n t))) l;
  Buffer.contents b

let res_str r =
  match r with
  | QUnit -> "-" | QNone -> "-"
  | QHit k -> Printf.sprintf "u%d" (int_of_nat k)
  | QMiss -> "p"
  | QNew k -> Printf.sprintf "n%d" (int_of_nat k)
  | QGot k -> Printf.sprintf "s%d" (int_of_nat k)

let drv_pool args =
  match args with
  | _i :: t :: m :: ops ->
    let cfg = { c_timeout = z_of_int (int_of_string t); c_min = n_of_int (int_of_string m) } in
    let st = ref pool_init in
    let out = ref [] in
    List.iter (fun tok ->
        let (at, c, n) = parse_op tok in
        let now = z_of_int at in
        let ap o = let (s, r) = pool_step cfg now !st o in st := s; r in
        let rs =
          match c with
          | 'r' -> res_str (match ap PAcq with QMiss -> ap PCreate | r -> r)
          | 'a' -> res_str (ap PAcq)
          | 'c' -> res_str (ap PCreate)
          | 'd' -> res_str (ap (PDone (nat_of_int n)))
          | 'D' ->
            (* every open stream is finished, whichever session carries it *)
            for k = 0 to 63 do for _ = 1 to 8 do ignore (ap (PDone (nat_of_int k))) done done; "-"
          | 'x' -> res_str (ap (PDie (nat_of_int n)))
          | 't' -> res_str (ap PTick)
          | 'b' ->
            (* n overlapping requests: all pass create_stream's decision before any dial completes *)
            let acq = List.init n (fun _ -> ap PAcq) in
            let hits = List.filter_map (fun r -> match r with QHit _ -> Some (res_str r) | _ -> None) acq in
            let misses = List.length (List.filter (fun r -> r = QMiss) acq) in
            let news = List.init misses (fun _ -> res_str (ap PCreate)) in
            String.concat "+" (List.sort compare (hits @ news))
          | _ -> "-" in
        out := (rs ^ "/" ^ snap_str true !st) :: !out) ops;
    String.concat " " (List.rev !out) ^ Printf.sprintf " dials=%d" (int_of_n (!st).p_dials)
  | _ -> "BADCASE"

(* bare get needs its own result spelling (s<k> | none) *)
let drv_bpool args =
  match args with
  | _i :: t :: m :: ops ->
    let cfg = { c_timeout = z_of_int (int_of_string t); c_min = n_of_int (int_of_string m) } in
    let st = ref pool_init in
    let out = ref [] in
    List.iter (fun tok ->
        let (at, c, n) = parse_op tok in
        let now = z_of_int at in
        let ap o = let (s, r) = pool_step cfg now !st o in st := s; r in
        let r =
          match c with
          | 'n' | 'N' -> ignore (ap (PNew (n_of_int n))); "-"
          | 'G' -> ignore (ap PTick); (match ap PGet with QGot k -> Printf.sprintf "s%d" (int_of_nat k) | _ -> "none")
          | 'E' -> ignore (ap PCleanup); (match ap PGet with QGot k -> Printf.sprintf "s%d" (int_of_nat k) | _ -> "none")
          | 'i' -> ignore (ap (PAdd (nat_of_int n))); "-"
          | 'g' -> (match ap PGet with QGot k -> Printf.sprintf "s%d" (int_of_nat k) | _ -> "none")
          | 'x' -> ignore (ap (PDie (nat_of_int n))); "-"
          | 'e' -> ignore (ap PCleanup); "-"
          | 't' -> ignore (ap PTick); "-"
          | _ -> "-" in
        out := (r ^ "/" ^ snap_str false !st) :: !out) ops;
    String.concat " " (List.rev !out)
  | _ -> "BADCASE"

let drv_hb args =
  match args with
  | _mode :: i :: t :: h :: script ->
    let sc = List.map (fun s -> if s = "x" then None else Some (z_of_int (int_of_string s))) script in
    let st = hb_sim (z_of_int (int_of_string i)) (z_of_int (int_of_string t)) (z_of_int (int_of_string h)) sc in
    let reqs = List.rev_map (fun z -> string_of_int (int_of_z z)) st.hb_sent in
    let q = String.concat " " ("q" :: reqs) in
    (match st.hb_closed with
     | Some c -> q ^ " | c " ^ string_of_int (int_of_z c)
     | None -> q ^ " | o")
  | _ -> "BADCASE"

let dispatch (drv : string) (args : string list) : string option =
  match drv with
  | "pool" -> Some (drv_pool args)
  | "poolreal" -> Some (drv_pool args)
  | "bpool" -> Some (drv_bpool args)
  | "hb" -> Some (drv_hb args)
  | _ -> None
