(* drv_tunnel.ml -- model side of the tunnel scenario (theorems C01_tunnel_prefix / _complete): source chunks -> front relay -> submissions of
   stream sid -> sender session (write_data_frame or send_data + forwarding task) -> wire -> receiver session ->
   reads of capacity cap -> back relay -> sink.  Trusted glue only: payload generator, cutting lists, printing;
   every decision is taken by the extracted functions of Relay and Sess. *)
open Model
open Util
open Drv_session

let cap = 8192

(* TcpStream::read into a buffer of `cap` bytes: a chunk the application wrote is returned in pieces of <= cap *)
let reads_of_chunks (chunks : n list list) : rd_ev list =
  List.concat_map (fun c -> List.map (fun p -> GotN p) (fragments [cap] c)) chunks @ [GotEof]

let all_ok (rs : rd_ev list) : (rd_ev * wr_ev) list = zip_ev rs []

(* one direction. sender_role submits through `via` ("wdf" = write_data_frame, "send" = send_data + pump) *)
let tunnel (sender_role : Sess.role) (via : string) (frag : int) (chunks : n list list) : n list =
  let recv_role = (match sender_role with Sess.Client -> Sess.Server | Sess.Server -> Sess.Client) in
  let cS = { Sess.c_role = sender_role; Sess.c_md5 = []; Sess.c_scheme = [] } in
  let cR = { Sess.c_role = recv_role; Sess.c_md5 = []; Sess.c_scheme = [] } in
  let sid = n_of_int 1 in
  (* both ends have stream 1: the client opened it, the server saw the SYN *)
  let client_cfg = (match sender_role with Sess.Client -> cS | Sess.Server -> cR) in
  let server_cfg = (match sender_role with Sess.Client -> cR | Sess.Server -> cS) in
  let ((cst, _), _) = Sess.coq_open (Sess.init_sess client_cfg) in
  let (sst, _) = Sess.handle server_cfg (Sess.init_sess server_cfg) (Sess.mk Syn sid []) in
  let stS = ref (match sender_role with Sess.Client -> cst | Sess.Server -> sst) in
  let stR = ref (match sender_role with Sess.Client -> sst | Sess.Server -> cst) in
  (* front relay *)
  let subs = relay (n_of_int cap) (all_ok (reads_of_chunks chunks)) in
  let frames = ref [] in
  let keep outs = List.iter (fun o -> match o with Sess.Send f -> frames := f :: !frames | _ -> ()) outs in
  List.iter (fun d ->
      if via = "wdf" then begin
        let (outs, _) = Sess.write_data !stS sid d in keep outs
      end else begin
        let (st', _) = Sess.stream_send !stS sid O d in
        stS := st';
        let (st'', outs) = Sess.pump_all !stS in
        stS := st''; keep outs
      end) subs;
  let wire = List.concat_map (fun f -> match encode f with Some e -> e | None -> []) (List.rev !frames) in
  (* receiver: transport reads of `frag` bytes, after each the relay drains the reader with reads of capacity cap *)
  let carry = ref [] and log = ref [] in
  let drain () =
    let go = ref true in
    while !go do
      match Sess.read !stR sid O (n_of_int cap) with
      | (st', Some res) ->
        stR := st'; log := ((sid, O), res) :: !log;
        (match res with RData _ -> () | _ -> go := false)
      | (_, None) -> go := false
    done in
  List.iter (fun ch ->
      let ((st', carry'), _) = Sess.recv cR !stR !carry ch in
      stR := st'; carry := carry'; drain ()) (fragments [frag] wire);
  to_target (n_of_int cap) sid O (List.rev !log) []

let sizes_of s = if s = "-" then [] else List.map int_of_string (String.split_on_char ',' s)
let cut (side : char) (sizes : int list) : n list list =
  let off = ref 0 in
  List.map (fun k -> let c = gen side 1 !off k in off := !off + k; c) sizes
let sum_tok b = Printf.sprintf "%d.%08x" (List.length b) (fnv b)

let drv_relay args =
  match args with
  | _front :: "chunks" :: _n :: _m :: _watch :: _cs :: up :: down :: _ ->
    (* transport fragments of 1500 bytes: a cut inside a header or a payload every time (any fragmentation gives the
       same result: C01_fragmentation) *)
    let fwd = tunnel Sess.Client "wdf" 1500 (cut 'c' (sizes_of up)) in
    let rev = tunnel Sess.Server "send" 1500 (cut 's' (sizes_of down)) in
    Printf.sprintf "fwd=%s rev=%s" (sum_tok fwd) (sum_tok rev)
  | _ -> "BAD-ARGS"

(* same line format as the implementation driver `lo`, scenario `chunks` *)
let dispatch drv args =
  match drv with
  | "lo" -> Some (drv_relay args)
  | _ -> None
