(* util.ml -- conversions between OCaml ints/strings and the extracted Coq datatypes (trusted glue) *)
open Model

let rec pos_of_int (i : int) : positive =
  if i = 1 then XH
  else if i land 1 = 0 then XO (pos_of_int (i lsr 1))
  else XI (pos_of_int (i lsr 1))
let n_of_int (i : int) : n = if i = 0 then N0 else Npos (pos_of_int i)
let rec int_of_pos (p : positive) : int =
  match p with XH -> 1 | XO q -> 2 * int_of_pos q | XI q -> 2 * int_of_pos q + 1
let int_of_n (x : n) : int = match x with N0 -> 0 | Npos p -> int_of_pos p
let z_of_int (i : int) : z =
  if i = 0 then Z0 else if i > 0 then Zpos (pos_of_int i) else Zneg (pos_of_int (-i))
let int_of_z (x : z) : int =
  match x with Z0 -> 0 | Zpos p -> int_of_pos p | Zneg p -> - (int_of_pos p)

let small = Array.init 256 n_of_int
let hexval c =
  match c with
  | '0'..'9' -> Char.code c - 48
  | 'a'..'f' -> Char.code c - 87
  | 'A'..'F' -> Char.code c - 55
  | _ -> failwith "hex"
(* "-" is the empty byte string *)
let bytes_of_hex (s : string) : n list =
  if s = "-" then [] else begin
    let len = String.length s / 2 in
    let rec go i acc =
      if i < 0 then acc
      else go (i - 1) (small.(hexval s.[2*i] * 16 + hexval s.[2*i+1]) :: acc) in
    go (len - 1) []
  end
let hex_of_bytes (l : n list) : string =
  match l with
  | [] -> "-"
  | _ ->
    let b = Buffer.create 64 in
    List.iter (fun x -> Buffer.add_string b (Printf.sprintf "%02x" (int_of_n x))) l;
    Buffer.contents b


let frame_str (f : frame) : string =
  Printf.sprintf "F %d %d %s" (int_of_n (byte_of_cmd f.fcmd)) (int_of_n f.fsid) (hex_of_bytes f.fdata)

let split_ws s = List.filter (fun t -> t <> "") (String.split_on_char ' ' s)
let rec nat_of_int (i : int) : nat = if i <= 0 then O else S (nat_of_int (i - 1))
let rec int_of_nat (x : nat) : int = match x with O -> 0 | S y -> 1 + int_of_nat y
(* big decimal strings (e.g. 2^63) -> N / Z without overflowing OCaml ints: via repeated doubling on strings is
   overkill; OCaml ints are 63-bit, enough for every value the drivers pass (<= 2^62). *)
