use crate::util::{hex, unhex};
use anytls_rs::protocol::{Command, Frame, FrameCodec};
use bytes::{Bytes, BytesMut};
use tokio_util::codec::{Decoder, Encoder};

pub fn frame_str(f: &Frame) -> String {
    format!("F {} {} {}", u8::from(f.cmd), f.stream_id, hex(&f.data))
}

/// enc <cmdbyte> <sid> <hexdata>
pub fn enc(args: &[&str]) -> String {
    let c: u8 = args[0].parse().unwrap();
    let sid: u32 = args[1].parse().unwrap();
    let data = unhex(args[2]);
    let f = Frame::with_data(Command::from(c), sid, Bytes::from(data));
    let mut buf = BytesMut::new();
    match FrameCodec.encode(f, &mut buf) {
        Ok(()) => format!("OK {}", hex(&buf)),
        Err(_) => "ERR".to_string(),
    }
}

/// dec <hexchunk>... : a streaming decoder fed chunk by chunk, drained after each chunk
pub fn dec(args: &[&str]) -> String {
    let mut codec = FrameCodec;
    let mut buf = BytesMut::new();
    let mut out = String::new();
    for ch in args {
        buf.extend_from_slice(&unhex(ch));
        loop {
            match codec.decode(&mut buf) {
                Ok(Some(f)) => {
                    out.push_str(&frame_str(&f));
                    out.push(' ');
                }
                Ok(None) => break,
                Err(_) => {
                    out.push_str("DECODE-ERR ");
                    break;
                }
            }
        }
        out.push_str(&format!("R {} | ", buf.len()));
    }
    out
}

pub fn dispatch(drv: &str, args: &[&str]) -> Option<String> {
    match drv {
        "enc" => Some(enc(args)),
        "dec" => Some(dec(args)),
        _ => None,
    }
}
