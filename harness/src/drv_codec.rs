use crate::util::{hex, unhex};
use anytls_rs::protocol::{Command, Frame, FrameCodec};
use bytes::{Bytes, BytesMut};
use tokio_util::codec::{Decoder, Encoder};

pub fn frame_str(f: &Frame) -> String {
    format!("F {} {} {}", u8::from(f.cmd), f.stream_id, hex(&f.data))
}

/// enc <cmdbyte> <sid> <hexdata>
pub fn enc(args: &[&str]) -> String {
    let c: u8 = args[0].parse().unwrap();
    let sid: u32 = args[1].parse().unwrap();
    let data = unhex(args[2]);
    let f = Frame::with_data(Command::from(c), sid, Bytes::from(data));
    let mut buf = BytesMut::new();
    match FrameCodec.encode(f, &mut buf) {
        Ok(()) => format!("OK {}", hex(&buf)),
        Err(_) => "ERR".to_string(),
    }
}

/// dec <hexchunk>... : a streaming decoder fed chunk by chunk, drained after each chunk
pub fn dec(args: &[&str]) -> String {
    let mut codec = FrameCodec;
    let mut buf = BytesMut::new();
    let mut out = String::new();
    for ch in args {
        buf.extend_from_slice(&unhex(ch));
        loop {
            match codec.decode(&mut buf) {
                Ok(Some(f)) => {
                    out.push_str(&frame_str(&f));
                    out.push(' ');
                }
                Ok(None) => break,
                Err(_) => {
                    out.push_str("DECODE-ERR ");
                    break;
                }
            }
        }
        out.push_str(&format!("R {} | ", buf.len()));
    }
    out
}

/// encseq <cmd:sid:len:seed>... : frames encoded one after the other into ONE output buffer (payload byte i = seed + i mod 256)
pub fn encseq(args: &[&str]) -> String {
    let mut buf = BytesMut::new();
    let mut verdicts = String::new();
    for tok in args {
        let p: Vec<&str> = tok.split(':').collect();
        if p.len() != 4 {
            verdicts.push_str("BADTOK ");
            continue;
        }
        let c: u8 = p[0].parse().unwrap();
        let sid: u32 = p[1].parse().unwrap();
        let len: usize = p[2].parse().unwrap();
        let seed: usize = p[3].parse().unwrap();
        let data: Vec<u8> = (0..len).map(|i| ((seed + i) & 255) as u8).collect();
        let f = Frame::with_data(Command::from(c), sid, Bytes::from(data));
        match FrameCodec.encode(f, &mut buf) {
            Ok(()) => verdicts.push_str("ok "),
            Err(_) => verdicts.push_str("err "),
        }
    }
    let mut sum: u64 = 0;
    let mut fnv: u64 = 2166136261;
    for b in buf.iter() {
        sum = (sum + *b as u64) & 0xFFFF_FFFF;
        fnv = ((fnv ^ (*b as u64)).wrapping_mul(16777619)) & 0xFFFF_FFFF;
    }
    format!("{}| len={} sum={} fnv={}", verdicts, buf.len(), sum, fnv)
}

pub fn dispatch(drv: &str, args: &[&str]) -> Option<String> {
    match drv {
        "encseq" => Some(encseq(args)),
        "enc" => Some(enc(args)),
        "dec" => Some(dec(args)),
        _ => None,
    }
}
