//! implementation-side driver "conc": run real tasks against a real client `Session` under an
//! explicit schedule. Every harness task runs inside a task-local scope carrying its id; the
//! scheduling-point controller installed in the library parks a scoped task at each named point
//! until the schedule grants it one step. Unscoped (library-internal) tasks are never parked.
//! Case format and output: see extract/drv_conc.ml (the model side prints the same string).
#![allow(unused_imports, dead_code)]
use crate::transport::{ChanReader, REv, RecWriter, WEv, bursts};
use crate::util::{hex, unhex};
use anytls_rs::padding::PaddingFactory;
use anytls_rs::protocol::{Command, Frame};
use anytls_rs::session::Session;
use anytls_rs::session::session::verif_sched;
use anytls_rs::util::AnyTlsError;
use bytes::Bytes;
use std::collections::HashMap;
use std::sync::{Arc, Mutex};
use std::time::Duration;
use tokio::sync::oneshot;

tokio::task_local! { static TASK_ID: usize; }

#[derive(Clone, Debug)]
enum Call {
    Write(u8, u32, Vec<u8>),
    Data(Vec<u8>),
    Open,
    Await,
    Timeout,
    Read,
    Close,
    Buf(bool),
    Fail(usize),
    Stall(usize),
    /// the peer reads again: the stall is lifted and the pending transport write is woken
    Unstall,
    /// virtual time passes (the controller sleeps this many ms after the call: every timer that is due fires)
    Sleep(u64),
    FeedSynAck(usize, bool),
    FeedPush(usize),
    /// a keep-alive request from the peer: the receive task answers it with a HeartResponse through write_frame
    FeedHeartReq,
    FeedFin(usize),
    FeedAlert,
    FeedEof,
    FeedCutEof(usize),
    FeedErr(std::io::ErrorKind),
    FailKind(std::io::ErrorKind),
    Send(Vec<u8>),
    Pump,
}

fn err_kind(k: &str) -> std::io::ErrorKind {
    use std::io::ErrorKind::*;
    match k {
        "reset" => ConnectionReset,
        "aborted" => ConnectionAborted,
        "pipe" => BrokenPipe,
        "timedout" => TimedOut,
        "intr" => Interrupted,
        "wouldblock" => WouldBlock,
        "eof" => UnexpectedEof,
        "notconn" => NotConnected,
        "invalid" => InvalidData,
        "oom" => OutOfMemory,
        _ => Other,
    }
}

fn parse_call(tok: &str) -> Call {
    let p: Vec<&str> = tok.split(':').collect();
    match p.as_slice() {
        ["W", c, sid, d] => Call::Write(c.parse().unwrap(), sid.parse().unwrap(), unhex(d)),
        ["D", d] => Call::Data(unhex(d)),
        ["O"] => Call::Open,
        ["A"] => Call::Await,
        ["T"] => Call::Timeout,
        ["R"] => Call::Read,
        ["X"] => Call::Close,
        ["B0"] => Call::Buf(false),
        ["B1"] => Call::Buf(true),
        ["FAIL"] => Call::Fail(0),
        ["FAIL", k] => Call::Fail(k.parse().unwrap()),
        ["STALL", k] => Call::Stall(k.parse().unwrap()),
        ["UNSTALL"] => Call::Unstall,
        ["SLEEP", k] => Call::Sleep(k.parse().unwrap()),
        ["F", "sa", o, ok] => Call::FeedSynAck(o.parse().unwrap(), *ok == "1"),
        ["F", "psh", o] => Call::FeedPush(o.parse().unwrap()),
        ["F", "hreq"] => Call::FeedHeartReq,
        ["F", "fin", o] => Call::FeedFin(o.parse().unwrap()),
        ["F", "alert"] => Call::FeedAlert,
        ["F", "eof"] => Call::FeedEof,
        ["F", "cut", k] => Call::FeedCutEof(k.parse().unwrap()),
        ["F", "err"] => Call::FeedErr(std::io::ErrorKind::ConnectionReset),
        ["F", "err", k] => Call::FeedErr(err_kind(k)),
        // the kind of error the failing transport reports from now on (followed by FAIL); the call itself does nothing else
        ["FAILK", k] => Call::FailKind(err_kind(k)),
        ["S", d] => Call::Send(unhex(d)),
        ["P"] => Call::Pump,
        _ => panic!("bad call {}", tok),
    }
}

#[derive(Default)]
struct Shared {
    parked: HashMap<usize, (String, oneshot::Sender<()>)>,
    results: HashMap<usize, Vec<&'static str>>,
    done: HashMap<usize, bool>,
    sids: HashMap<usize, u32>,
    /// next stream id the session will allocate (ids are handed out sequentially from 1 by open_stream)
    next_sid: u32,
    /// tasks that were granted a step at a lock-acquiring point and have not reached a new point yet
    last_point: HashMap<usize, String>,
    /// set by a task whose call was not ready (it re-parked at h.call without progress)
    blocked: HashMap<usize, bool>,
    /// the task that runs process_stream_data (the forwarding loop)
    pump: Option<usize>,
    /// name of the point at which each task was last granted a step
    last_grant: HashMap<usize, String>,
    /// a SLEEP call asks the controller to let this much virtual time pass
    sleep_req: Option<u64>,
}

type Sh = Arc<Mutex<Shared>>;

async fn park(sh: &Sh, name: &str) {
    let id = match TASK_ID.try_with(|i| *i) {
        Ok(i) => i,
        Err(_) => return,
    };
    let (tx, rx) = oneshot::channel();
    {
        let mut g = sh.lock().unwrap();
        g.parked.insert(id, (name.to_string(), tx));
        g.last_point.insert(id, name.to_string());
    }
    let _ = rx.await;
}

fn err_class(e: &AnyTlsError) -> &'static str {
    match e {
        AnyTlsError::SessionClosed => "closed",
        AnyTlsError::Io(_) => "io",
        _ => "other",
    }
}

fn frame_bytes(cmd: u8, sid: u32, data: &[u8]) -> Vec<u8> {
    let mut v = vec![cmd];
    v.extend_from_slice(&sid.to_be_bytes());
    v.extend_from_slice(&(data.len() as u16).to_be_bytes());
    v.extend_from_slice(data);
    v
}

/// scheme in which line k (1..=199) is the fixed size 1000+k, so that the first write of a padded
/// burst reveals which line shaped it
fn index_scheme() -> Arc<PaddingFactory> {
    let mut s = String::from("stop=200\n");
    // after the first record two more sizes follow: when the payload is used up they become padding-only records
    // (67 bytes each), so that transport faults can also land inside those
    for k in 0..200 {
        s.push_str(&format!("{}={}-{},60-60,60-60\n", k, 1000 + k, 1000 + k));
    }
    Arc::new(PaddingFactory::new(s.as_bytes()).unwrap())
}

pub fn conc(args: &[&str]) -> String {
    let mode = args[0];
    let mut groups: Vec<Vec<Call>> = Vec::new();
    let mut sched: Vec<usize> = Vec::new();
    let mut in_sched = false;
    for tok in &args[1..] {
        if in_sched {
            sched.push(tok.parse().unwrap());
        } else if *tok == "sched" {
            in_sched = true;
        } else if *tok == "|" {
            groups.push(Vec::new());
        } else if *tok != "-" {
            groups.last_mut().unwrap().push(parse_call(tok));
        }
    }
    let rt = tokio::runtime::Builder::new_current_thread()
        .enable_all()
        .start_paused(true)
        .build()
        .unwrap();
    let out = rt.block_on(async move { run_case(mode == "start", groups, sched).await });
    verif_sched::set_controller(None);
    out
}

async fn settle() {
    tokio::time::sleep(Duration::from_millis(1)).await;
}

async fn run_case(start: bool, groups: Vec<Vec<Call>>, sched: Vec<usize>) -> String {
    let has_stall = groups.iter().any(|g| g.iter().any(|c| matches!(c, Call::Stall(_))));
    let sh: Sh = Arc::new(Mutex::new(Shared::default()));
    sh.lock().unwrap().next_sid = 1;
    let (reader, feed_tx) = ChanReader::new();
    let (writer, wh) = RecWriter::new(None);
    let session = Arc::new(Session::new_client(reader, writer, index_scheme(), None));

    let mut handles = Vec::new();
    if start {
        // the real start-up: Settings buffered, recv_loop / process_stream_data spawned by the library
        session.clone().start_client().await.unwrap();
    }
    {
        let sh2 = sh.clone();
        verif_sched::set_controller(Some(Arc::new(move |name: &'static str| {
            let sh3 = sh2.clone();
            Box::pin(async move { park(&sh3, name).await })
        })));
    }
    let recv_done = Arc::new(Mutex::new(false));
    if !start {
        let s = session.clone();
        let rd = recv_done.clone();
        handles.push(tokio::spawn(TASK_ID.scope(0, async move {
            let _ = s.recv_loop().await;
            *rd.lock().unwrap() = true;
        })));
    }
    let ntasks = groups.len();
    for (i, prog) in groups.into_iter().enumerate() {
        if i == 0 {
            continue;
        }
        let s = session.clone();
        let sh2 = sh.clone();
        let wh2 = wh.clone();
        let ftx = feed_tx.clone();
        handles.push(tokio::spawn(TASK_ID.scope(i, async move {
            let mut synack_rx: Option<oneshot::Receiver<anytls_rs::util::Result<()>>> = None;
            let mut stream: Option<Arc<anytls_rs::session::Stream>> = None;
            let mut verdict_taken: Option<&'static str> = None;
            if matches!(prog.first(), Some(Call::Pump)) {
                // the forwarding task: ONE long call; the remaining P tokens of the program stand for its loop
                // iterations (the scheduling point at the top of the loop plays the role of h.call)
                park(&sh2, "h.call").await;
                sh2.lock().unwrap().pump = Some(i);
                let _ = s.process_stream_data().await;
                sh2.lock().unwrap().done.insert(i, true);
                return;
            }
            for call in prog {
                let res: &'static str = loop {
                    park(&sh2, "h.call").await;
                    match &call {
                        Call::Write(c, sid, d) => {
                            let f = Frame::with_data(Command::from(*c), *sid, Bytes::from(d.clone()));
                            break match s.write_frame(f).await {
                                Ok(()) => "ok",
                                Err(e) => err_class(&e),
                            };
                        }
                        Call::Data(d) => {
                            let sid = match &stream {
                                Some(st) => st.id(),
                                None => break "nostream",
                            };
                            break match s.write_data_frame(sid, Bytes::from(d.clone())).await {
                                Ok(()) => "ok",
                                Err(e) => err_class(&e),
                            };
                        }
                        Call::Open => {
                            // the id is allocated (and the stream registered) when the task is granted its step
                            // at `open.checked` -- not at the closed check: the controller records it there so that
                            // frames fed meanwhile can address the stream
                            break match s.open_stream().await {
                                Ok((st, rx)) => {
                                    // ids are handed out one by one in registration order: anything else (two streams
                                    // with one id, a skipped id) is reported as the outcome of this call
                                    let predicted = sh2.lock().unwrap().sids.get(&i).copied();
                                    let same = predicted == Some(st.id());
                                    stream = Some(st);
                                    synack_rx = Some(rx);
                                    verdict_taken = None;
                                    if same { "ok" } else { "stream-id-not-sequential" }
                                }
                                Err(e) => {
                                    // the id was allocated and registered before the SYN failed
                                    err_class(&e)
                                }
                            };
                        }
                        Call::Await | Call::Timeout => {
                            if stream.is_none() {
                                break "nostream";
                            }
                            if let Some(v) = verdict_taken {
                                break v;
                            }
                            let r = match synack_rx.as_mut() {
                                None => None,
                                Some(rx) => match rx.try_recv() {
                                    Ok(Ok(())) => Some("ok"),
                                    Ok(Err(e)) => {
                                        let m = e.to_string();
                                        if m.contains("Session closed") {
                                            Some("closed")
                                        } else {
                                            Some("erropen")
                                        }
                                    }
                                    Err(oneshot::error::TryRecvError::Closed) => Some("dropped"),
                                    Err(oneshot::error::TryRecvError::Empty) => None,
                                },
                            };
                            match r {
                                Some(v) => {
                                    verdict_taken = Some(v);
                                    break v;
                                }
                                None => {
                                    if matches!(call, Call::Timeout) {
                                        synack_rx = None; // the waiter gives up: receiver dropped
                                        verdict_taken = Some("timeout");
                                        break "timeout";
                                    }
                                    sh2.lock().unwrap().blocked.insert(i, true);
                                    continue; // not ready: stay parked at h.call
                                }
                            }
                        }
                        Call::Read => {
                            let st = match &stream {
                                Some(st) => st.clone(),
                                None => break "nostream",
                            };
                            let mut buf = vec![0u8; 4096];
                            let fut = async {
                                let mut g = st.reader().lock().await;
                                g.read(&mut buf).await
                            };
                            tokio::pin!(fut);
                            let polled = futures_poll_once(fut.as_mut()).await;
                            match polled {
                                Some(Ok(0)) => break "eof",
                                Some(Ok(_)) => break "data",
                                Some(Err(_)) => break "readerr",
                                None => {
                                    sh2.lock().unwrap().blocked.insert(i, true);
                                    continue;
                                }
                            }
                        }
                        Call::Close => {
                            let _ = s.close().await;
                            break "ok";
                        }
                        Call::Buf(b) => {
                            if !*b {
                                s.disable_buffering();
                            }
                            break "ok";
                        }
                        Call::Fail(k) => {
                            // the transport accepts k more bytes, then every write fails
                            wh2.set_fail_at(Some(wh2.total() + *k));
                            break "ok";
                        }
                        Call::Stall(k) => {
                            // the peer stops reading: the transport accepts k more bytes, then every write stays pending
                            wh2.set_stall_at(Some(wh2.total() + *k));
                            break "ok";
                        }
                        Call::Unstall => {
                            wh2.set_stall_at(None);
                            break "ok";
                        }
                        Call::Sleep(k) => {
                            sh2.lock().unwrap().sleep_req = Some(*k);
                            break "ok";
                        }
                        Call::FeedSynAck(o, ok) => {
                            let sid = sh2.lock().unwrap().sids.get(o).copied().unwrap_or(0xFFFF_0000 + *o as u32);
                            let data: &[u8] = if *ok { b"" } else { b"refused" };
                            let _ = ftx.send(REv::Data(frame_bytes(7, sid, data)));
                            break "ok";
                        }
                        Call::FeedPush(o) => {
                            let sid = sh2.lock().unwrap().sids.get(o).copied().unwrap_or(0xFFFF_0000 + *o as u32);
                            let _ = ftx.send(REv::Data(frame_bytes(2, sid, b"x")));
                            break "ok";
                        }
                        Call::FeedFin(o) => {
                            let sid = sh2.lock().unwrap().sids.get(o).copied().unwrap_or(0xFFFF_0000 + *o as u32);
                            let _ = ftx.send(REv::Data(frame_bytes(3, sid, b"")));
                            break "ok";
                        }
                        Call::FeedHeartReq => {
                            let _ = ftx.send(REv::Data(frame_bytes(8, 0, b"")));
                            break "ok";
                        }
                        Call::FeedAlert => {
                            let _ = ftx.send(REv::Data(frame_bytes(5, 0, b"bye")));
                            break "ok";
                        }
                        Call::FeedEof => {
                            let _ = ftx.send(REv::Eof);
                            break "ok";
                        }
                        Call::FeedCutEof(k) => {
                            // the peer goes away k bytes into a frame (header or payload cut), then clean EOF
                            let fr = frame_bytes(2, 0xFFFF_00AA, b"0123456789abcdef");
                            let k = (*k).min(fr.len() - 1).max(1);
                            let _ = ftx.send(REv::Data(fr[..k].to_vec()));
                            let _ = ftx.send(REv::Eof);
                            break "ok";
                        }
                        Call::Send(d) => {
                            // Stream::send_data: the stream's own closed flag, then the unbounded channel
                            let st = match &stream {
                                Some(st) => st.clone(),
                                None => break "nostream",
                            };
                            break match st.send_data(Bytes::from(d.clone())) {
                                Ok(()) => "ok",
                                Err(_) => "closed",
                            };
                        }
                        Call::Pump => break "nostream",
                        Call::FeedErr(k) => {
                            let _ = ftx.send(REv::Err(*k, "injected read error"));
                            break "ok";
                        }
                        Call::FailKind(k) => {
                            wh2.set_fail_kind(*k);
                            wh2.set_fail_at(Some(wh2.total()));
                            break "ok";
                        }
                    }
                };
                sh2.lock().unwrap().results.entry(i).or_default().push(res);
            }
            sh2.lock().unwrap().done.insert(i, true);
        })));
    }
    settle().await;

    let mut out = String::new();
    for t in sched {
        let grant = sh.lock().unwrap().parked.remove(&t);
        match grant {
            Some((name, tx)) => {
                {
                    let mut g = sh.lock().unwrap();
                    // remember a grant at a lock-acquiring point: if no new point is reached the task is queued
                    if name == "open.checked" {
                        // open_stream allocates the next id as soon as it resumes
                        let sid = g.next_sid;
                        g.next_sid += 1;
                        g.sids.insert(t, sid);
                    }
                    g.last_grant.insert(t, name.clone());
                    if name == "wf.before_writer" || name == "close.before_writer" {
                        g.last_point.insert(t, "queued".into());
                    } else {
                        g.last_point.insert(t, "running".into());
                    }
                }
                let _ = tx.send(());
                settle().await;
                let nap = sh.lock().unwrap().sleep_req.take();
                if let Some(k) = nap {
                    tokio::time::sleep(Duration::from_millis(k)).await;
                    settle().await;
                }
                if sh.lock().unwrap().blocked.remove(&t) == Some(true) {
                    out.push_str(&format!("skip{} ", t));
                }
            }
            None => {
                out.push_str(&format!("skip{} ", t));
            }
        }
    }
    if has_stall {
        // let the 1 s shutdown timeout inside close() expire (virtual time)
        tokio::time::sleep(Duration::from_secs(3)).await;
    }
    // ---- observations
    let log = wh.log();
    out.push_str("W ");
    for b in bursts(&log) {
        if b.is_empty() {
            continue;
        }
        let idx = if b[0].len() >= 1000 && b[0].len() < 1200 { b[0].len() - 1000 } else { 0 };
        let all: Vec<u8> = b.concat();
        let mut toks = Vec::new();
        let mut p = 0usize;
        while p + 7 <= all.len() {
            let c = all[p];
            let sid = u32::from_be_bytes([all[p + 1], all[p + 2], all[p + 3], all[p + 4]]);
            let ln = u16::from_be_bytes([all[p + 5], all[p + 6]]) as usize;
            if p + 7 + ln > all.len() {
                toks.push("TRUNCATED".to_string());
                break;
            }
            let d = &all[p + 7..p + 7 + ln];
            p += 7 + ln;
            if c == 0 && sid == 0 && d.iter().all(|x| *x == 0) {
                continue; // padding
            }
            if c == 4 {
                toks.push("SETTINGS".to_string());
            } else {
                toks.push(format!("{}.{}.{}", if c <= 10 { c } else { 0 }, sid, hex(d)));
            }
        }
        if p != all.len() && !toks.iter().any(|t| t == "TRUNCATED") {
            toks.push("STRAY".to_string());
        }
        out.push_str(&format!("{}:{} ", idx, toks.join(",")));
    }
    out.push_str(&format!("| closed={} shut={} |", session.is_closed(), wh.is_shutdown()));
    let g = sh.lock().unwrap();
    for t in 0..ntasks {
        let res = match g.results.get(&t) {
            Some(v) if !v.is_empty() => v.join(","),
            _ => "-".to_string(),
        };
        let pc = if t == 0 {
            if start {
                "-".to_string()
            } else if *recv_done.lock().unwrap() {
                "done".to_string()
            } else if let Some((n, _)) = g.parked.get(&t) {
                n.clone()
            } else if g.last_point.get(&t).map(|s| s.as_str()) == Some("queued") {
                "queued".to_string()
            } else {
                "recv".to_string()
            }
        } else if g.done.get(&t).copied().unwrap_or(false) {
            "done".to_string()
        } else if let Some((n, _)) = g.parked.get(&t) {
            n.clone()
        } else if g.last_point.get(&t).map(|s| s.as_str()) == Some("queued") {
            "queued".to_string()
        } else if g.last_grant.get(&t).map(|s| s.as_str()) == Some("wf.buffer_taken") {
            // granted the step that writes the burst and never came back: the write is pending inside the transport
            "stalled-in-transport".to_string()
        } else if g.pump == Some(t) {
            // not parked at a point, not queued on the writer, not returned: inside select!{notified(), recv()}
            "pump.wait".to_string()
        } else {
            "lost".to_string()
        };
        let res = if g.pump == Some(t) { "-".to_string() } else { res };
        out.push_str(&format!(" t{}:{}:{}", t, pc, res));
    }
    drop(g);
    for h in handles {
        h.abort();
    }
    out
}

/// poll a future exactly once
async fn futures_poll_once<F: std::future::Future + Unpin>(mut f: F) -> Option<F::Output> {
    use std::pin::Pin;
    use std::task::Poll;
    std::future::poll_fn(move |cx| match Pin::new(&mut f).poll(cx) {
        Poll::Ready(v) => Poll::Ready(Some(v)),
        Poll::Pending => Poll::Ready(None),
    })
    .await
}

/// mtstart <iters>: start-up of a client session WITH a heartbeat on a multi-threaded runtime, many
/// times; the first frame that reaches the transport must be the settings frame (no scheduling control:
/// a stress run, complementing the deterministic single-threaded schedules).
pub fn mtstart(args: &[&str]) -> String {
    let iters: usize = args[0].parse().unwrap();
    let rt = tokio::runtime::Builder::new_multi_thread()
        .worker_threads(4)
        .enable_all()
        .build()
        .unwrap();
    let (bad, first_bad) = rt.block_on(async move {
        let mut bad = 0usize;
        let mut first_bad = String::new();
        for _ in 0..iters {
            let (reader, _feed_tx) = ChanReader::new();
            let (writer, wh) = RecWriter::new(None);
            let hb = anytls_rs::session::SessionHeartbeatConfig {
                interval: Duration::from_secs(3600),
                timeout: Duration::from_secs(7200),
            };
            let session = Arc::new(Session::new_client(reader, writer, index_scheme(), Some(hb)));
            let s2 = session.clone();
            let h = tokio::spawn(async move {
                let _ = s2.clone().start_client().await;
                if let Ok((st, _rx)) = s2.open_stream().await {
                    s2.disable_buffering();
                    let _ = s2.write_data_frame(st.id(), Bytes::from_static(b"x")).await;
                }
            });
            let _ = h.await;
            tokio::time::sleep(Duration::from_millis(2)).await;
            let all = wh.bytes();
            if !all.is_empty() && all[0] != 4 {
                bad += 1;
                if first_bad.is_empty() {
                    first_bad = format!("cmd{}", all[0]);
                }
            }
            let _ = session.close().await;
        }
        (bad, first_bad)
    });
    format!("MT iters={} settings_not_first={} {}", iters, bad, first_bad)
}

pub fn dispatch(drv: &str, args: &[&str]) -> Option<String> {
    match drv {
        "conc" => Some(conc(args)),
        "mtstart" => Some(mtstart(args)),
        _ => None,
    }
}
