//! implementation-side driver "hostile" (C20): arbitrary bytes are fed, chunk by chunk, to an ESTABLISHED
//! in-memory session (role client or server) while a sibling session runs in the same runtime. Observed:
//! what the session wrote in response (padding frames deleted), which streams it handed to the stream
//! callback, whether it is closed, whether it still answers a HeartRequest afterwards, whether the sibling
//! still answers, and how many panics occurred in ANY task. Virtual time: a task that spins never lets the
//! settle timer fire, so the case produces no result (reported by the check as a dead case).
//!   hostile <id> <c|s> <hexchunk> ...
#![allow(unused_imports, dead_code)]
use crate::transport::{ChanReader, REv, RecWriter, WEv};
use crate::util::{hex, unhex};
use anytls_rs::padding::PaddingFactory;
use anytls_rs::session::Session;
use std::sync::atomic::{AtomicUsize, Ordering};
use std::sync::{Arc, Mutex};
use std::time::Duration;

pub static PANICS: AtomicUsize = AtomicUsize::new(0);

fn decode_out(all: &[u8]) -> Vec<String> {
    let mut toks = Vec::new();
    let mut p = 0usize;
    while p + 7 <= all.len() {
        let c = all[p];
        let sid = u32::from_be_bytes([all[p + 1], all[p + 2], all[p + 3], all[p + 4]]);
        let ln = u16::from_be_bytes([all[p + 5], all[p + 6]]) as usize;
        if p + 7 + ln > all.len() {
            toks.push("TRUNCATED".into());
            return toks;
        }
        let d = &all[p + 7..p + 7 + ln];
        p += 7 + ln;
        if c == 0 && sid == 0 && d.iter().all(|x| *x == 0) {
            continue;
        }
        toks.push(format!("{}.{}.{}", if c <= 10 { c } else { 0 }, sid, hex(d)));
    }
    if p != all.len() {
        toks.push("STRAY".into());
    }
    toks
}

fn hb_request(sid: u32) -> Vec<u8> {
    let mut v = vec![8u8];
    v.extend_from_slice(&sid.to_be_bytes());
    v.extend_from_slice(&[0, 0]);
    v
}

struct Node {
    session: Arc<Session>,
    feed: tokio::sync::mpsc::UnboundedSender<REv>,
    wh: crate::transport::WHandle,
    news: Arc<Mutex<Vec<u32>>>,
}

fn make(role_client: bool) -> Node {
    let (reader, feed) = ChanReader::new();
    let (writer, wh) = RecWriter::new(None);
    // not PaddingFactory::default(): the process default is replaced by pushed schemes (C19) in earlier cases
    let padding = Arc::new(PaddingFactory::new(anytls_rs::padding::DEFAULT_PADDING_SCHEME.as_bytes()).unwrap());
    let news = Arc::new(Mutex::new(Vec::new()));
    let session = if role_client {
        Arc::new(Session::new_client(reader, writer, padding, None))
    } else {
        let mut s = Session::new_server(reader, writer, padding);
        let (tx, mut rx) = tokio::sync::mpsc::unbounded_channel::<Arc<anytls_rs::session::Stream>>();
        s.set_stream_callback(tx);
        let n2 = news.clone();
        tokio::spawn(async move {
            while let Some(st) = rx.recv().await {
                n2.lock().unwrap().push(st.id());
            }
        });
        Arc::new(s)
    };
    let s2 = session.clone();
    tokio::spawn(async move {
        let _ = s2.recv_loop().await;
    });
    Node { session, feed, wh, news }
}

async fn settle() {
    tokio::time::sleep(Duration::from_millis(1)).await;
}

pub fn hostile(args: &[&str]) -> String {
    let role_client = args[0] == "c";
    // args[1] = md5 (ascii hex) and args[2] = raw scheme of the default padding factory: used by the model side only
    let chunks: Vec<Vec<u8>> = args[3..].iter().map(|a| unhex(a)).collect();
    let before = PANICS.load(Ordering::SeqCst);
    let rt = tokio::runtime::Builder::new_current_thread()
        .enable_all()
        .start_paused(true)
        .build()
        .unwrap();
    let out = rt.block_on(async move {
        let a = make(role_client);
        let b = make(role_client);
        settle().await;
        for ch in chunks {
            let _ = a.feed.send(REv::Data(ch));
            settle().await;
        }
        let written = decode_out(&a.wh.bytes());
        let closed = a.session.is_closed();
        let shut = a.wh.is_shutdown();
        let news: Vec<String> = a.news.lock().unwrap().iter().map(|x| x.to_string()).collect();
        // does the attacked session still work? (only meaningful on a frame boundary: send a full HeartRequest
        // only if the session is not closed; a partial frame left in its buffer swallows it -- the model knows)
        let mark = a.wh.bytes().len();
        let _ = a.feed.send(REv::Data(hb_request(0x7777)));
        settle().await;
        let after = decode_out(&a.wh.bytes()[mark..]);
        // the sibling session must be unaffected
        let _ = b.feed.send(REv::Data(hb_request(0x5555)));
        settle().await;
        let sib = decode_out(&b.wh.bytes());
        format!(
            "closed={} out={} new={} echo={} sibling={} shut={}",
            closed,
            if written.is_empty() { "-".to_string() } else { written.join(",") },
            if news.is_empty() { "-".to_string() } else { news.join(",") },
            if after.is_empty() { "-".to_string() } else { after.join(",") },
            if sib.is_empty() { "-".to_string() } else { sib.join(",") },
            shut
        )
    });
    let panics = PANICS.load(Ordering::SeqCst) - before;
    format!("{} panics={}", out, panics)
}

pub fn dispatch(drv: &str, args: &[&str]) -> Option<String> {
    match drv {
        "hostile" => Some(hostile(args)),
        _ => None,
    }
}
