//! implementation-side drivers of work package "http" (C17): the private request parsing /
//! rewriting functions of src/client/http_proxy.rs through `http_verif_hooks`, the header read
//! loop over loopback TCP (real time), and the whole connection handler against a harness-owned
//! in-process AnyTLS server session (in-memory transport through `Client::verif_set_connector`).
//!
//! Result conventions: strings are printed as lowercase hex of their UTF-8 bytes (`-` = empty),
//! errors as the class `ERR` (never the message), input that is not UTF-8 as `ERR` as well
//! (the handler rejects it before parsing).
#![allow(unused_imports, dead_code)]
use crate::util::{hex, unhex};
use anytls_rs::client::http_proxy::http_verif_hooks as hk;
use std::sync::{Arc, Mutex};
use std::time::Duration;

fn s(arg: &str) -> Option<String> {
    String::from_utf8(unhex(arg)).ok()
}

fn lines(args: &[&str]) -> Option<Vec<String>> {
    args.iter().map(|a| s(a)).collect()
}

/// http_fhe <buf>
fn fhe(args: &[&str]) -> String {
    match hk::find_header_end(&unhex(args[0])) {
        Some(n) => format!("SOME {}", n),
        None => "NONE".into(),
    }
}

/// http_shp <value> <default>
fn shp(args: &[&str]) -> String {
    let Some(v) = s(args[0]) else {
        return "ERR".into();
    };
    let d: u16 = args[1].parse().unwrap();
    match hk::split_host_port(&v, d) {
        Ok((h, p)) => format!("OK {} {}", hex(h.as_bytes()), p),
        Err(_) => "ERR".into(),
    }
}

/// http_dt <method> <target> <line>...
fn dt(args: &[&str]) -> String {
    let (Some(m), Some(t), Some(ls)) = (s(args[0]), s(args[1]), lines(&args[2..])) else {
        return "ERR".into();
    };
    match hk::determine_target(&m, &t, &ls) {
        Ok((h, p, path, c)) => format!(
            "OK {} {} {} {}",
            hex(h.as_bytes()),
            p,
            hex(path.as_bytes()),
            c as u8
        ),
        Err(_) => "ERR".into(),
    }
}

fn parsed_str(p: &hk::Parsed) -> String {
    let mut out = format!(
        "OK {} {} {} {} {} {} {} {}",
        hex(p.0.as_bytes()),
        hex(p.1.as_bytes()),
        hex(p.2.as_bytes()),
        p.3,
        hex(p.4.as_bytes()),
        p.5 as u8,
        hex(&p.7),
        p.6.len()
    );
    for l in &p.6 {
        out.push(' ');
        out.push_str(&hex(l.as_bytes()));
    }
    out
}

/// http_parse <header> <body>   (header = bytes up to and including the terminator, as the handler passes them)
fn parse(args: &[&str]) -> String {
    let Some(h) = s(args[0]) else {
        return "ERR".into();
    };
    match hk::parse_http_request(&h, unhex(args[1])) {
        Ok(p) => parsed_str(&p),
        Err(_) => "ERR".into(),
    }
}

/// http_build <method> <version> <host> <port> <path> <is_connect> <body> <line>...
fn build(args: &[&str]) -> String {
    let (Some(m), Some(v), Some(h), Some(path), Some(ls)) = (
        s(args[0]),
        s(args[1]),
        s(args[2]),
        s(args[4]),
        lines(&args[7..]),
    ) else {
        return "ERR".into();
    };
    let p: hk::Parsed = (
        m,
        v,
        h,
        args[3].parse().unwrap(),
        path,
        args[5] == "1",
        ls,
        unhex(args[6]),
    );
    match hk::build_forward_request(&p) {
        Ok(b) => format!("OK {}", hex(&b)),
        Err(_) => "ERR".into(),
    }
}

/// http_fwd <bytes received from the HTTP client in one piece>
/// = what the handler computes before any I/O: find_header_end, from_utf8, parse, (build).
/// Output: `INCOMPLETE` | `ERR` | `OK <host> <port> <is_connect> <rewritten header | -> <body>`
fn fwd(args: &[&str]) -> String {
    let buf = unhex(args[0]);
    let Some(end) = hk::find_header_end(&buf) else {
        return "INCOMPLETE".into();
    };
    let Ok(h) = String::from_utf8(buf[..end].to_vec()) else {
        return "ERR".into();
    };
    let p = match hk::parse_http_request(&h, buf[end..].to_vec()) {
        Ok(p) => p,
        Err(_) => return "ERR".into(),
    };
    let out = if p.5 {
        Vec::new()
    } else {
        match hk::build_forward_request(&p) {
            Ok(b) => b,
            Err(_) => return "ERR".into(),
        }
    };
    format!(
        "OK {} {} {} {} {}",
        hex(p.2.as_bytes()),
        p.3,
        p.5 as u8,
        hex(&out),
        hex(&p.7)
    )
}

fn rt() -> tokio::runtime::Runtime {
    // real sockets: real time, never the paused clock
    tokio::runtime::Builder::new_current_thread()
        .enable_all()
        .build()
        .unwrap()
}

const SEG_PAUSE: Duration = Duration::from_millis(4);

/// write the segments with a flush and a pause after each (TCP_NODELAY set by the caller)
async fn send_segments(c: &mut tokio::net::TcpStream, segs: &[Vec<u8>]) {
    use tokio::io::AsyncWriteExt;
    for (i, seg) in segs.iter().enumerate() {
        if c.write_all(seg).await.is_err() {
            return;
        }
        let _ = c.flush().await;
        if i + 1 < segs.len() {
            tokio::time::sleep(SEG_PAUSE).await;
        }
    }
}

/// http_read <eof:0|1> <segment>...   real loopback TCP; result independent of how TCP coalesces:
/// `OK <header> <everything after the header that was sent>` | `ERR` | `PENDING` (no verdict 150 ms after the last byte)
fn read(args: &[&str]) -> String {
    let eof = args[0] == "1";
    let segs: Vec<Vec<u8>> = args[1..].iter().map(|a| unhex(a)).collect();
    rt().block_on(async move {
        use tokio::io::{AsyncReadExt, AsyncWriteExt};
        let l = tokio::net::TcpListener::bind("127.0.0.1:0").await.unwrap();
        let addr = l.local_addr().unwrap();
        let srv = tokio::spawn(async move {
            let (mut sock, _) = l.accept().await.unwrap();
            let r = hk::read_http_header(&mut sock).await;
            (r, sock)
        });
        let mut c = tokio::net::TcpStream::connect(addr).await.unwrap();
        c.set_nodelay(true).unwrap();
        send_segments(&mut c, &segs).await;
        if eof {
            let _ = c.shutdown().await;
        }
        match tokio::time::timeout(Duration::from_millis(if eof { 3000 } else { 150 }), srv).await {
            Err(_) => "PENDING".to_string(),
            Ok(Err(_)) => "PANIC".to_string(),
            Ok(Ok((Err(_), _))) => "ERR".to_string(),
            Ok(Ok((Ok((h, mut rest)), mut sock))) => {
                // drain what the loop had not read yet, so that the result does not depend on coalescing
                let _ = c.shutdown().await;
                let mut more = Vec::new();
                let _ = tokio::time::timeout(Duration::from_millis(3000), sock.read_to_end(&mut more)).await;
                rest.extend_from_slice(&more);
                format!("OK {} {}", hex(&h), hex(&rest))
            }
        }
    })
}


// ------------------------------------------------------------------------------------------------
// end to end: real `handle_http_proxy_connection` on a loopback TCP connection; the AnyTLS side is an
// in-process server `Session` over tokio::io::duplex, installed through `Client::verif_set_connector`.

#[derive(Default)]
struct Shared {
    /// event log: "OPEN <hexhost> <port>", "SYNACK", "CBYTES" (first bytes seen by the HTTP client)
    events: Vec<String>,
    stream_bytes: Vec<u8>,
    client_bytes: Vec<u8>,
    client_eof: bool,
    stream: Option<(Arc<anytls_rs::session::Session>, u32)>,
}

type Sh = Arc<Mutex<Shared>>;

async fn serve_session(
    half: tokio::io::DuplexStream,
    sh: Sh,
    open_ok: bool,
) {
    use anytls_rs::protocol::{Command, Frame};
    let (mut r, w) = tokio::io::split(half);
    let padding = anytls_rs::padding::PaddingFactory::default();
    let ph = anytls_rs::hash_password("verif");
    if anytls_rs::authenticate_client(&mut r, &ph, &padding).await.is_err() {
        return;
    }
    let (tx, mut rx) = tokio::sync::mpsc::unbounded_channel::<Arc<anytls_rs::session::Stream>>();
    let mut session = anytls_rs::session::Session::new_server(r, w, padding);
    session.set_stream_callback(tx);
    let session = Arc::new(session);
    let s1 = session.clone();
    tokio::spawn(async move {
        let _ = s1.recv_loop().await;
    });
    let s2 = session.clone();
    tokio::spawn(async move {
        let _ = s2.process_stream_data().await;
    });
    while let Some(stream) = rx.recv().await {
        let sh = sh.clone();
        let session = session.clone();
        tokio::spawn(async move {
            let id = stream.id();
            let dest = anytls_rs::server::handler::handler_verif_hooks::read_socks_addr(stream.clone()).await;
            let Ok((host, port)) = dest else {
                sh.lock().unwrap().events.push("BADDEST".into());
                return;
            };
            sh.lock()
                .unwrap()
                .events
                .push(format!("OPEN {} {}", hex(host.as_bytes()), port));
            // the tunnel "exists" only after this pause: a 200 that reaches the HTTP client earlier is visible
            tokio::time::sleep(Duration::from_millis(12)).await;
            sh.lock().unwrap().events.push("SYNACK".into());
            if !open_ok {
                let f = Frame::with_data(Command::SynAck, id, bytes::Bytes::from_static(b"connect failed"));
                let _ = session.write_control_frame(f).await;
                return;
            }
            sh.lock().unwrap().stream = Some((session.clone(), id));
            let _ = session.write_control_frame(Frame::control(Command::SynAck, id)).await;
            let reader = stream.reader().clone();
            let mut buf = vec![0u8; 16384];
            loop {
                let n = {
                    let mut g = reader.lock().await;
                    match g.read(&mut buf).await {
                        Ok(0) | Err(_) => break,
                        Ok(n) => n,
                    }
                };
                sh.lock().unwrap().stream_bytes.extend_from_slice(&buf[..n]);
            }
        });
    }
}

fn snapshot(sh: &Sh) -> (usize, usize, usize, bool) {
    let g = sh.lock().unwrap();
    (g.events.len(), g.stream_bytes.len(), g.client_bytes.len(), g.client_eof)
}

/// wait until nothing has changed for `quiet` (or the HTTP client saw EOF), at most `max`
async fn settle(sh: &Sh, quiet: Duration, max: Duration) {
    let t0 = tokio::time::Instant::now();
    let mut last = snapshot(sh);
    let mut since = tokio::time::Instant::now();
    loop {
        tokio::time::sleep(Duration::from_millis(3)).await;
        let cur = snapshot(sh);
        if cur != last {
            last = cur;
            since = tokio::time::Instant::now();
        }
        if cur.3 || since.elapsed() >= quiet || t0.elapsed() >= max {
            return;
        }
    }
}

fn find(hay: &[u8], pat: &[u8]) -> Option<usize> {
    hay.windows(pat.len()).position(|w| w == pat)
}

/// http_e2e <open_ok:0|1> <resp> <want_stream_len> <want_reply:0|1> <segment>...
/// (the two `want` hints only tell the driver how long to wait before it looks: it waits until that many stream
/// bytes / a reply have been seen, 3 s at most, and then for a quiet period; they do not influence what is reported)
/// Output: `<NOOPEN | OPEN hexhost port> <NONE|200|502|OTHER> <ORD1|ORD0> <relayed 0|1> <hex of all bytes the stream received>`
fn e2e(args: &[&str]) -> String {
    let open_ok = args[0] == "1";
    let resp = unhex(args[1]);
    let want_len: usize = args[2].parse().unwrap();
    let want_reply = args[3] == "1";
    let segs: Vec<Vec<u8>> = args[4..].iter().map(|a| unhex(a)).collect();
    rt().block_on(async move {
        use tokio::io::{AsyncReadExt, AsyncWriteExt};
        let sh: Sh = Arc::new(Mutex::new(Shared::default()));
        let tls = Arc::new(tokio_rustls::TlsConnector::from(
            anytls_rs::util::tls::create_client_config().unwrap(),
        ));
        let name = rustls::pki_types::ServerName::try_from("localhost").unwrap();
        let client = Arc::new(anytls_rs::client::Client::new(
            "verif",
            "127.0.0.1:1".to_string(),
            name,
            tls,
            anytls_rs::padding::PaddingFactory::default(),
        ));
        let shc = sh.clone();
        client.verif_set_connector(Some(Arc::new(move || {
            let (a, b) = tokio::io::duplex(1 << 20);
            tokio::spawn(serve_session(b, shc.clone(), open_ok));
            let (r, w) = tokio::io::split(a);
            (
                Box::new(r) as Box<dyn tokio::io::AsyncRead + Send + Unpin>,
                Box::new(w) as Box<dyn tokio::io::AsyncWrite + Send + Unpin>,
            )
        })));
        let l = tokio::net::TcpListener::bind("127.0.0.1:0").await.unwrap();
        let addr = l.local_addr().unwrap();
        let cl = client.clone();
        tokio::spawn(async move {
            let (sock, _) = l.accept().await.unwrap();
            let _ = hk::handle_http_proxy_connection(sock, cl).await;
        });
        let c = tokio::net::TcpStream::connect(addr).await.unwrap();
        c.set_nodelay(true).unwrap();
        let (mut cr, mut cw) = c.into_split();
        let shr = sh.clone();
        tokio::spawn(async move {
            let mut buf = vec![0u8; 16384];
            loop {
                match cr.read(&mut buf).await {
                    Ok(0) | Err(_) => {
                        shr.lock().unwrap().client_eof = true;
                        break;
                    }
                    Ok(n) => {
                        let mut g = shr.lock().unwrap();
                        if g.client_bytes.is_empty() {
                            g.events.push("CBYTES".into());
                        }
                        g.client_bytes.extend_from_slice(&buf[..n]);
                    }
                }
            }
        });
        for (i, seg) in segs.iter().enumerate() {
            if cw.write_all(seg).await.is_err() {
                break;
            }
            let _ = cw.flush().await;
            if i + 1 < segs.len() {
                tokio::time::sleep(SEG_PAUSE).await;
            }
        }
        let t0 = tokio::time::Instant::now();
        while t0.elapsed() < Duration::from_millis(3000) {
            let (_, sl, cl, ceof) = snapshot(&sh);
            if ceof || (sl >= want_len && (!want_reply || cl > 0)) {
                break;
            }
            tokio::time::sleep(Duration::from_millis(2)).await;
        }
        settle(&sh, Duration::from_millis(40), Duration::from_millis(3000)).await;
        let st = sh.lock().unwrap().stream.clone();
        let mut relayed = false;
        if let Some((session, id)) = st {
            if !resp.is_empty() {
                let _ = session.write_data_frame(id, bytes::Bytes::from(resp.clone())).await;
                let t0 = tokio::time::Instant::now();
                while t0.elapsed() < Duration::from_millis(1500) {
                    if sh.lock().unwrap().client_bytes.ends_with(&resp) {
                        relayed = true;
                        break;
                    }
                    tokio::time::sleep(Duration::from_millis(2)).await;
                }
            }
        }
        let g = sh.lock().unwrap();
        let open = g
            .events
            .iter()
            .find(|e| e.starts_with("OPEN") || e.starts_with("BADDEST"))
            .cloned()
            .unwrap_or_else(|| "NOOPEN".to_string());
        let own: &[u8] = if relayed {
            &g.client_bytes[..g.client_bytes.len() - resp.len()]
        } else {
            &g.client_bytes
        };
        let reply = if own.is_empty() {
            "NONE".to_string()
        } else if own.starts_with(b"HTTP/1.1 200 ") && own.ends_with(b"\r\n\r\n") && find(own, b"\r\n\r\n") == Some(own.len() - 4) {
            "200".to_string()
        } else if own.starts_with(b"HTTP/1.1 502 ") && own.ends_with(b"\r\n\r\n") && find(own, b"\r\n\r\n") == Some(own.len() - 4) {
            "502".to_string()
        } else {
            format!("OTHER:{}", hex(own))
        };
        // the proxy's own reply must not be visible before the tunnel exists (SYNACK logged)
        let pos = |name: &str| g.events.iter().position(|e| e.starts_with(name));
        let ord = match (pos("CBYTES"), pos("SYNACK")) {
            (Some(c), Some(s)) => c > s,
            (Some(_), None) => own.is_empty() || reply != "200",
            (None, _) => true,
        };
        format!(
            "{} {} {} {} {}",
            open,
            reply,
            if ord { "ORD1" } else { "ORD0" },
            relayed as u8,
            hex(&g.stream_bytes)
        )
    })
}

pub fn dispatch(drv: &str, args: &[&str]) -> Option<String> {
    match drv {
        "http_fhe" => Some(fhe(args)),
        "http_shp" => Some(shp(args)),
        "http_dt" => Some(dt(args)),
        "http_parse" => Some(parse(args)),
        "http_build" => Some(build(args)),
        "http_fwd" => Some(fwd(args)),
        "http_read" => Some(read(args)),
        "http_e2e" => Some(e2e(args)),
        _ => None,
    }
}
