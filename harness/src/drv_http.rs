//! implementation-side drivers of work package "http" (see docs/AGENT_GUIDE.md)
#![allow(unused_imports, dead_code)]
use crate::util::{hex, unhex};

pub fn dispatch(drv: &str, args: &[&str]) -> Option<String> {
    let _ = args;
    match drv {
        _ => None,
    }
}
