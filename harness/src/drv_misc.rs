//! implementation-side drivers of work package "misc" (see docs/AGENT_GUIDE.md)
//!
//! C18 (certificate hot-reload):
//!   certgen <new|keypemhex> <serialhex> <cn> <not_before_off_s> <not_after_off_s>
//!       -> `OK <keypemhex> <certpemhex>`   (test material; offsets relative to the wall clock)
//!   cert <check_expiry 0|1> <nblobs> <hex|class>{nblobs} <op>...
//!       a real `CertReloader` (watch_enabled = false) over two files in a fresh temp dir.
//!       Blobs are referenced by index; `-` = file absent. Ops:
//!         Wc:<i> Wk:<i>   write the certificate / key file (regular file, whole content)
//!         Dc Dk           delete the file
//!         N               CertReloader::new          NN:<c1>:<k>:<c2>  the same with explicit reads
//!         R               reload()                   RR:<c1>:<k>:<c2>  the same with explicit reads
//!         A               accept: snapshot get_acceptor() as connection j (server.rs `listen`)
//!         H:<j>           TLS handshake of accepted connection j (with the snapshot taken then)
//!         E               accept + handshake now, keep the session      P:<j>  ping over session j
//!       "explicit reads": the certificate path is a FIFO that delivers <c1> to the first open; before the
//!       reader sees EOF the path is atomically replaced by a regular file holding <c2> (or removed), so a
//!       second open of the path observes <c2>. The key file holds <k>. This is an update of the
//!       certificate file landing between the reads the code performs, made deterministic.
//!       After N/NN/R/RR the driver observes: the leaf served by get_acceptor() in an in-memory handshake,
//!       get_cert_info() (serial, subject), get_reload_count(), get_last_reload().
#![allow(unused_imports, dead_code)]
use crate::util::{hex, unhex};
use anytls_rs::util::{AnyTlsError, CertReloader, CertReloaderConfig};
use sha2::{Digest, Sha256};
use std::path::{Path, PathBuf};
use std::sync::Arc;
use std::sync::atomic::{AtomicBool, Ordering};
use std::time::{Duration, Instant, SystemTime};
use tokio::io::{AsyncReadExt, AsyncWriteExt};
use tokio_rustls::{TlsAcceptor, TlsConnector};

// ------------------------------------------------------------------ test material
fn certgen(args: &[&str]) -> String {
    if args.len() != 5 {
        return "BADCASE".into();
    }
    let kp = if args[0] == "new" {
        rcgen::KeyPair::generate()
    } else {
        rcgen::KeyPair::from_pem(&String::from_utf8_lossy(&unhex(args[0])))
    };
    let kp = match kp {
        Ok(k) => k,
        Err(e) => return format!("ERR key {}", e).replace(' ', "_"),
    };
    let cn = args[2];
    let mut p = match rcgen::CertificateParams::new(vec![cn.to_string(), "localhost".to_string()]) {
        Ok(p) => p,
        Err(e) => return format!("ERR params {}", e).replace(' ', "_"),
    };
    p.distinguished_name = rcgen::DistinguishedName::new();
    p.distinguished_name.push(rcgen::DnType::CommonName, cn);
    p.serial_number = Some(rcgen::SerialNumber::from_slice(&unhex(args[1])));
    let nb: i64 = args[3].parse().unwrap();
    let na: i64 = args[4].parse().unwrap();
    let now = SystemTime::now();
    let off = |o: i64| {
        if o >= 0 {
            now + Duration::from_secs(o as u64)
        } else {
            now - Duration::from_secs((-o) as u64)
        }
    };
    p.not_before = off(nb).into();
    p.not_after = off(na).into();
    match p.self_signed(&kp) {
        Ok(c) => format!("OK {} {}", hex(kp.serialize_pem().as_bytes()), hex(c.pem().as_bytes())),
        Err(e) => format!("ERR sign {}", e).replace(' ', "_"),
    }
}

// ------------------------------------------------------------------ TLS client that accepts anything
#[derive(Debug)]
struct AcceptAny;
impl rustls::client::danger::ServerCertVerifier for AcceptAny {
    fn verify_server_cert(
        &self,
        _e: &rustls::pki_types::CertificateDer<'_>,
        _i: &[rustls::pki_types::CertificateDer<'_>],
        _n: &rustls::pki_types::ServerName<'_>,
        _o: &[u8],
        _t: rustls::pki_types::UnixTime,
    ) -> Result<rustls::client::danger::ServerCertVerified, rustls::Error> {
        Ok(rustls::client::danger::ServerCertVerified::assertion())
    }
    fn verify_tls12_signature(
        &self,
        _m: &[u8],
        _c: &rustls::pki_types::CertificateDer<'_>,
        _d: &rustls::DigitallySignedStruct,
    ) -> Result<rustls::client::danger::HandshakeSignatureValid, rustls::Error> {
        Ok(rustls::client::danger::HandshakeSignatureValid::assertion())
    }
    fn verify_tls13_signature(
        &self,
        _m: &[u8],
        _c: &rustls::pki_types::CertificateDer<'_>,
        _d: &rustls::DigitallySignedStruct,
    ) -> Result<rustls::client::danger::HandshakeSignatureValid, rustls::Error> {
        Ok(rustls::client::danger::HandshakeSignatureValid::assertion())
    }
    fn supported_verify_schemes(&self) -> Vec<rustls::SignatureScheme> {
        use rustls::SignatureScheme::*;
        vec![
            RSA_PKCS1_SHA256,
            RSA_PKCS1_SHA384,
            RSA_PKCS1_SHA512,
            ECDSA_NISTP256_SHA256,
            ECDSA_NISTP384_SHA384,
            ECDSA_NISTP521_SHA512,
            RSA_PSS_SHA256,
            RSA_PSS_SHA384,
            RSA_PSS_SHA512,
            ED25519,
        ]
    }
}

fn client_config() -> Arc<rustls::ClientConfig> {
    let mut c = rustls::ClientConfig::builder()
        .with_root_certificates(rustls::RootCertStore::empty())
        .with_no_client_auth();
    c.dangerous().set_certificate_verifier(Arc::new(AcceptAny));
    Arc::new(c)
}

type CliStream = tokio_rustls::client::TlsStream<tokio::io::DuplexStream>;
type SrvStream = tokio_rustls::server::TlsStream<tokio::io::DuplexStream>;

fn fp(der: &[u8]) -> String {
    let d = Sha256::digest(der);
    hex(&d[..8])
}

/// in-memory handshake against `acc`; returns the fingerprint of the leaf the client received
fn handshake(rt: &tokio::runtime::Runtime, acc: &Arc<TlsAcceptor>) -> Option<(String, CliStream, SrvStream)> {
    let acc = acc.clone();
    rt.block_on(async move {
        let (a, b) = tokio::io::duplex(1 << 16);
        let conn = TlsConnector::from(client_config());
        let name = rustls::pki_types::ServerName::try_from("localhost").unwrap();
        let (c, s) = tokio::join!(conn.connect(name, a), acc.accept(b));
        let (c, s) = (c.ok()?, s.ok()?);
        let leaf = c.get_ref().1.peer_certificates()?.first()?.clone();
        Some((fp(leaf.as_ref()), c, s))
    })
}

fn ping(rt: &tokio::runtime::Runtime, c: &mut CliStream, s: &mut SrvStream) -> Option<String> {
    rt.block_on(async {
        c.write_all(b"ping").await.ok()?;
        c.flush().await.ok()?;
        let mut buf = [0u8; 4];
        s.read_exact(&mut buf).await.ok()?;
        s.write_all(&buf).await.ok()?;
        s.flush().await.ok()?;
        let mut back = [0u8; 4];
        c.read_exact(&mut back).await.ok()?;
        if &back != b"ping" {
            return None;
        }
        let leaf = c.get_ref().1.peer_certificates()?.first()?.clone();
        Some(fp(leaf.as_ref()))
    })
}

fn err_class(e: &AnyTlsError) -> &'static str {
    match e {
        AnyTlsError::Io(_) => "io",
        AnyTlsError::Tls(_) => "tls",
        _ => "other",
    }
}

// ------------------------------------------------------------------ the two files
struct Disk {
    dir: tempfile::TempDir,
    cert: PathBuf,
    key: PathBuf,
    blobs: Vec<Vec<u8>>,
}

impl Disk {
    fn blob(&self, tok: &str) -> Option<&[u8]> {
        if tok == "-" {
            None
        } else {
            Some(&self.blobs[tok.parse::<usize>().expect("blob index")])
        }
    }
    fn put(&self, path: &Path, tok: &str) {
        let _ = std::fs::remove_file(path);
        if let Some(b) = self.blob(tok) {
            std::fs::write(path, b).unwrap();
        }
    }
    /// run `f` while the certificate path delivers c1 to the first open and c2 to any later open
    fn with_reads<T>(&self, c1: &str, k: &str, c2: &str, f: impl FnOnce() -> T) -> T {
        self.put(&self.key, k);
        let first = match self.blob(c1) {
            None => {
                // absent at the first read: nothing is read a second time on any path of the code
                let _ = std::fs::remove_file(&self.cert);
                let r = f();
                self.put(&self.cert, c2);
                return r;
            }
            Some(b) => b.to_vec(),
        };
        let _ = std::fs::remove_file(&self.cert);
        let st = std::process::Command::new("mkfifo").arg(&self.cert).status().expect("mkfifo");
        assert!(st.success(), "mkfifo failed");
        let next = self.dir.path().join("cert.next");
        let second = self.blob(c2).map(|b| b.to_vec());
        if let Some(b) = &second {
            std::fs::write(&next, b).unwrap();
        }
        let cert = self.cert.clone();
        let served = Arc::new(AtomicBool::new(false));
        let served2 = served.clone();
        let has_second = second.is_some();
        let th = std::thread::spawn(move || {
            use std::io::Write;
            // blocks until the code under test opens the certificate path for reading
            let mut w = std::fs::OpenOptions::new().write(true).open(&cert).unwrap();
            w.write_all(&first).unwrap();
            // switch the path before the reader can see EOF
            if has_second {
                std::fs::rename(&next, &cert).unwrap();
            } else {
                std::fs::remove_file(&cert).unwrap();
            }
            served2.store(true, Ordering::SeqCst);
            drop(w);
        });
        let r = f();
        if !served.load(Ordering::SeqCst) && !th.is_finished() {
            // the code never opened the certificate path: release the writer
            if let Ok(_rw) = std::fs::OpenOptions::new().read(true).write(true).open(&self.cert) {
                let _ = th.join();
            }
        } else {
            let _ = th.join();
        }
        // final on-disk state: c2
        self.put(&self.cert, c2);
        r
    }
}

fn cert(args: &[&str]) -> String {
    if args.len() < 2 {
        return "BADCASE".into();
    }
    let check_expiry = args[0] == "1";
    let nblobs: usize = args[1].parse().unwrap();
    let blobs: Vec<Vec<u8>> = args[2..2 + nblobs].iter().map(|t| unhex(t.split('|').next().unwrap())).collect();
    let ops = &args[2 + nblobs..];
    let dir = tempfile::tempdir().expect("tempdir");
    let disk = Disk { cert: dir.path().join("cert.pem"), key: dir.path().join("key.pem"), dir, blobs };
    let rt = tokio::runtime::Builder::new_current_thread().enable_all().build().unwrap();
    let cfg = CertReloaderConfig {
        cert_path: disk.cert.clone(),
        key_path: disk.key.clone(),
        watch_enabled: false,
        debounce_ms: 500,
        check_expiry,
        expiry_warning_days: 30,
    };
    let mut rel: Option<CertReloader> = None;
    let mut last_seen: Option<Instant> = None;
    let mut last_step: Option<usize> = None;
    let mut conns: Vec<Arc<TlsAcceptor>> = Vec::new();
    let mut sessions: Vec<(CliStream, SrvStream)> = Vec::new();
    let mut out: Vec<String> = Vec::new();

    let observe = |rel: &CertReloader, step: usize, last_seen: &mut Option<Instant>, last_step: &mut Option<usize>| -> String {
        let leaf = match handshake(&rt, &rel.get_acceptor()) {
            Some((f, _, _)) => f,
            None => "fail".to_string(),
        };
        let info = match rel.get_cert_info() {
            Some(i) => format!("{}/{}", i.serial_number.replace(':', ""), i.subject.replace(' ', "_")),
            None => "none".to_string(),
        };
        let l = rel.get_last_reload();
        if l != *last_seen {
            *last_seen = l;
            *last_step = Some(step);
        }
        let last = match (l, *last_step) {
            (None, _) => "none".to_string(),
            (Some(_), Some(s)) => s.to_string(),
            (Some(_), None) => "?".to_string(),
        };
        format!("[leaf={} info={} cnt={} last={}]", leaf, info, rel.get_reload_count(), last)
    };

    for (step, op) in ops.iter().enumerate() {
        let parts: Vec<&str> = op.split(':').collect();
        match parts[0] {
            "Wc" => disk.put(&disk.cert, parts[1]),
            "Wk" => disk.put(&disk.key, parts[1]),
            "Dc" => disk.put(&disk.cert, "-"),
            "Dk" => disk.put(&disk.key, "-"),
            "N" | "NN" => {
                let r = if parts[0] == "N" {
                    CertReloader::new(cfg.clone())
                } else {
                    disk.with_reads(parts[1], parts[2], parts[3], || CertReloader::new(cfg.clone()))
                };
                match r {
                    Ok(r) => {
                        last_seen = None;
                        last_step = None;
                        out.push(format!("new=ok {}", observe(&r, step, &mut last_seen, &mut last_step)));
                        rel = Some(r);
                    }
                    Err(e) => out.push(format!("new=err:{}", err_class(&e))),
                }
            }
            "R" | "RR" => match &rel {
                None => {
                    if parts[0] == "RR" {
                        // no reloader to run: the update of the files still happens
                        disk.put(&disk.key, parts[2]);
                        disk.put(&disk.cert, parts[3]);
                    }
                    out.push("r=noreloader".into())
                }
                Some(r) => {
                    let res = if parts[0] == "R" {
                        r.reload()
                    } else {
                        disk.with_reads(parts[1], parts[2], parts[3], || r.reload())
                    };
                    let s = match res {
                        Ok(()) => "ok".to_string(),
                        Err(e) => format!("err:{}", err_class(&e)),
                    };
                    out.push(format!("r={} {}", s, observe(r, step, &mut last_seen, &mut last_step)));
                }
            },
            "A" => match &rel {
                None => out.push("a=noreloader".into()),
                Some(r) => {
                    conns.push(r.get_acceptor());
                    out.push(format!("a={}", conns.len() - 1));
                }
            },
            "H" => {
                let j: usize = parts[1].parse().unwrap();
                match conns.get(j) {
                    None => out.push("h=noconn".into()),
                    Some(a) => out.push(format!("h={}", handshake(&rt, a).map(|x| x.0).unwrap_or_else(|| "fail".into()))),
                }
            }
            "E" => match &rel {
                None => out.push("e=noreloader".into()),
                Some(r) => match handshake(&rt, &r.get_acceptor()) {
                    Some((f, c, s)) => {
                        sessions.push((c, s));
                        out.push(format!("e={}:{}", sessions.len() - 1, f));
                    }
                    None => out.push("e=fail".into()),
                },
            },
            "P" => {
                let j: usize = parts[1].parse().unwrap();
                match sessions.get_mut(j) {
                    None => out.push("p=nosession".into()),
                    Some((c, s)) => out.push(format!("p={}", ping(&rt, c, s).unwrap_or_else(|| "fail".into()))),
                }
            }
            _ => out.push("BADOP".into()),
        }
    }
    out.join(" ")
}

// ------------------------------------------------------------------ the real listener (server.rs `listen`)
/// certlisten <check_expiry> <nblobs> <hex|class>{nblobs} <op>...
///   Wc:<i> Wk:<i> Dc Dk as in `cert`;  N = CertReloader::new + `Server::new_with_reloadable_tls(..,
///   reloader.get_acceptor_ref(), ..)` listening on a loopback port (real sockets, real time);
///   R = reload();  C = a real TCP + TLS client connection to the listener, prints the leaf it was served.
/// The runtime is single-threaded and only runs inside the driver's block_on calls, so between two
/// operations the listener task is parked exactly where it awaits `listener.accept()`.
fn certlisten(args: &[&str]) -> String {
    if args.len() < 2 {
        return "BADCASE".into();
    }
    let check_expiry = args[0] == "1";
    let nblobs: usize = args[1].parse().unwrap();
    let blobs: Vec<Vec<u8>> = args[2..2 + nblobs].iter().map(|t| unhex(t.split('|').next().unwrap())).collect();
    let ops = &args[2 + nblobs..];
    let dir = tempfile::tempdir().expect("tempdir");
    let disk = Disk { cert: dir.path().join("cert.pem"), key: dir.path().join("key.pem"), dir, blobs };
    let rt = tokio::runtime::Builder::new_current_thread().enable_all().build().unwrap();
    let cfg = CertReloaderConfig {
        cert_path: disk.cert.clone(),
        key_path: disk.key.clone(),
        watch_enabled: false,
        debounce_ms: 500,
        check_expiry,
        expiry_warning_days: 30,
    };
    let mut rel: Option<CertReloader> = None;
    let mut addr: Option<String> = None;
    let mut out: Vec<String> = Vec::new();
    for op in ops.iter() {
        let parts: Vec<&str> = op.split(':').collect();
        match parts[0] {
            "Wc" => disk.put(&disk.cert, parts[1]),
            "Wk" => disk.put(&disk.key, parts[1]),
            "Dc" => disk.put(&disk.cert, "-"),
            "Dk" => disk.put(&disk.key, "-"),
            "N" => {
                if rel.is_some() {
                    out.push("BADOP".into());
                    continue;
                }
                match CertReloader::new(cfg.clone()) {
                    Err(e) => out.push(format!("new=err:{}", err_class(&e))),
                    Ok(r) => {
                        let port = {
                            let l = std::net::TcpListener::bind("127.0.0.1:0").unwrap();
                            l.local_addr().unwrap().port()
                        };
                        let a = format!("127.0.0.1:{}", port);
                        let server = Arc::new(anytls_rs::server::Server::new_with_reloadable_tls(
                            "pw",
                            r.get_acceptor_ref(),
                            anytls_rs::padding::PaddingFactory::default(),
                            None,
                        ));
                        let a2 = a.clone();
                        rt.spawn(async move {
                            let _ = server.listen(&a2).await;
                        });
                        // wait until the port accepts (the probe connection is closed at once)
                        let up = rt.block_on(async {
                            for _ in 0..400 {
                                if tokio::net::TcpStream::connect(&a).await.is_ok() {
                                    tokio::time::sleep(Duration::from_millis(20)).await;
                                    return true;
                                }
                                tokio::time::sleep(Duration::from_millis(5)).await;
                            }
                            false
                        });
                        out.push(if up { "new=ok".into() } else { "new=nolisten".to_string() });
                        rel = Some(r);
                        addr = Some(a);
                    }
                }
            }
            "R" => match &rel {
                None => out.push("r=noreloader".into()),
                Some(r) => out.push(match r.reload() {
                    Ok(()) => "r=ok".to_string(),
                    Err(e) => format!("r=err:{}", err_class(&e)),
                }),
            },
            "C" => match &addr {
                None => out.push("c=noserver".into()),
                Some(a) => {
                    let leaf = rt.block_on(async {
                        let tcp = tokio::time::timeout(Duration::from_secs(3), tokio::net::TcpStream::connect(a)).await.ok()?.ok()?;
                        let conn = TlsConnector::from(client_config());
                        let name = rustls::pki_types::ServerName::try_from("localhost").unwrap();
                        let tls = tokio::time::timeout(Duration::from_secs(3), conn.connect(name, tcp)).await.ok()?.ok()?;
                        let leaf = tls.get_ref().1.peer_certificates()?.first()?.clone();
                        Some(fp(leaf.as_ref()))
                    });
                    out.push(format!("c={}", leaf.unwrap_or_else(|| "fail".into())));
                }
            },
            _ => out.push("BADOP".into()),
        }
    }
    out.join(" ")
}

pub fn dispatch(drv: &str, args: &[&str]) -> Option<String> {
    match drv {
        "certgen" => Some(certgen(args)),
        "cert" => Some(cert(args)),
        "certlisten" => Some(certlisten(args)),
        _ => None,
    }
}
