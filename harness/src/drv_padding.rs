//! implementation-side drivers of work package "padding" (C04, C05, C19; see docs/AGENT_GUIDE.md)
//!
//!  pfnew <rawhex>                         PaddingFactory::new            -> OK <stop> <md5> | ERR
//!  sizes <rawhex> <pkt>                   generate_record_payload_sizes  -> S <i32>... | ERR
//!  auth  <rawhex>                         send_authentication            -> W <hex> ... |  (| = flush)
//!  shape <c|s> <rawhex> <op>...           a Session over the recording transport
//!        ops: S start_client, U disable_buffering, F:cmd.sid.len.a.b write_frame,
//!             D:sid.len.a.b write_data_frame   (payload byte i = (a + b*i) mod 256)
//!        tokens starting with `draws=` are for the model side only and are skipped here
//!  c19 <op>...                            one process history, run in a FRESH PROCESS (re-exec)
//!        ops: D  PaddingFactory::default()            Q  md5 of the current default
//!             C:<rawhex|default>  build the Client    N:<srvrawhex|->  new session (+ server peer)
//!             K:<i>  flush packet 1 (Settings+SYN)    P:<i>:<rawhex>  deliver UpdatePaddingScheme
//!             W:<i>:<len>  send one data frame        X:<i>:<hex> deliver raw bytes to session i
//! Only API that exists on the pinned tree is used, so that a reverted fix still compiles.
#![allow(unused_imports, dead_code)]
use crate::transport::{ChanReader, REv, RecWriter, WEv, WHandle, bursts};
use crate::util::{hex, unhex};
use anytls_rs::client::Client;
use anytls_rs::padding::PaddingFactory;
use anytls_rs::protocol::{Command, Frame, FrameCodec};
use anytls_rs::session::Session;
use bytes::{Bytes, BytesMut};
use std::sync::{Arc, Mutex};
use tokio::sync::mpsc;
use tokio_util::codec::{Decoder, Encoder};

fn rt() -> tokio::runtime::Runtime {
    tokio::runtime::Builder::new_current_thread()
        .enable_all()
        .start_paused(true)
        .build()
        .unwrap()
}

fn pattern(len: usize, a: u64, b: u64) -> Vec<u8> {
    (0..len as u64)
        .map(|i| ((a.wrapping_add(b.wrapping_mul(i))) & 0xff) as u8)
        .collect()
}

fn log_tokens(log: &[WEv]) -> String {
    let mut s = String::new();
    for e in log {
        match e {
            WEv::Write(b) => {
                s.push_str("W ");
                s.push_str(&hex(b));
                s.push(' ');
            }
            WEv::Flush => s.push_str("| "),
            WEv::Shutdown => s.push_str("SHUTDOWN "),
            WEv::Failed => s.push_str("FAILED "),
        }
    }
    s
}

fn pfnew(args: &[&str]) -> String {
    match PaddingFactory::new(&unhex(args[0])) {
        Ok(f) => format!("OK {} {}", f.stop(), f.md5()),
        Err(_) => "ERR".to_string(),
    }
}

fn sizes(args: &[&str]) -> String {
    let pkt: u32 = args[1].parse().unwrap();
    match PaddingFactory::new(&unhex(args[0])) {
        Ok(f) => {
            let v = f.generate_record_payload_sizes(pkt);
            let mut s = String::from("S");
            for x in v {
                s.push_str(&format!(" {}", x));
            }
            s
        }
        Err(_) => "ERR".to_string(),
    }
}

fn auth(args: &[&str]) -> String {
    let f = match PaddingFactory::new(&unhex(args[0])) {
        Ok(f) => Arc::new(f),
        Err(_) => return "ERR".to_string(),
    };
    let hash: [u8; 32] = core::array::from_fn(|i| (0xa0 + i) as u8);
    rt().block_on(async move {
        let (mut w, h) = RecWriter::new(None);
        let r = anytls_rs::util::send_authentication(&mut w, &hash, &f).await;
        let mut s = log_tokens(&h.log());
        if r.is_err() {
            s.push_str("E ");
        }
        s
    })
}

fn parse_frame_spec(spec: &str) -> (u8, u32, usize, u64, u64) {
    let p: Vec<&str> = spec.split('.').collect();
    (
        p[0].parse().unwrap(),
        p[1].parse().unwrap(),
        p[2].parse().unwrap(),
        p[3].parse().unwrap(),
        p[4].parse().unwrap(),
    )
}

fn shape(args: &[&str]) -> String {
    let role = args[0];
    let f = match PaddingFactory::new(&unhex(args[1])) {
        Ok(f) => Arc::new(f),
        Err(_) => return "ERR".to_string(),
    };
    let ops: Vec<String> = args[2..].iter().map(|s| s.to_string()).collect();
    rt().block_on(async move {
        let (w, h) = RecWriter::new(None);
        let (r, _tx) = ChanReader::new();
        let sess = Arc::new(if role == "c" {
            Session::new_client(r, w, f, None)
        } else {
            Session::new_server(r, w, f)
        });
        let mut out = String::new();
        for op in ops.iter() {
            if op.starts_with("draws=") {
                continue;
            }
            if let Some(k) = op.strip_prefix("maxw=") {
                // from now on the transport accepts at most k bytes per poll_write (short writes)
                h.set_max_per_write(k.parse().ok().filter(|k: &usize| *k > 0));
                continue;
            }
            let res = if op == "S" {
                sess.clone().start_client().await.is_ok()
            } else if op == "U" {
                sess.disable_buffering();
                true
            } else if let Some(spec) = op.strip_prefix("F:") {
                let (c, sid, len, a, b) = parse_frame_spec(spec);
                let fr = Frame::with_data(Command::from(c), sid, Bytes::from(pattern(len, a, b)));
                sess.write_frame(fr).await.is_ok()
            } else if let Some(spec) = op.strip_prefix("D:") {
                let full = format!("2.{}", spec);
                let (_, sid, len, a, b) = parse_frame_spec(&full);
                sess.write_data_frame(sid, Bytes::from(pattern(len, a, b)))
                    .await
                    .is_ok()
            } else {
                panic!("bad op {}", op)
            };
            for e in h.take_log() {
                out.push_str(&log_tokens(&[e]));
            }
            if !res {
                out.push_str("E ");
            }
            out.push_str("; ");
        }
        out
    })
}

// ------------------------------------------------------------------------------------------ C19
fn c19(args: &[&str]) -> String {
    use std::io::Write;
    use std::process::{Command as PCommand, Stdio};
    let exe = std::env::current_exe().unwrap();
    let mut child = PCommand::new(exe)
        .stdin(Stdio::piped())
        .stdout(Stdio::piped())
        .stderr(Stdio::null())
        .spawn()
        .unwrap();
    {
        let mut stdin = child.stdin.take().unwrap();
        let line = format!("c19child x {}\n", args.join(" "));
        stdin.write_all(line.as_bytes()).unwrap();
    }
    let out = child.wait_with_output().unwrap();
    let s = String::from_utf8_lossy(&out.stdout).to_string();
    let s = s.trim();
    match s.strip_prefix("x ") {
        Some(r) => r.to_string(),
        None => format!("CHILD-DIED {}", s.replace(' ', "_")),
    }
}

struct CSess {
    sess: Arc<Session>,
    cw: WHandle,                       // what the client session wrote
    to_client: mpsc::UnboundedSender<REv>, // feeds the client session's reader
    sw: Option<WHandle>,               // what the server peer wrote
    seen_srv_bytes: usize,
}

async fn settle() {
    for _ in 0..300 {
        tokio::task::yield_now().await;
    }
}

fn decode_frames(b: &[u8]) -> (Vec<Frame>, usize) {
    let mut buf = BytesMut::from(b);
    let mut codec = FrameCodec;
    let mut v = Vec::new();
    while let Ok(Some(f)) = codec.decode(&mut buf) {
        v.push(f);
    }
    (v, buf.len())
}

fn md5hex(b: &[u8]) -> String {
    format!("{:x}", md5::compute(b))
}

fn lens(ws: &[Vec<u8>]) -> String {
    if ws.is_empty() {
        return "-".to_string();
    }
    ws.iter()
        .map(|w| w.len().to_string())
        .collect::<Vec<_>>()
        .join(",")
}

fn writes_of(log: &[WEv]) -> Vec<Vec<u8>> {
    log.iter()
        .filter_map(|e| match e {
            WEv::Write(b) => Some(b.clone()),
            _ => None,
        })
        .collect()
}

/// canonical text of a settings frame: sorted `key=value` lines joined by `,`
fn settings_canon(data: &[u8]) -> String {
    let t = String::from_utf8_lossy(data).to_string();
    let mut ls: Vec<&str> = t.split('\n').collect();
    ls.sort();
    ls.join(",")
}

fn frames_summary(fs: &[Frame]) -> String {
    if fs.is_empty() {
        return "-".to_string();
    }
    fs.iter()
        .map(|f| match f.cmd {
            Command::UpdatePaddingScheme => format!("upd:{}", md5hex(&f.data)),
            Command::Settings | Command::ServerSettings => {
                format!("{}:{}", u8::from(f.cmd), settings_canon(&f.data))
            }
            Command::Waste => format!("0:{}", f.data.len()),
            c => format!("{}:{}:{}", u8::from(c), f.stream_id, f.data.len()),
        })
        .collect::<Vec<_>>()
        .join("~")
}

type Slot = Arc<Mutex<Option<(WHandle, mpsc::UnboundedSender<REv>, Option<WHandle>)>>>;

fn c19child(args: &[&str]) -> String {
    let ops: Vec<String> = args.iter().map(|s| s.to_string()).collect();
    rt().block_on(async move {
        let mut out = String::new();
        let mut client: Option<Arc<Client>> = None;
        let mut sessions: Vec<CSess> = Vec::new();
        let password = "pw";
        let hash = anytls_rs::util::hash_password(password);
        for op in ops.iter() {
            if op.starts_with("draws=") {
                continue; // model side only
            }
            if op == "D" {
                let _ = PaddingFactory::default();
                out.push_str("D ");
            } else if op == "Q" {
                out.push_str(&format!("Q {} ", PaddingFactory::default().md5()));
            } else if let Some(raw) = op.strip_prefix("C:") {
                let padding = if raw == "default" {
                    PaddingFactory::default()
                } else {
                    match PaddingFactory::new(&unhex(raw)) {
                        Ok(f) => Arc::new(f),
                        Err(_) => return "CLIENT-SCHEME-ERR".to_string(),
                    }
                };
                let cfg = anytls_rs::util::create_client_config().unwrap();
                let connector = tokio_rustls::TlsConnector::from(cfg);
                let sn = rustls::pki_types::ServerName::try_from("localhost".to_string()).unwrap();
                let c = Client::new(
                    password,
                    "127.0.0.1:1".to_string(),
                    sn,
                    Arc::new(connector),
                    padding,
                );
                c.stop_session_pool_cleanup().await;
                client = Some(Arc::new(c));
                out.push_str("C ");
            } else if let Some(srv) = op.strip_prefix("N:") {
                let c = client.as_ref().expect("C before N").clone();
                let slot: Slot = Arc::new(Mutex::new(None));
                let slot2 = slot.clone();
                let srv_scheme: Option<Arc<PaddingFactory>> = if srv == "-" {
                    None
                } else {
                    match PaddingFactory::new(&unhex(srv)) {
                        Ok(f) => Some(Arc::new(f)),
                        Err(_) => return "SERVER-SCHEME-ERR".to_string(),
                    }
                };
                let connector: anytls_rs::client::VerifConnector = Arc::new(move || {
                    // client -> server direction
                    let (srv_reader, to_server) = ChanReader::new();
                    let (cw, cwh) = RecWriter::new(Some(to_server));
                    // server -> client direction
                    let (cli_reader, to_client) = ChanReader::new();
                    let mut swh_opt = None;
                    if let Some(sf) = srv_scheme.clone() {
                        let (sw, swh) = RecWriter::new(Some(to_client.clone()));
                        swh_opt = Some(swh);
                        let hash = hash;
                        tokio::spawn(async move {
                            let mut r = srv_reader;
                            if anytls_rs::util::authenticate_client(&mut r, &hash, &sf)
                                .await
                                .is_err()
                            {
                                return;
                            }
                            let s = Arc::new(Session::new_server(r, sw, sf));
                            let _ = s.recv_loop().await;
                        });
                    } else {
                        drop(srv_reader); // RecWriter ignores a closed forward channel
                    }
                    *slot2.lock().unwrap() = Some((cwh, to_client, swh_opt));
                    (
                        Box::new(cli_reader) as Box<dyn tokio::io::AsyncRead + Send + Unpin>,
                        Box::new(cw) as Box<dyn tokio::io::AsyncWrite + Send + Unpin>,
                    )
                });
                c.verif_set_connector(Some(connector));
                // make sure no pooled session is reused: this history step is "open a new session"
                while c.verif_session_pool().get_idle_session().await.is_some() {}
                let sess = match c.create_stream().await {
                    Ok(s) => s,
                    Err(_) => return format!("{}NEW-SESSION-ERR", out),
                };
                while c.verif_session_pool().get_idle_session().await.is_some() {}
                settle().await;
                let (cwh, to_client, swh) = slot.lock().unwrap().take().expect("connector used");
                // the authentication preamble is everything written so far (Settings is still buffered)
                let ws = writes_of(&cwh.take_log());
                let all: Vec<u8> = ws.concat();
                let plen = if all.len() >= 34 {
                    (all[32] as usize) * 256 + all[33] as usize
                } else {
                    99999999
                };
                out.push_str(&format!("N {} {} ", all.len(), plen));
                sessions.push(CSess {
                    sess,
                    cw: cwh,
                    to_client,
                    sw: swh,
                    seen_srv_bytes: 0,
                });
            } else if let Some(i) = op.strip_prefix("K:") {
                let i: usize = i.parse().unwrap();
                let cs = &mut sessions[i];
                cs.sess.disable_buffering();
                let ok = cs
                    .sess
                    .write_frame(Frame::control(Command::Syn, 1))
                    .await
                    .is_ok();
                settle().await;
                let ws = writes_of(&cs.cw.take_log());
                let (fs, rest) = decode_frames(&ws.concat());
                let srv = match &cs.sw {
                    Some(h) => {
                        let b = h.bytes();
                        let (sf, _) = decode_frames(&b[cs.seen_srv_bytes..]);
                        cs.seen_srv_bytes = b.len();
                        frames_summary(&sf)
                    }
                    None => "-".to_string(),
                };
                out.push_str(&format!(
                    "K {} {} {} {} {} ",
                    if ok { "ok" } else { "err" },
                    lens(&ws),
                    frames_summary(&fs),
                    rest,
                    srv
                ));
            } else if let Some(rest) = op.strip_prefix("P:") {
                let (i, raw) = rest.split_once(':').unwrap();
                let i: usize = i.parse().unwrap();
                let cs = &mut sessions[i];
                let fr = Frame::with_data(
                    Command::UpdatePaddingScheme,
                    0,
                    Bytes::from(unhex(raw)),
                );
                let mut b = BytesMut::new();
                FrameCodec.encode(fr, &mut b).unwrap();
                let _ = cs.to_client.send(REv::Data(b.to_vec()));
                settle().await;
                out.push_str(&format!(
                    "P {} ",
                    if cs.sess.is_closed() { "closed" } else { "open" }
                ));
            } else if let Some(rest) = op.strip_prefix("X:") {
                let (i, raw) = rest.split_once(':').unwrap();
                let i: usize = i.parse().unwrap();
                let cs = &mut sessions[i];
                let _ = cs.to_client.send(REv::Data(unhex(raw)));
                settle().await;
                out.push_str(&format!(
                    "X {} ",
                    if cs.sess.is_closed() { "closed" } else { "open" }
                ));
            } else if let Some(rest) = op.strip_prefix("W:") {
                let (i, len) = rest.split_once(':').unwrap();
                let i: usize = i.parse().unwrap();
                let len: usize = len.parse().unwrap();
                let cs = &mut sessions[i];
                let ok = cs
                    .sess
                    .write_data_frame(1, Bytes::from(pattern(len, 1, 1)))
                    .await
                    .is_ok();
                settle().await;
                let ws = writes_of(&cs.cw.take_log());
                let (fs, rest) = decode_frames(&ws.concat());
                out.push_str(&format!(
                    "W {} {} {} {} ",
                    if ok { "ok" } else { "err" },
                    lens(&ws),
                    frames_summary(&fs),
                    rest
                ));
            } else {
                panic!("bad op {}", op);
            }
        }
        out
    })
}

pub fn dispatch(drv: &str, args: &[&str]) -> Option<String> {
    match drv {
        "pfnew" => Some(pfnew(args)),
        "sizes" => Some(sizes(args)),
        "auth" => Some(auth(args)),
        "shape" => Some(shape(args)),
        "c19" => Some(c19(args)),
        "c19child" => Some(c19child(args)),
        _ => None,
    }
}
