//! implementation-side drivers of work package "parsers" (C06, C07, C15, C16).
//!
//! Line protocol (same drivers, same output in extract/drv_parsers.ml):
//!   authsrv  <hash32hex> <eof> <chunk>...        authenticate_client over a scripted transport
//!                                                 -> OK <rest hex> | ERR AUTH | ERR EOF | PENDING
//!   destdec  <eof> <chunk>...                    handler.rs read_socks_addr over a Stream fed with the chunks
//!                                                 -> OK <addr text hex> <port> <rest hex> | ERR <class> | PENDING
//!   udpinit  <seedname|-> <eof> <chunk>...       udp_proxy.rs read_initial_request (names are resolved: the
//!                                                 cache is seeded with seedname -> 10.9.8.7:1)
//!                                                 -> OK V4:<octets>|V6:<octets> <port> <rest hex> | ERR <class> | PENDING
//!   destenc  <hosthex> <port> <class>            client.rs create_proxy_stream on a recording transport: the
//!                                                 destination bytes = PSH payload of the new stream -> OK <hex> | ERR
//!   dns      <table> <op>...                     resolve_host_with_cache histories (s: seed, r: request, c: clear)
//!                                                 -> per request `<ip octets hex>.<port>` | ERR
//!   udpenc   <c|s> <payload hex>                 encode_udp_packet / encode_udp_packet_simple -> OK <hex> | ERR
//!   udpdec   <c|s> <eof> <chunk>...              loop of read_udp_packet -> D <hex> ... END STOP|PENDING|ERR <class>
//!   socksreq <eof> <chunk>...                    socks5.rs read_connection_request over loopback TCP
//!   socks    <open_ok> <eof> <chunk>...          handle_socks5_connection over loopback TCP, the AnyTLS side is
//!                                                 an in-process server session
//!                                                 -> W=<bytes to the local client> OPEN=<dest>/<port> TUNNEL=<0|1> FWD=<hex> END=<0|1>
//!   authtls  <hash32hex> <padlen> <cut> <frag>   real Server::listen + TLS on loopback (oracle only)
//!                                                 -> DIAL=<0|1> REPLY=<n> CLOSED=<0|1>
//!   dial     ...                                 end-to-end destination glue, see fn dial (oracle only)
#![allow(unused_imports, dead_code)]
use crate::transport::{self, ChanReader, REv};
use crate::util::{hex, unhex};
use anytls_rs::client::Client;
use anytls_rs::padding::PaddingFactory;
use anytls_rs::protocol::{Command, Frame, FrameCodec};
use anytls_rs::session::{Session, Stream, StreamReader};
use anytls_rs::util::AnyTlsError;
use bytes::{Bytes, BytesMut};
use std::net::{IpAddr, SocketAddr};
use std::sync::atomic::{AtomicUsize, Ordering};
use std::sync::{Arc, Mutex, OnceLock};
use std::time::Duration;
use tokio::io::{AsyncReadExt, AsyncWriteExt};
use tokio::sync::mpsc;
use tokio_util::codec::{Decoder, Encoder};

const PASSWORD: &str = "verif";

fn paused_rt() -> tokio::runtime::Runtime {
    tokio::runtime::Builder::new_current_thread()
        .enable_all()
        .start_paused(true)
        .build()
        .unwrap()
}

fn real_rt() -> tokio::runtime::Runtime {
    tokio::runtime::Builder::new_current_thread()
        .enable_all()
        .build()
        .unwrap()
}

fn chunks_of(args: &[&str]) -> Vec<Vec<u8>> {
    args.iter().map(|a| unhex(a)).collect()
}

// ------------------------------------------------------------------------------------------ C06
fn authsrv(args: &[&str]) -> String {
    let h = unhex(args[0]);
    let mut hash = [0u8; 32];
    hash.copy_from_slice(&h);
    let eof = args[1] == "1";
    let chunks = chunks_of(&args[2..]);
    paused_rt().block_on(async move {
        let (mut r, tx) = ChanReader::new();
        let keep = tx.clone();
        tokio::spawn(async move {
            for c in chunks {
                let _ = tx.send(REv::Data(c));
                tokio::task::yield_now().await;
            }
            if eof {
                let _ = tx.send(REv::Eof);
            }
        });
        let padding = PaddingFactory::default();
        let res = tokio::time::timeout(
            Duration::from_secs(5),
            anytls_rs::authenticate_client(&mut r, &hash, &padding),
        )
        .await;
        let out = match res {
            Err(_) => "PENDING".to_string(),
            Ok(Ok(())) => {
                let mut rest = Vec::new();
                let mut buf = [0u8; 4096];
                loop {
                    match tokio::time::timeout(Duration::from_millis(10), r.read(&mut buf)).await {
                        Ok(Ok(0)) | Ok(Err(_)) | Err(_) => break,
                        Ok(Ok(n)) => rest.extend_from_slice(&buf[..n]),
                    }
                }
                format!("OK {}", hex(&rest))
            }
            Ok(Err(AnyTlsError::AuthenticationFailed)) => "ERR AUTH".to_string(),
            Ok(Err(AnyTlsError::Io(e))) if e.kind() == std::io::ErrorKind::UnexpectedEof => {
                "ERR EOF".to_string()
            }
            Ok(Err(_)) => "ERR OTHER".to_string(),
        };
        drop(keep);
        out
    })
}

// ------------------------------------------------------------------------------------------ C07
fn feed_reader(chunks: Vec<Vec<u8>>, eof: bool) -> (StreamReader, Option<mpsc::UnboundedSender<Bytes>>) {
    let (tx, rx) = mpsc::unbounded_channel::<Bytes>();
    let reader = StreamReader::new(1, rx);
    let keep = if eof { None } else { Some(tx.clone()) };
    tokio::spawn(async move {
        for c in chunks {
            let _ = tx.send(Bytes::from(c));
            tokio::task::yield_now().await;
        }
    });
    (reader, keep)
}

async fn drain_reader(reader: &mut StreamReader) -> Vec<u8> {
    let mut rest = Vec::new();
    let mut buf = [0u8; 4096];
    loop {
        match tokio::time::timeout(Duration::from_millis(10), reader.read(&mut buf)).await {
            Ok(Ok(0)) | Ok(Err(_)) | Err(_) => break,
            Ok(Ok(n)) => rest.extend_from_slice(&buf[..n]),
        }
    }
    rest
}

fn class_of(msg: &str) -> &'static str {
    if msg.contains("Unsupported address type") || msg.contains("Unknown address type") {
        "ATYP"
    } else if msg.contains("Invalid domain length") {
        "LEN"
    } else if msg.contains("Invalid domain name") {
        "UTF8"
    } else if msg.contains("Unsupported UDP over TCP format") {
        "FMT"
    } else if msg.contains("too large") {
        "BIG"
    } else if msg.contains("SOCKS version") {
        "VER"
    } else if msg.contains("No address found") || msg.contains("DNS resolution") {
        "DNS"
    } else if msg.contains("Failed to read") || msg.contains("eof") || msg.contains("Eof") || msg.contains("EOF") {
        "EOF"
    } else {
        "OTHER"
    }
}

fn destdec(args: &[&str]) -> String {
    let eof = args[0] == "1";
    let chunks = chunks_of(&args[1..]);
    paused_rt().block_on(async move {
        let (reader, keep) = feed_reader(chunks, eof);
        let (wtx, _wrx) = mpsc::unbounded_channel::<(u32, Bytes)>();
        let (stream, _synack) = Stream::new(1, reader, wtx);
        let stream = Arc::new(stream);
        let res = tokio::time::timeout(
            Duration::from_secs(5),
            anytls_rs::server::handler::handler_verif_hooks::read_socks_addr(stream.clone()),
        )
        .await;
        match res {
            Err(_) => "PENDING".to_string(),
            Ok(Ok((addr, port))) => {
                drop(keep);
                let r = stream.reader().clone();
                let mut g = r.lock().await;
                let rest = drain_reader(&mut g).await;
                format!("OK {} {} {}", hex(addr.as_bytes()), port, hex(&rest))
            }
            Ok(Err(e)) => format!("ERR {}", class_of(&e)),
        }
    })
}

fn udpinit(args: &[&str]) -> String {
    let seed = args[0].to_string();
    let eof = args[1] == "1";
    let chunks = chunks_of(&args[2..]);
    real_rt().block_on(async move {
        anytls_rs::util::dns_cache::dns_verif_hooks::dns_cache_clear().await;
        if seed != "-" {
            if let Ok(name) = String::from_utf8(unhex(&seed)) {
                anytls_rs::util::dns_cache::dns_verif_hooks::dns_cache_seed(
                    &name,
                    vec!["10.9.8.7:1".parse().unwrap()],
                    Duration::from_millis(0),
                )
                .await;
            }
        }
        let (mut reader, keep) = feed_reader(chunks, eof);
        let res = tokio::time::timeout(
            Duration::from_millis(300),
            anytls_rs::server::udp_proxy::udp_proxy_verif_hooks::read_initial_request(&mut reader),
        )
        .await;
        let out = match res {
            Err(_) => "PENDING".to_string(),
            Ok(Ok(sa)) => {
                drop(keep);
                let rest = drain_reader(&mut reader).await;
                let a = match sa.ip() {
                    IpAddr::V4(i) => format!("V4:{}", hex(&i.octets())),
                    IpAddr::V6(i) => format!("V6:{}", hex(&i.octets())),
                };
                format!("OK {} {} {}", a, sa.port(), hex(&rest))
            }
            Ok(Err(e)) => format!("ERR {}", class_of(&e)),
        };
        anytls_rs::util::dns_cache::dns_verif_hooks::dns_cache_clear().await;
        out
    })
}

type BoxR = Box<dyn tokio::io::AsyncRead + Send + Unpin>;
type BoxW = Box<dyn tokio::io::AsyncWrite + Send + Unpin>;

fn test_client() -> Arc<Client> {
    let tls = anytls_rs::util::tls::create_client_config().unwrap();
    let connector = Arc::new(tokio_rustls::TlsConnector::from(tls));
    let name =
        tokio_rustls::rustls::pki_types::ServerName::try_from("localhost".to_string()).unwrap();
    Arc::new(Client::new(
        PASSWORD,
        "127.0.0.1:1".to_string(),
        name,
        connector,
        PaddingFactory::default(),
    ))
}

/// bytes written by a client session -> (preamble length, frames)
fn parse_client_wire(wire: &[u8]) -> Vec<Frame> {
    let mut out = Vec::new();
    if wire.len() < 34 {
        return out;
    }
    let pad = u16::from_be_bytes([wire[32], wire[33]]) as usize;
    if wire.len() < 34 + pad {
        return out;
    }
    let mut buf = BytesMut::from(&wire[34 + pad..]);
    let mut codec = FrameCodec;
    while let Ok(Some(f)) = codec.decode(&mut buf) {
        out.push(f);
    }
    out
}

fn destenc(args: &[&str]) -> String {
    let host = String::from_utf8(unhex(args[0])).expect("host must be UTF-8");
    let port: u16 = args[1].parse().unwrap();
    paused_rt().block_on(async move {
        let client = test_client();
        let (w, h) = transport::RecWriter::new(None);
        let (r, keep) = ChanReader::new();
        let slot: Arc<Mutex<Option<(BoxR, BoxW)>>> =
            Arc::new(Mutex::new(Some((Box::new(r) as BoxR, Box::new(w) as BoxW))));
        let connector: anytls_rs::client::VerifConnector = Arc::new(move || {
            slot.lock().unwrap().take().unwrap_or_else(|| {
                let (r2, _k) = ChanReader::new();
                let (w2, _h2) = transport::RecWriter::new(None);
                (Box::new(r2) as BoxR, Box::new(w2) as BoxW)
            })
        });
        client.verif_set_connector(Some(connector));
        let _ = client.create_proxy_stream((host, port)).await;
        let frames = parse_client_wire(&h.bytes());
        let sid = frames
            .iter()
            .find(|f| f.cmd == Command::Syn)
            .map(|f| f.stream_id);
        let mut data = Vec::new();
        if let Some(sid) = sid {
            for f in &frames {
                if f.cmd == Command::Push && f.stream_id == sid {
                    data.extend_from_slice(&f.data);
                }
            }
        }
        drop(keep);
        client.stop_session_pool_cleanup().await;
        if data.is_empty() {
            "ERR".to_string()
        } else {
            format!("OK {}", hex(&data))
        }
    })
}

fn ip_of(octets: &[u8]) -> IpAddr {
    if octets.len() == 4 {
        let mut a = [0u8; 4];
        a.copy_from_slice(octets);
        IpAddr::from(a)
    } else {
        let mut a = [0u8; 16];
        a.copy_from_slice(octets);
        IpAddr::from(a)
    }
}

fn ip_hex(ip: IpAddr) -> String {
    match ip {
        IpAddr::V4(i) => hex(&i.octets()),
        IpAddr::V6(i) => hex(&i.octets()),
    }
}

fn dns(args: &[&str]) -> String {
    let ops: Vec<String> = args[1..].iter().map(|s| s.to_string()).collect();
    real_rt().block_on(async move {
        use anytls_rs::util::dns_cache::dns_verif_hooks::{dns_cache_clear, dns_cache_seed};
        dns_cache_clear().await;
        let mut out = String::new();
        for op in ops {
            let t: Vec<&str> = op.split(':').collect();
            match t[0] {
                "c" => dns_cache_clear().await,
                "s" => {
                    let name = String::from_utf8(unhex(t[1])).unwrap();
                    let addrs: Vec<SocketAddr> = t[2]
                        .split(',')
                        .filter(|a| !a.is_empty())
                        .map(|a| {
                            let (ip, p) = a.split_once('.').unwrap();
                            SocketAddr::new(ip_of(&unhex(ip)), p.parse().unwrap())
                        })
                        .collect();
                    let age: u64 = t[3].parse().unwrap();
                    dns_cache_seed(&name, addrs, Duration::from_millis(age)).await;
                }
                "r" => {
                    let name = String::from_utf8(unhex(t[1])).unwrap();
                    let port: u16 = t[2].parse().unwrap();
                    match anytls_rs::util::resolve_host_with_cache(&name, port).await {
                        Ok(sa) => out.push_str(&format!("{}.{} ", ip_hex(sa.ip()), sa.port())),
                        Err(_) => out.push_str("ERR "),
                    }
                }
                _ => panic!("bad dns op"),
            }
        }
        dns_cache_clear().await;
        out
    })
}

/// dnsrace <rounds> <k> <hexname>: k concurrent COLD lookups of one name with k distinct ports, on a multi-threaded
/// runtime, `rounds` times (cache cleared before every round). Every answer must carry the port of ITS request.
/// result: total=<n> mismatch=<m> err=<e> [first=<asked>:<got>]
fn dnsrace(args: &[&str]) -> String {
    let rounds: usize = args[0].parse().unwrap();
    let k: usize = args[1].parse().unwrap();
    let name = String::from_utf8(unhex(args[2])).unwrap();
    let rt = tokio::runtime::Builder::new_multi_thread()
        .worker_threads(8)
        .enable_all()
        .build()
        .unwrap();
    rt.block_on(async move {
        use anytls_rs::util::dns_cache::dns_verif_hooks::dns_cache_clear;
        let (mut total, mut mismatch, mut err) = (0usize, 0usize, 0usize);
        let mut first: Option<(u16, u16)> = None;
        for r in 0..rounds {
            dns_cache_clear().await;
            let barrier = Arc::new(tokio::sync::Barrier::new(k));
            let mut hs = Vec::new();
            for i in 0..k {
                let b = barrier.clone();
                let n = name.clone();
                let port = 20000 + ((r * 31 + i * 7) % 20000) as u16 + i as u16;
                hs.push(tokio::spawn(async move {
                    b.wait().await;
                    (port, anytls_rs::util::resolve_host_with_cache(&n, port).await.map(|a| a.port()))
                }));
            }
            for h in hs {
                total += 1;
                match h.await {
                    Ok((asked, Ok(got))) => {
                        if asked != got {
                            mismatch += 1;
                            first.get_or_insert((asked, got));
                        }
                    }
                    _ => err += 1,
                }
            }
        }
        dns_cache_clear().await;
        let mut out = format!("total={} mismatch={} err={}", total, mismatch, err);
        if let Some((a, g)) = first {
            out.push_str(&format!(" first={}:{}", a, g));
        }
        out
    })
}

// ------------------------------------------------------------------------------------------ C15
fn udpenc(args: &[&str]) -> String {
    let d = unhex(args[1]);
    let r = if args[0] == "c" {
        anytls_rs::client::udp_client::udp_client_verif_hooks::encode_udp_packet(&d)
    } else {
        anytls_rs::server::udp_proxy::udp_proxy_verif_hooks::encode_udp_packet_simple(&d)
    };
    match r {
        Ok(b) => format!("OK {}", hex(&b)),
        Err(_) => "ERR".to_string(),
    }
}

fn udpdec(args: &[&str]) -> String {
    let client_side = args[0] == "c";
    let eof = args[1] == "1";
    let chunks = chunks_of(&args[2..]);
    paused_rt().block_on(async move {
        let (mut reader, keep) = feed_reader(chunks, eof);
        let mut out = String::new();
        loop {
            let res = if client_side {
                tokio::time::timeout(
                    Duration::from_secs(1),
                    anytls_rs::client::udp_client::udp_client_verif_hooks::read_udp_packet(&mut reader),
                )
                .await
            } else {
                tokio::time::timeout(
                    Duration::from_secs(1),
                    anytls_rs::server::udp_proxy::udp_proxy_verif_hooks::read_udp_packet(&mut reader),
                )
                .await
            };
            match res {
                Err(_) => {
                    out.push_str("END PENDING");
                    break;
                }
                // the caller's loop (stream_to_udp) forwards every datagram, empty ones included
                Ok(Ok(d)) => out.push_str(&format!("D {} ", hex(&d))),
                Ok(Err(e)) => {
                    out.push_str(&format!("END ERR {}", class_of(&e)));
                    break;
                }
            }
        }
        drop(keep);
        out
    })
}

// ------------------------------------------------------------------------------------------ C16
async fn tcp_pair() -> (tokio::net::TcpStream, tokio::net::TcpStream) {
    let l = tokio::net::TcpListener::bind("127.0.0.1:0").await.unwrap();
    let addr = l.local_addr().unwrap();
    let c = tokio::net::TcpStream::connect(addr);
    let (c, s) = tokio::join!(c, l.accept());
    let c = c.unwrap();
    let (s, _) = s.unwrap();
    let _ = c.set_nodelay(true);
    let _ = s.set_nodelay(true);
    (c, s)
}

/// writes the chunks as separate segments (best effort), then optionally half-closes
async fn write_chunks<W: tokio::io::AsyncWrite + Unpin>(w: &mut W, chunks: Vec<Vec<u8>>, eof: bool) {
    for c in chunks {
        if c.is_empty() {
            continue;
        }
        if w.write_all(&c).await.is_err() {
            return;
        }
        let _ = w.flush().await;
        tokio::time::sleep(Duration::from_millis(2)).await;
    }
    if eof {
        let _ = w.shutdown().await;
    }
}

fn socksreq(args: &[&str]) -> String {
    let eof = args[0] == "1";
    let chunks = chunks_of(&args[1..]);
    real_rt().block_on(async move {
        let (c, mut s) = tcp_pair().await;
        let (cr, mut cw) = c.into_split();
        let writer = tokio::spawn(async move {
            write_chunks(&mut cw, chunks, eof).await;
            cw
        });
        let res = tokio::time::timeout(
            Duration::from_millis(400),
            anytls_rs::client::socks5::socks5_verif_hooks::read_connection_request(&mut s),
        )
        .await;
        let out = match res {
            Err(_) => "PENDING".to_string(),
            Ok(Ok(((addr, port), cmd))) => {
                let _cw = writer.await;
                let mut rest = Vec::new();
                let mut buf = [0u8; 4096];
                loop {
                    match tokio::time::timeout(Duration::from_millis(40), s.read(&mut buf)).await {
                        Ok(Ok(0)) | Ok(Err(_)) | Err(_) => break,
                        Ok(Ok(n)) => rest.extend_from_slice(&buf[..n]),
                    }
                }
                format!("OK {} {} {} {}", cmd, hex(addr.as_bytes()), port, hex(&rest))
            }
            Ok(Err(e)) => format!("ERR {}", class_of(&e)),
        };
        drop(cr);
        out
    })
}

#[derive(Default)]
struct SocksShared {
    open: Option<(String, u16)>,
    tunnel: bool,
    fwd: Vec<u8>,
    changes: usize,
}

async fn serve_socks_session(half: tokio::io::DuplexStream, sh: Arc<Mutex<SocksShared>>, open_ok: bool) {
    let (mut r, w) = tokio::io::split(half);
    let padding = PaddingFactory::default();
    let ph = anytls_rs::hash_password(PASSWORD);
    if anytls_rs::authenticate_client(&mut r, &ph, &padding).await.is_err() {
        return;
    }
    let (tx, mut rx) = mpsc::unbounded_channel::<Arc<Stream>>();
    let mut session = Session::new_server(r, w, padding);
    session.set_stream_callback(tx);
    let session = Arc::new(session);
    let s1 = session.clone();
    tokio::spawn(async move {
        let _ = s1.recv_loop().await;
    });
    let s2 = session.clone();
    tokio::spawn(async move {
        let _ = s2.process_stream_data().await;
    });
    while let Some(stream) = rx.recv().await {
        let sh = sh.clone();
        let session = session.clone();
        tokio::spawn(async move {
            let id = stream.id();
            let dest =
                anytls_rs::server::handler::handler_verif_hooks::read_socks_addr(stream.clone()).await;
            let Ok((host, port)) = dest else {
                let f = Frame::with_data(Command::SynAck, id, Bytes::from_static(b"bad destination"));
                let _ = session.write_control_frame(f).await;
                return;
            };
            {
                let mut g = sh.lock().unwrap();
                g.open = Some((host, port));
                g.changes += 1;
            }
            if !open_ok {
                let f = Frame::with_data(Command::SynAck, id, Bytes::from_static(b"connect failed"));
                let _ = session.write_control_frame(f).await;
                return;
            }
            {
                let mut g = sh.lock().unwrap();
                g.tunnel = true;
                g.changes += 1;
            }
            let _ = session.write_control_frame(Frame::control(Command::SynAck, id)).await;
            let reader = stream.reader().clone();
            let mut buf = vec![0u8; 16384];
            loop {
                let n = {
                    let mut g = reader.lock().await;
                    match g.read(&mut buf).await {
                        Ok(0) | Err(_) => break,
                        Ok(n) => n,
                    }
                };
                let mut g = sh.lock().unwrap();
                g.fwd.extend_from_slice(&buf[..n]);
                g.changes += 1;
            }
        });
    }
}

fn duplex_connector(sh: Arc<Mutex<SocksShared>>, open_ok: bool) -> anytls_rs::client::VerifConnector {
    Arc::new(move || {
        let (a, b) = tokio::io::duplex(1 << 20);
        tokio::spawn(serve_socks_session(b, sh.clone(), open_ok));
        let (r, w) = tokio::io::split(a);
        (Box::new(r) as BoxR, Box::new(w) as BoxW)
    })
}

fn socks(args: &[&str]) -> String {
    let open_ok = args[0] == "1";
    let eof = args[1] == "1";
    let chunks = chunks_of(&args[2..]);
    real_rt().block_on(async move {
        let sh = Arc::new(Mutex::new(SocksShared::default()));
        let client = test_client();
        client.verif_set_connector(Some(duplex_connector(sh.clone(), open_ok)));
        let (c, s) = tcp_pair().await;
        let client2 = client.clone();
        let handler = tokio::spawn(async move {
            let _ = anytls_rs::client::socks5::socks5_verif_hooks::handle_socks5_connection(s, client2).await;
        });
        let (mut cr, mut cw) = c.into_split();
        let writer = tokio::spawn(async move {
            write_chunks(&mut cw, chunks, eof).await;
            cw
        });
        let got: Arc<Mutex<(Vec<u8>, bool)>> = Arc::new(Mutex::new((Vec::new(), false)));
        let got2 = got.clone();
        let reader = tokio::spawn(async move {
            let mut buf = [0u8; 4096];
            loop {
                match cr.read(&mut buf).await {
                    Ok(0) | Err(_) => {
                        got2.lock().unwrap().1 = true;
                        break;
                    }
                    Ok(n) => got2.lock().unwrap().0.extend_from_slice(&buf[..n]),
                }
            }
        });
        let _cw = writer.await;
        // settle: until the local client saw EOF, or nothing changed for `quiet`
        let quiet = Duration::from_millis(500);
        let t0 = std::time::Instant::now();
        let mut last = (0usize, 0usize);
        let mut since = std::time::Instant::now();
        loop {
            let (n, ended) = {
                let g = got.lock().unwrap();
                (g.0.len(), g.1)
            };
            if ended {
                break;
            }
            let cur = (n, sh.lock().unwrap().changes);
            if cur != last {
                last = cur;
                since = std::time::Instant::now();
            }
            if since.elapsed() > quiet || t0.elapsed() > Duration::from_secs(5) {
                break;
            }
            tokio::time::sleep(Duration::from_millis(5)).await;
        }
        let (w, ended) = {
            let g = got.lock().unwrap();
            (g.0.clone(), g.1)
        };
        let g = sh.lock().unwrap();
        let open = match &g.open {
            Some((h, p)) => format!("{}/{}", hex(h.as_bytes()), p),
            None => "-".to_string(),
        };
        let out = format!(
            "W={} OPEN={} TUNNEL={} FWD={} END={}",
            hex(&w),
            open,
            if g.tunnel { 1 } else { 0 },
            hex(&g.fwd),
            if ended { 1 } else { 0 }
        );
        drop(g);
        handler.abort();
        reader.abort();
        client.stop_session_pool_cleanup().await;
        out
    })
}

// ------------------------------------------------------------------------------------------ C06 end to end
struct TlsEnv {
    rt: tokio::runtime::Runtime,
    server_addr: SocketAddr,
    target_addr: SocketAddr,
    dials: Arc<AtomicUsize>,
}

static TLS_ENVS: OnceLock<std::sync::Mutex<std::collections::HashMap<String, &'static TlsEnv>>> = OnceLock::new();

fn free_port() -> u16 {
    let l = std::net::TcpListener::bind("127.0.0.1:0").unwrap();
    l.local_addr().unwrap().port()
}

fn tls_env() -> &'static TlsEnv {
    tls_env_for(PASSWORD)
}

/// one real Server::listen per configured password (C06: passwords with surrounding whitespace etc.)
fn tls_env_for(password: &str) -> &'static TlsEnv {
    let map = TLS_ENVS.get_or_init(|| std::sync::Mutex::new(std::collections::HashMap::new()));
    let mut g = map.lock().unwrap();
    if let Some(e) = g.get(password) {
        return e;
    }
    let e: &'static TlsEnv = Box::leak(Box::new(make_tls_env(password)));
    g.insert(password.to_string(), e);
    e
}

fn make_tls_env(password: &str) -> TlsEnv {
    let password = password.to_string();
    {
        let rt = tokio::runtime::Builder::new_multi_thread()
            .worker_threads(2)
            .enable_all()
            .build()
            .unwrap();
        let dials = Arc::new(AtomicUsize::new(0));
        let d2 = dials.clone();
        let (server_addr, target_addr) = rt.block_on(async move {
            let target = tokio::net::TcpListener::bind("127.0.0.1:0").await.unwrap();
            let target_addr = target.local_addr().unwrap();
            tokio::spawn(async move {
                let mut keep = Vec::new();
                loop {
                    if let Ok((s, _)) = target.accept().await {
                        d2.fetch_add(1, Ordering::SeqCst);
                        keep.push(s);
                        if keep.len() > 64 {
                            keep.drain(..32);
                        }
                    }
                }
            });
            let cfg = anytls_rs::util::tls::create_server_config().unwrap();
            let acceptor = Arc::new(tokio_rustls::TlsAcceptor::from(cfg));
            let server = Arc::new(anytls_rs::server::Server::new(
                &password,
                acceptor,
                PaddingFactory::default(),
                None,
            ));
            let port = free_port();
            let addr: SocketAddr = format!("127.0.0.1:{}", port).parse().unwrap();
            let srv = server.clone();
            let a = addr.to_string();
            tokio::spawn(async move {
                let _ = srv.listen(&a).await;
            });
            // wait until it accepts
            for _ in 0..200 {
                if tokio::net::TcpStream::connect(addr).await.is_ok() {
                    break;
                }
                tokio::time::sleep(Duration::from_millis(10)).await;
            }
            (addr, target_addr)
        });
        TlsEnv {
            rt,
            server_addr,
            target_addr,
            dials,
        }
    }
}

fn enc_frame(f: Frame, out: &mut BytesMut) {
    FrameCodec.encode(f, out).unwrap();
}

/// authtls <hash32hex> <padlen> <cut> <frag> [h | s <n> <ms>]
///   the client sends  hash ++ be16(padlen) ++ zeros(padlen) ++ Settings ++ SYN(1) ++ PSH(1, destination = target)
///   cut  = number of bytes of that byte string actually sent before the client half-closes ("-" = all, no close)
///   frag = comma separated write sizes (cycled), "-" = one write
fn authtls(args: &[&str]) -> String {
    let hash = unhex(args[0]);
    let padlen: usize = args[1].parse().unwrap();
    let cut: Option<usize> = if args[2] == "-" { None } else { Some(args[2].parse().unwrap()) };
    let frag: Vec<usize> = if args[3] == "-" {
        vec![]
    } else {
        args[3].split(',').map(|x| x.parse().unwrap()).collect()
    };
    // layout "h": the frames follow the 32 bytes directly (what a server that skipped the check would parse)
    // layout "s" <n> <ms>: slow peer -- only the first n bytes of the hash, then <ms> of silence, then the frames
    //             (what a server that gave up waiting for the preamble but kept the connection would parse)
    let slow: Option<(usize, u64)> = if args.len() > 6 && args[4] == "s" {
        Some((args[5].parse().unwrap(), args[6].parse().unwrap()))
    } else {
        None
    };
    let bare = args.len() > 4 && (args[4] == "h" || slow.is_some());
    // optional last argument pw=<hex>: the password the server is configured with (default PASSWORD)
    let env = match args.last().and_then(|a| a.strip_prefix("pw=")) {
        Some(h) => tls_env_for(&String::from_utf8(unhex(h)).unwrap()),
        None => tls_env(),
    };
    env.rt.block_on(async move {
        let mut wire = BytesMut::new();
        match slow {
            Some((n, _)) => wire.extend_from_slice(&hash[..n.min(32)]),
            None => wire.extend_from_slice(&hash),
        }
        if !bare {
            wire.extend_from_slice(&(padlen as u16).to_be_bytes());
            wire.extend_from_slice(&vec![0u8; padlen]);
        }
        enc_frame(
            Frame::with_data(Command::Settings, 0, Bytes::from_static(b"v=2\nclient=verif")),
            &mut wire,
        );
        enc_frame(Frame::control(Command::Syn, 1), &mut wire);
        let mut dest = vec![1u8];
        if let IpAddr::V4(i) = env.target_addr.ip() {
            dest.extend_from_slice(&i.octets());
        }
        dest.extend_from_slice(&env.target_addr.port().to_be_bytes());
        enc_frame(Frame::with_data(Command::Push, 1, Bytes::from(dest)), &mut wire);
        let mut wire = wire.to_vec();
        if let Some(c) = cut {
            wire.truncate(c.min(wire.len()));
        }
        let before = env.dials.load(Ordering::SeqCst);
        let tls = anytls_rs::util::tls::create_client_config().unwrap();
        let connector = tokio_rustls::TlsConnector::from(tls);
        let name = tokio_rustls::rustls::pki_types::ServerName::try_from("localhost".to_string()).unwrap();
        let tcp = match tokio::net::TcpStream::connect(env.server_addr).await {
            Ok(t) => t,
            Err(_) => return "CONNECT-FAILED".to_string(),
        };
        let _ = tcp.set_nodelay(true);
        let mut s = match connector.connect(name, tcp).await {
            Ok(s) => s,
            Err(_) => return "TLS-FAILED".to_string(),
        };
        let mut pos = 0usize;
        let mut k = 0usize;
        if let Some((n, ms)) = slow {
            let n = n.min(32);
            if n > 0 {
                let _ = s.write_all(&wire[..n]).await;
                let _ = s.flush().await;
            }
            pos = n;
            tokio::time::sleep(Duration::from_millis(ms)).await;
        }
        while pos < wire.len() {
            let n = if frag.is_empty() { wire.len() } else { frag[k % frag.len()].max(1) };
            let end = (pos + n).min(wire.len());
            if s.write_all(&wire[pos..end]).await.is_err() {
                break;
            }
            let _ = s.flush().await;
            if !frag.is_empty() {
                tokio::time::sleep(Duration::from_millis(1)).await;
            }
            pos = end;
            k += 1;
        }
        if cut.is_some() {
            let _ = s.shutdown().await;
        }
        // observe: bytes coming back, close, and dials at the target
        let mut reply = 0usize;
        let mut closed = false;
        let mut buf = [0u8; 4096];
        let t0 = std::time::Instant::now();
        let mut closed_at: Option<std::time::Instant> = None;
        loop {
            if env.dials.load(Ordering::SeqCst) > before {
                break;
            }
            if let Some(c) = closed_at {
                if c.elapsed() > Duration::from_millis(150) {
                    break;
                }
                tokio::time::sleep(Duration::from_millis(10)).await;
                continue;
            }
            if t0.elapsed() > Duration::from_millis(1500) {
                break;
            }
            match tokio::time::timeout(Duration::from_millis(20), s.read(&mut buf)).await {
                Ok(Ok(0)) | Ok(Err(_)) => {
                    closed = true;
                    closed_at = Some(std::time::Instant::now());
                }
                Ok(Ok(n)) => reply += n,
                Err(_) => {}
            }
        }
        let dial = env.dials.load(Ordering::SeqCst) > before;
        format!(
            "DIAL={} REPLY={} CLOSED={}",
            if dial { 1 } else { 0 },
            reply,
            if closed { 1 } else { 0 }
        )
    })
}


// ------------------------------------------------------------------------------------------ end-to-end glue (C07, C15)
/// an in-process AnyTLS server session running the REAL default handler (TcpProxyHandler: read_socks_addr,
/// UDP routing, resolver cache, dial) on the other end of a duplex pipe
async fn serve_real_session(half: tokio::io::DuplexStream) {
    use anytls_rs::server::handler::{StreamHandler, TcpProxyHandler};
    let (mut r, w) = tokio::io::split(half);
    let padding = PaddingFactory::default();
    let ph = anytls_rs::hash_password(PASSWORD);
    if anytls_rs::authenticate_client(&mut r, &ph, &padding).await.is_err() {
        return;
    }
    let (tx, mut rx) = mpsc::unbounded_channel::<Arc<Stream>>();
    let mut session = Session::new_server(r, w, padding);
    session.set_stream_callback(tx);
    let session = Arc::new(session);
    let s1 = session.clone();
    tokio::spawn(async move {
        let _ = s1.recv_loop().await;
    });
    let s2 = session.clone();
    tokio::spawn(async move {
        let _ = s2.process_stream_data().await;
    });
    while let Some(stream) = rx.recv().await {
        let session = session.clone();
        tokio::spawn(async move {
            let handler = TcpProxyHandler::new();
            let _ = handler.handle_stream(stream, session).await;
        });
    }
}

fn real_connector() -> anytls_rs::client::VerifConnector {
    Arc::new(move || {
        let (a, b) = tokio::io::duplex(1 << 20);
        tokio::spawn(serve_real_session(b));
        let (r, w) = tokio::io::split(a);
        (Box::new(r) as BoxR, Box::new(w) as BoxW)
    })
}

/// dial <tok>...   destination glue end to end: SOCKS-less client -> encoder -> frames -> real server handler ->
/// resolver cache -> TcpStream::connect, observed at loopback listeners on distinct 127.0.0.k addresses.
///   L:<k>:<slot>                 listener on 127.0.0.k, port of <slot> (slots are mapped to free ports)
///   S:<namehex>:<k>:<slot>:<age> cache seed name -> 127.0.0.k:port(slot), filled <age> ms ago
///   R:<hosthex|@k>:<slot>        create_proxy_stream((host, port(slot)));  @k = the literal 127.0.0.k
/// output per R:  OK <k>:<slot> (which listener accepted) | OK none | ERR
fn dial(args: &[&str]) -> String {
    let toks: Vec<Vec<String>> = args
        .iter()
        .map(|a| a.split(':').map(|x| x.to_string()).collect())
        .collect();
    real_rt().block_on(async move {
        use anytls_rs::util::dns_cache::dns_verif_hooks::{dns_cache_clear, dns_cache_seed};
        dns_cache_clear().await;
        // slots -> ports
        let mut nslots = 0usize;
        for t in &toks {
            let s: usize = match t[0].as_str() {
                "L" => t[2].parse().unwrap(),
                "S" => t[3].parse().unwrap(),
                _ => t[2].parse().unwrap(),
            };
            nslots = nslots.max(s + 1);
        }
        let accepted: Arc<Mutex<Vec<(u8, usize)>>> = Arc::new(Mutex::new(Vec::new()));
        let mut ports = vec![0u16; nslots];
        for slot in 0..nslots {
            let ks: Vec<u8> = toks
                .iter()
                .filter(|t| t[0] == "L" && t[2].parse::<usize>().unwrap() == slot)
                .map(|t| t[1].parse().unwrap())
                .collect();
            'retry: for _ in 0..50 {
                let probe = std::net::TcpListener::bind("127.0.0.1:0").unwrap();
                let p = probe.local_addr().unwrap().port();
                drop(probe);
                if ports.contains(&p) {
                    continue;
                }
                let mut ls = Vec::new();
                for k in &ks {
                    match tokio::net::TcpListener::bind(format!("127.0.0.{}:{}", k, p)).await {
                        Ok(l) => ls.push((*k, l)),
                        Err(_) => continue 'retry,
                    }
                }
                ports[slot] = p;
                for (k, l) in ls {
                    let acc = accepted.clone();
                    tokio::spawn(async move {
                        let mut keep = Vec::new();
                        while let Ok((s, _)) = l.accept().await {
                            acc.lock().unwrap().push((k, slot));
                            keep.push(s);
                        }
                    });
                }
                break;
            }
        }
        let client = test_client();
        client.verif_set_connector(Some(real_connector()));
        let mut out = String::new();
        let mut keep_streams = Vec::new();
        for t in &toks {
            match t[0].as_str() {
                "L" => {}
                "S" => {
                    let name = String::from_utf8(unhex(&t[1])).unwrap();
                    let slot: usize = t[3].parse().unwrap();
                    let sa: SocketAddr = format!("127.0.0.{}:{}", t[2], ports[slot]).parse().unwrap();
                    dns_cache_seed(&name, vec![sa], Duration::from_millis(t[4].parse().unwrap())).await;
                }
                _ => {
                    let host = if let Some(k) = t[1].strip_prefix('@') {
                        format!("127.0.0.{}", k)
                    } else {
                        String::from_utf8(unhex(&t[1])).unwrap()
                    };
                    let slot: usize = t[2].parse().unwrap();
                    let before = accepted.lock().unwrap().len();
                    match tokio::time::timeout(
                        Duration::from_millis(1500),
                        client.create_proxy_stream((host, ports[slot])),
                    )
                    .await
                    {
                        Ok(Ok((stream, session))) => {
                            let mut who = None;
                            for _ in 0..100 {
                                {
                                    let g = accepted.lock().unwrap();
                                    if g.len() > before {
                                        who = Some(g[g.len() - 1]);
                                    }
                                }
                                if who.is_some() {
                                    break;
                                }
                                tokio::time::sleep(Duration::from_millis(5)).await;
                            }
                            match who {
                                Some((k, s)) => out.push_str(&format!("OK {}:{} ", k, s)),
                                None => out.push_str("OK none "),
                            }
                            keep_streams.push((stream, session));
                        }
                        _ => out.push_str("ERR "),
                    }
                }
            }
        }
        dns_cache_clear().await;
        client.stop_session_pool_cleanup().await;
        out
    })
}

/// udpe2e <target 4|6> <size>...   lock-step echo through Client::create_udp_proxy and the real server handler:
/// app --UDP--> local proxy socket --stream--> server --UDP--> echo target, and back.
/// output per datagram: <size>:<t|f target got exactly it>:<t|f app got exactly it back>, then TARGETN=<datagrams seen by the target>
fn udpe2e(args: &[&str]) -> String {
    // "4" / "6": the target listens from the start;  "4L" / "6L": the target port is closed when the association is
    // created and while a first probe datagram is forwarded (an ICMP port-unreachable comes back), then the target
    // comes up on that port: every later datagram must still be delivered
    let v6 = args[0].starts_with('6');
    let late = args[0].ends_with('L');
    let sizes: Vec<usize> = args[1..].iter().map(|a| a.parse().unwrap()).collect();
    real_rt().block_on(async move {
        let bind = if v6 { "[::1]:0" } else { "127.0.0.1:0" };
        let target = match tokio::net::UdpSocket::bind(bind).await {
            Ok(t) => t,
            Err(_) => return "NO-TARGET-SOCKET".to_string(),
        };
        let target_addr = target.local_addr().unwrap();
        let seen: Arc<Mutex<Vec<Vec<u8>>>> = Arc::new(Mutex::new(Vec::new()));
        let seen2 = seen.clone();
        let serve = move |target: tokio::net::UdpSocket| {
            tokio::spawn(async move {
                let mut buf = vec![0u8; 70000];
                while let Ok((n, from)) = target.recv_from(&mut buf).await {
                    seen2.lock().unwrap().push(buf[..n].to_vec());
                    let _ = target.send_to(&buf[..n], from).await;
                }
            });
        };
        let mut serve = Some(serve);
        let mut held = Some(target);
        if late {
            held = None; // the port is closed now
        } else if let (Some(f), Some(t)) = (serve.take(), held.take()) {
            f(t);
        }
        let client = test_client();
        client.verif_set_connector(Some(real_connector()));
        let proxy = match tokio::time::timeout(
            Duration::from_secs(5),
            client.create_udp_proxy("127.0.0.1:0", target_addr),
        )
        .await
        {
            Ok(Ok(a)) => a,
            _ => return "NO-ASSOCIATION".to_string(),
        };
        let app = tokio::net::UdpSocket::bind("127.0.0.1:0").await.unwrap();
        let mut out = String::new();
        let mut buf = vec![0u8; 70000];
        if late {
            let _ = held;
            // the probe goes to the closed port; give the ICMP error time to come back, then start the target there
            let _ = app.send_to(b"probe-to-a-closed-port", proxy).await;
            tokio::time::sleep(Duration::from_millis(300)).await;
            match tokio::net::UdpSocket::bind(target_addr).await {
                Ok(t) => {
                    if let Some(f) = serve.take() {
                        f(t);
                    }
                }
                Err(_) => return "NO-REBIND".to_string(),
            }
            tokio::time::sleep(Duration::from_millis(50)).await;
        }
        for (i, n) in sizes.iter().enumerate() {
            let mut d = vec![0u8; *n];
            for (j, b) in d.iter_mut().enumerate() {
                *b = ((i * 131 + j * 7 + j / 251) & 255) as u8;
            }
            let before = seen.lock().unwrap().len();
            if app.send_to(&d, proxy).await.is_err() {
                out.push_str(&format!("{}:senderr ", n));
                continue;
            }
            let back = tokio::time::timeout(Duration::from_millis(1500), app.recv_from(&mut buf)).await;
            let app_ok = matches!(&back, Ok(Ok((m, _))) if buf[..*m] == d[..]);
            let tgt_ok = {
                let g = seen.lock().unwrap();
                g.len() == before + 1 && g[before] == d
            };
            out.push_str(&format!(
                "{}:{}:{} ",
                n,
                if tgt_ok { "t" } else { "f" },
                if app_ok { "t" } else { "f" }
            ));
        }
        out.push_str(&format!("TARGETN={}", seen.lock().unwrap().len()));
        client.stop_session_pool_cleanup().await;
        out
    })
}

/// udpsplit <gap_ms> <cut> <size>...   UDP over TCP, server -> client direction, against a scripted AnyTLS server session:
/// after the association is up and the application's first datagram has gone out, the server returns one record per
/// <size>, each as TWO data frames -- the first <cut> bytes of the record (cut 1 = inside the length prefix, 2 = the
/// prefix alone, h = half of the record), then <gap_ms> of silence, then the rest. Records are a byte stream: the
/// application must receive every datagram whole, in order.  -> <size>:<t|f> ...
fn udpsplit(args: &[&str]) -> String {
    let gap: u64 = args[0].parse().unwrap();
    let cut_tok = args[1].to_string();
    let sizes: Vec<usize> = args[2..].iter().map(|a| a.parse().unwrap()).collect();
    let payload = |i: usize, n: usize| -> Vec<u8> { (0..n).map(|j| ((i * 89 + j * 13 + j / 253) & 255) as u8).collect() };
    real_rt().block_on(async move {
        let sizes2 = sizes.clone();
        let connector: anytls_rs::client::VerifConnector = Arc::new(move || {
            let (a, b) = tokio::io::duplex(1 << 20);
            let sizes = sizes2.clone();
            let cut_tok = cut_tok.clone();
            tokio::spawn(async move {
                let (mut r, w) = tokio::io::split(b);
                let padding = PaddingFactory::default();
                let ph = anytls_rs::hash_password(PASSWORD);
                if anytls_rs::authenticate_client(&mut r, &ph, &padding).await.is_err() {
                    return;
                }
                let (tx, mut rx) = mpsc::unbounded_channel::<Arc<Stream>>();
                let mut session = Session::new_server(r, w, padding);
                session.set_stream_callback(tx);
                let session = Arc::new(session);
                let s1 = session.clone();
                tokio::spawn(async move {
                    let _ = s1.recv_loop().await;
                });
                if let Some(stream) = rx.recv().await {
                    let sid = stream.id();
                    let _ = session.write_control_frame(Frame::control(Command::SynAck, sid)).await;
                    // the application's first datagram tells the client-side relay where to deliver
                    tokio::time::sleep(Duration::from_millis(400)).await;
                    for (i, n) in sizes.iter().enumerate() {
                        let mut rec = (*n as u16).to_be_bytes().to_vec();
                        rec.extend_from_slice(&(0..*n).map(|j| ((i * 89 + j * 13 + j / 253) & 255) as u8).collect::<Vec<u8>>());
                        let cut = match cut_tok.as_str() {
                            "h" => rec.len() / 2,
                            c => c.parse::<usize>().unwrap().min(rec.len() - 1),
                        }
                        .max(1);
                        let _ = session.write_data_frame(sid, Bytes::copy_from_slice(&rec[..cut])).await;
                        tokio::time::sleep(Duration::from_millis(gap)).await;
                        let _ = session.write_data_frame(sid, Bytes::copy_from_slice(&rec[cut..])).await;
                        tokio::time::sleep(Duration::from_millis(30)).await;
                    }
                    // keep the stream and the session alive until the client is done
                    tokio::time::sleep(Duration::from_secs(30)).await;
                    drop(stream);
                }
            });
            let (r, w) = tokio::io::split(a);
            (Box::new(r) as BoxR, Box::new(w) as BoxW)
        });
        let client = test_client();
        client.verif_set_connector(Some(connector));
        let target: SocketAddr = "127.0.0.1:9".parse().unwrap();
        let proxy = match tokio::time::timeout(Duration::from_secs(5), client.create_udp_proxy("127.0.0.1:0", target)).await {
            Ok(Ok(a)) => a,
            _ => return "NO-ASSOCIATION".to_string(),
        };
        let app = tokio::net::UdpSocket::bind("127.0.0.1:0").await.unwrap();
        let _ = app.send_to(b"hello", proxy).await;
        let mut out = String::new();
        let mut buf = vec![0u8; 70000];
        for (i, n) in sizes.iter().enumerate() {
            let want = payload(i, *n);
            let back = tokio::time::timeout(Duration::from_millis(gap + 2500), app.recv_from(&mut buf)).await;
            let ok = matches!(&back, Ok(Ok((m, _))) if buf[..*m] == want[..]);
            out.push_str(&format!("{}:{} ", n, if ok { "t" } else { "f" }));
        }
        client.stop_session_pool_cleanup().await;
        out.trim_end().to_string()
    })
}

pub fn dispatch(drv: &str, args: &[&str]) -> Option<String> {
    match drv {
        "authsrv" => Some(authsrv(args)),
        "destdec" => Some(destdec(args)),
        "udpinit" => Some(udpinit(args)),
        "destenc" => Some(destenc(args)),
        "dns" => Some(dns(args)),
        "dnsrace" => Some(dnsrace(args)),
        "udpenc" => Some(udpenc(args)),
        "udpdec" => Some(udpdec(args)),
        "socksreq" => Some(socksreq(args)),
        "socks" => Some(socks(args)),
        "authtls" => Some(authtls(args)),
        "hashpw" => Some(hex(&anytls_rs::hash_password(&String::from_utf8(unhex(args[0])).unwrap()))),
        "dial" => Some(dial(args)),
        "udpe2e" => Some(udpe2e(args)),
        "udpsplit" => Some(udpsplit(args)),
        _ => None,
    }
}
