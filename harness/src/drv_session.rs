//! implementation-side drivers of work package "session" (C01, C02, C08, C10)
//!
//! ss  <scheme> <md5> <st> <op>...   a real client `Session` and a real server `Session` on harness-owned
//!                                   in-memory transports under tokio virtual time; nothing is wired
//!                                   together: bytes a side wrote are *relayed* to the peer's reader in a
//!                                   scripted fragmentation (op X) or raw bytes are injected (op R)
//! c10 <n> <t:event>...              the real `Client` (connector hook) with n racing opens on one session
//!                                   against a scripted in-memory peer, virtual time
//! lo  <front> <scenario> <n> <m>    real-time loopback: application socket -> SOCKS5 / HTTP front-end ->
//!                                   client session -> (in memory) -> server session + TcpProxyHandler ->
//!                                   TCP target; half-closes are watched for a bounded 2 s
//!
//! The shared payload generator / hash are mirrored in extract/drv_session.ml and tools/props/sessgen.py.
#![allow(dead_code, unused_imports)]
use crate::transport::{self, ChanReader, REv, RecWriter, WHandle};
use crate::util::{hex, unhex};
use anytls_rs::client::{Client, SessionPool, SessionPoolConfig};
use anytls_rs::padding::PaddingFactory;
use anytls_rs::protocol::{Command, Frame, FrameCodec};
use anytls_rs::server::{StreamHandler, TcpProxyHandler};
use anytls_rs::session::{Session, Stream};
use anytls_rs::util::{AnyTlsError, authenticate_client, hash_password};
use bytes::{Bytes, BytesMut};
use std::collections::HashMap;
use std::sync::{Arc, Mutex};
use tokio::io::{AsyncRead, AsyncReadExt, AsyncWrite, AsyncWriteExt};
use tokio::net::{TcpListener, TcpStream};
use tokio::sync::{mpsc, oneshot};
use tokio::time::{Duration, Instant};
use tokio_util::codec::{Decoder, Encoder};

const PASSWORD: &str = "verif-session";

type BoxR = Box<dyn AsyncRead + Send + Unpin>;
type BoxW = Box<dyn AsyncWrite + Send + Unpin>;

fn ms(v: u64) -> Duration {
    Duration::from_millis(v)
}

fn paused_rt() -> tokio::runtime::Runtime {
    tokio::runtime::Builder::new_current_thread()
        .enable_all()
        .start_paused(true)
        .build()
        .unwrap()
}

/// with the paused clock a timer only fires once the runtime is otherwise idle: returns after quiescence
async fn settle() {
    tokio::time::sleep(ms(1)).await;
}

pub fn fnv(b: &[u8]) -> u32 {
    let mut h: u32 = 0x811c9dc5;
    for x in b {
        h ^= *x as u32;
        h = h.wrapping_mul(0x01000193);
    }
    h
}

fn gen_byte(side: char, sid: u32, off: usize) -> u8 {
    ((sid as usize)
        .wrapping_mul(37)
        .wrapping_add(off.wrapping_mul(11))
        .wrapping_add((off >> 8).wrapping_mul(3))
        .wrapping_add(if side == 's' { 128 } else { 0 })
        & 255) as u8
}

fn genb(side: char, sid: u32, off: usize, len: usize) -> Vec<u8> {
    (0..len).map(|i| gen_byte(side, sid, off + i)).collect()
}

fn data_tok(b: &[u8]) -> String {
    if b.len() <= 64 {
        format!("d{}", hex(b))
    } else {
        format!("d{}.{:08x}", b.len(), fnv(b))
    }
}

fn enc(cmd: u8, sid: u32, data: &[u8]) -> Vec<u8> {
    let mut v = Vec::with_capacity(7 + data.len());
    v.push(cmd);
    v.extend_from_slice(&sid.to_be_bytes());
    v.extend_from_slice(&(data.len() as u16).to_be_bytes());
    v.extend_from_slice(data);
    v
}

// ------------------------------------------------------------------------------------------------ ss

struct Obj {
    stream: Arc<Stream>,
    rx: Option<oneshot::Receiver<anytls_rs::util::Result<()>>>,
    verdict: Option<String>,
}

struct Side {
    name: char,
    sess: Arc<Session>,
    wh: WHandle,
    rtx: mpsc::UnboundedSender<REv>,
    relayed: usize,
    logged: usize,
    logbuf: BytesMut,
    shut_sent: bool,
    objs: HashMap<u32, Vec<Obj>>,
    cb_rx: Option<mpsc::UnboundedReceiver<Arc<Stream>>>,
    news: Vec<u32>,
    offs: HashMap<u32, usize>,
}

impl Side {
    fn next_payload(&mut self, sid: u32, len: usize) -> Vec<u8> {
        let off = *self.offs.get(&sid).unwrap_or(&0);
        self.offs.insert(sid, off + len);
        genb(self.name, sid, off, len)
    }

    fn drain_callback(&mut self) {
        if let Some(rx) = self.cb_rx.as_mut() {
            while let Ok(s) = rx.try_recv() {
                let id = s.id();
                self.news.push(id);
                self.objs.entry(id).or_default().push(Obj {
                    stream: s,
                    rx: None,
                    verdict: None,
                });
            }
        }
    }
}

fn synack_class(r: &anytls_rs::util::Result<()>) -> String {
    match r {
        Ok(()) => "yo".to_string(),
        Err(e) => {
            let m = e.to_string();
            if let Some(p) = m.rfind("Server error: ") {
                format!("ye{:08x}", fnv(m[p + "Server error: ".len()..].as_bytes()))
            } else if m.contains("Session closed") {
                "yc".to_string()
            } else {
                format!("y?{}", m.replace(' ', "_"))
            }
        }
    }
}

async fn run_ss(args: &[&str]) -> String {
    let scheme = unhex(args[0]);
    let st = args[2] == "1";
    let padding = match PaddingFactory::new(&scheme) {
        Ok(p) => Arc::new(p),
        Err(e) => return format!("BADSCHEME {}", e.replace(' ', "_")),
    };
    // client side
    let (cw, cwh) = RecWriter::new(None);
    let (cr, crtx) = ChanReader::new();
    let csess = Arc::new(Session::new_client(cr, cw, padding.clone(), None));
    // server side
    let (sw, swh) = RecWriter::new(None);
    let (sr, srtx) = ChanReader::new();
    let mut ssess = Session::new_server(sr, sw, padding.clone());
    let (cbtx, cbrx) = mpsc::unbounded_channel::<Arc<Stream>>();
    ssess.set_stream_callback(cbtx);
    let ssess = Arc::new(ssess);

    if st {
        if csess.clone().start_client().await.is_err() {
            return "START-FAILED".to_string();
        }
        csess.disable_buffering();
    } else {
        let a = csess.clone();
        tokio::spawn(async move {
            let _ = a.recv_loop().await;
        });
        let b = csess.clone();
        tokio::spawn(async move {
            let _ = b.process_stream_data().await;
        });
    }
    let a = ssess.clone();
    tokio::spawn(async move {
        let _ = a.recv_loop().await;
    });
    let b = ssess.clone();
    tokio::spawn(async move {
        let _ = b.process_stream_data().await;
    });

    let mut sides = [
        Side {
            name: 'c',
            sess: csess,
            wh: cwh,
            rtx: crtx,
            relayed: 0,
            logged: 0,
            logbuf: BytesMut::new(),
            shut_sent: false,
            objs: HashMap::new(),
            cb_rx: None,
            news: Vec::new(),
            offs: HashMap::new(),
        },
        Side {
            name: 's',
            sess: ssess,
            wh: swh,
            rtx: srtx,
            relayed: 0,
            logged: 0,
            logbuf: BytesMut::new(),
            shut_sent: false,
            objs: HashMap::new(),
            cb_rx: Some(cbrx),
            news: Vec::new(),
            offs: HashMap::new(),
        },
    ];
    settle().await;
    let idx = |s: &str| if s == "c" { 0usize } else { 1usize };
    let mut out: Vec<String> = Vec::new();
    for op in &args[3..] {
        let p: Vec<&str> = op.split(':').collect();
        match p[0] {
            "O" => {
                let x = &mut sides[idx(p[1])];
                match x.sess.open_stream().await {
                    Ok((stream, rx)) => {
                        let id = stream.id();
                        x.objs.entry(id).or_default().push(Obj {
                            stream,
                            rx: Some(rx),
                            verdict: None,
                        });
                        out.push(format!("o{}", id));
                    }
                    Err(_) => out.push("o-".to_string()),
                }
            }
            "W" => {
                let x = &mut sides[idx(p[1])];
                let sid: u32 = p[2].parse().unwrap();
                let d = x.next_payload(sid, p[3].parse().unwrap());
                let r = x.sess.write_data_frame(sid, Bytes::from(d)).await;
                out.push(if r.is_ok() { "w+" } else { "w-" }.to_string());
            }
            "V" => {
                // two write_data_frame calls of one task on one stream, back to back (no yield in between)
                let x = &mut sides[idx(p[1])];
                let sid: u32 = p[2].parse().unwrap();
                let d1 = x.next_payload(sid, p[3].parse().unwrap());
                let d2 = x.next_payload(sid, p[4].parse().unwrap());
                let r1 = x.sess.write_data_frame(sid, Bytes::from(d1)).await;
                let r2 = x.sess.write_data_frame(sid, Bytes::from(d2)).await;
                out.push(format!("v{}{}", if r1.is_ok() { "+" } else { "-" }, if r2.is_ok() { "+" } else { "-" }));
            }
            "S" | "A" => {
                let x = &mut sides[idx(p[1])];
                let sid: u32 = p[2].parse().unwrap();
                let k: usize = p[3].parse().unwrap();
                let d = x.next_payload(sid, p[4].parse().unwrap());
                let tag = if p[0] == "S" { "s" } else { "a" };
                match x.objs.get_mut(&sid).and_then(|v| v.get_mut(k)) {
                    None => out.push(format!("{}-", tag)),
                    Some(o) => {
                        if p[0] == "S" {
                            let r = o.stream.send_data(Bytes::from(d));
                            out.push(format!("s{}", if r.is_ok() { "+" } else { "-" }));
                        } else {
                            match Arc::get_mut(&mut o.stream) {
                                None => out.push("a!".to_string()),
                                Some(s) => {
                                    let r = s.write_all(&d).await;
                                    out.push(format!("a{}", if r.is_ok() { "+" } else { "-" }));
                                }
                            }
                        }
                    }
                }
            }
            "H" => {
                let x = &mut sides[idx(p[1])];
                let sid: u32 = p[2].parse().unwrap();
                let k: usize = p[3].parse().unwrap();
                match x.objs.get_mut(&sid).and_then(|v| v.get_mut(k)) {
                    None => out.push("h".to_string()),
                    Some(o) => match Arc::get_mut(&mut o.stream) {
                        None => out.push("h!".to_string()),
                        Some(s) => {
                            let _ = s.shutdown().await;
                            out.push("h".to_string());
                        }
                    },
                }
            }
            "G" => {
                let x = &mut sides[idx(p[1])];
                let c: u8 = p[2].parse().unwrap();
                let sid: u32 = p[3].parse().unwrap();
                let f = Frame::with_data(Command::from(c), sid, Bytes::from(unhex(p[4])));
                let r = x.sess.write_control_frame(f).await;
                out.push(if r.is_ok() { "g+" } else { "g-" }.to_string());
            }
            "R" => {
                let x = &mut sides[idx(p[1])];
                let _ = x.rtx.send(REv::Data(unhex(p[2])));
                out.push("r".to_string());
            }
            "X" => {
                let from = idx(p[1]);
                let to = 1 - from;
                let sizes: Vec<usize> = if p[2] == "-" {
                    vec![]
                } else {
                    p[2].split(',').map(|s| s.parse().unwrap()).collect()
                };
                let all = sides[from].wh.bytes();
                let mut rest = &all[sides[from].relayed..];
                let mut i = 0usize;
                while !rest.is_empty() {
                    let k = if sizes.is_empty() { 0 } else { sizes[i % sizes.len()] };
                    i += 1;
                    let n = if k == 0 { rest.len() } else { k.min(rest.len()) };
                    let _ = sides[to].rtx.send(REv::Data(rest[..n].to_vec()));
                    rest = &rest[n..];
                }
                sides[from].relayed = all.len();
                if sides[from].wh.is_shutdown() && !sides[from].shut_sent {
                    sides[from].shut_sent = true;
                    let _ = sides[to].rtx.send(REv::Eof);
                }
                out.push("x".to_string());
            }
            "K" => {
                let x = &mut sides[idx(p[1])];
                let k: usize = p[2].parse().unwrap();
                x.wh.set_max_per_write(if k == 0 { None } else { Some(k) });
                out.push("k".to_string());
            }
            "D" => {
                let x = &mut sides[idx(p[1])];
                let sid: u32 = p[2].parse().unwrap();
                let k: usize = p[3].parse().unwrap();
                let cap: usize = p[4].parse().unwrap();
                match x.objs.get(&sid).and_then(|v| v.get(k)) {
                    None => out.push("x".to_string()),
                    Some(o) => {
                        let stream = o.stream.clone();
                        let mut buf = vec![0u8; cap];
                        let r = tokio::time::timeout(ms(1), async {
                            let mut rd = stream.reader().lock().await;
                            rd.read(&mut buf).await
                        })
                        .await;
                        drop(stream);
                        out.push(match r {
                            Err(_) => "p".to_string(),
                            Ok(Ok(0)) => "e".to_string(),
                            Ok(Ok(n)) => data_tok(&buf[..n]),
                            Ok(Err(_)) => "E".to_string(),
                        });
                    }
                }
            }
            "T" => {
                let x = &sides[idx(p[1])];
                let (a, b) = x.sess.verif_table_sizes().await;
                out.push(format!("t{}.{}", a, b));
            }
            "C" => {
                let x = &sides[idx(p[1])];
                let _ = x.sess.close().await;
                out.push("c".to_string());
            }
            "E" => {
                let x = &sides[idx(p[1])];
                let _ = x.rtx.send(REv::Eof);
                out.push("z".to_string());
            }
            "Y" => {
                let x = &mut sides[idx(p[1])];
                let sid: u32 = p[2].parse().unwrap();
                let k: usize = p[3].parse().unwrap();
                match x.objs.get_mut(&sid).and_then(|v| v.get_mut(k)) {
                    None => out.push("yx".to_string()),
                    Some(o) => {
                        if o.verdict.is_none() {
                            if let Some(rx) = o.rx.as_mut() {
                                match rx.try_recv() {
                                    Ok(r) => o.verdict = Some(synack_class(&r)),
                                    Err(oneshot::error::TryRecvError::Empty) => {}
                                    Err(oneshot::error::TryRecvError::Closed) => {
                                        o.verdict = Some("yd".to_string())
                                    }
                                }
                            } else {
                                o.verdict = Some("yn".to_string());
                            }
                        }
                        out.push(o.verdict.clone().unwrap_or_else(|| "yp".to_string()));
                    }
                }
            }
            "V" => {
                let x = &sides[idx(p[1])];
                out.push(format!("v{}", x.sess.peer_version()));
            }
            // literal payloads: P = write_data_frame, U = Stream::send_data
            "P" => {
                let x = &mut sides[idx(p[1])];
                let sid: u32 = p[2].parse().unwrap();
                let r = x.sess.write_data_frame(sid, Bytes::from(unhex(p[3]))).await;
                out.push(if r.is_ok() { "w+" } else { "w-" }.to_string());
            }
            "U" => {
                let x = &mut sides[idx(p[1])];
                let sid: u32 = p[2].parse().unwrap();
                let k: usize = p[3].parse().unwrap();
                match x.objs.get_mut(&sid).and_then(|v| v.get_mut(k)) {
                    None => out.push("s-".to_string()),
                    Some(o) => {
                        let r = o.stream.send_data(Bytes::from(unhex(p[4])));
                        out.push(format!("s{}", if r.is_ok() { "+" } else { "-" }));
                    }
                }
            }
            "Q" => {
                tokio::time::sleep(ms(p[1].parse().unwrap())).await;
                out.push("q".to_string());
            }
            "L" => {
                let x = &mut sides[idx(p[1])];
                let all = x.wh.bytes();
                x.logbuf.extend_from_slice(&all[x.logged..]);
                x.logged = all.len();
                let mut codec = FrameCodec;
                let mut toks = Vec::new();
                while let Ok(Some(f)) = codec.decode(&mut x.logbuf) {
                    if f.cmd == Command::Waste {
                        continue;
                    }
                    toks.push(format!(
                        "{}.{}.{}.{:08x}",
                        u8::from(f.cmd),
                        f.stream_id,
                        f.data.len(),
                        fnv(&f.data)
                    ));
                }
                out.push(if toks.is_empty() {
                    "l-".to_string()
                } else {
                    format!("l{}", toks.join(","))
                });
            }
            "N" => {
                let x = &mut sides[idx(p[1])];
                x.drain_callback();
                let l = std::mem::take(&mut x.news);
                out.push(if l.is_empty() {
                    "n-".to_string()
                } else {
                    format!("n{}", l.iter().map(|v| v.to_string()).collect::<Vec<_>>().join(","))
                });
            }
            _ => out.push(format!("?{}", op)),
        }
        settle().await;
        sides[1].drain_callback();
    }
    out.join(" ")
}

fn ss(args: &[&str]) -> String {
    let rt = paused_rt();
    let r = rt.block_on(run_ss(args));
    rt.shutdown_background();
    r
}

// ------------------------------------------------------------------------------------------------ c10

fn new_client(interval_ms: u64, timeout_ms: u64) -> Arc<Client> {
    new_client_with(interval_ms, timeout_ms, PaddingFactory::default())
}

/// a scheme that differs from the built-in one: the server answers the client's Settings with an UpdatePaddingScheme
fn other_scheme() -> Arc<PaddingFactory> {
    Arc::new(PaddingFactory::new(b"stop=4\n0=20-40\n1=50-120,c,30-30\n2=80-90\n3=10-10,10-10").unwrap())
}

fn new_client_with(interval_ms: u64, timeout_ms: u64, padding: Arc<PaddingFactory>) -> Arc<Client> {
    let cfg = SessionPoolConfig {
        check_interval: ms(interval_ms),
        idle_timeout: ms(timeout_ms),
        min_idle_sessions: 1,
    };
    let tls = anytls_rs::util::tls::create_client_config().unwrap();
    let connector = Arc::new(tokio_rustls::TlsConnector::from(tls));
    let name = tokio_rustls::rustls::pki_types::ServerName::try_from("localhost".to_string()).unwrap();
    Arc::new(Client::with_pool_config(
        PASSWORD,
        "127.0.0.1:1".to_string(),
        name,
        connector,
        padding,
        cfg,
    ))
}

fn open_class(r: &anytls_rs::util::Result<(Arc<Stream>, Arc<Session>)>, raw: bool) -> String {
    match r {
        Ok(_) => "ok".to_string(),
        Err(e) => {
            let m = e.to_string();
            if raw && m.contains("Server error: ") {
                // the reason is not valid UTF-8 text: the library keeps a lossy copy, only the class is compared
                "srv.raw".to_string()
            } else if let Some(p) = m.rfind("Server error: ") {
                format!("srv.{:08x}", fnv(m[p + "Server error: ".len()..].as_bytes()))
            } else if m.contains("Session closed") {
                "closed".to_string()
            } else if m.contains("SYNACK timeout") {
                "timeout".to_string()
            } else if m.contains("SYNACK channel closed") {
                "chan".to_string()
            } else {
                format!("other:{}", m.replace(' ', "_"))
            }
        }
    }
}

async fn run_c10(args: &[&str]) -> String {
    let n: usize = args[0].parse().unwrap();
    let mut evs: Vec<(u64, Vec<String>)> = args[1..]
        .iter()
        .map(|e| {
            let p: Vec<String> = e.split(':').map(|s| s.to_string()).collect();
            (p[0].parse().unwrap(), p[1..].to_vec())
        })
        .collect();
    evs.sort_by_key(|e| e.0);

    // one scripted peer per connector call; the script talks to the first one
    let peers: Arc<Mutex<Vec<(WHandle, mpsc::UnboundedSender<REv>)>>> = Arc::new(Mutex::new(Vec::new()));
    let peers2 = peers.clone();
    let connector: anytls_rs::client::VerifConnector = Arc::new(move || {
        let (w, wh) = RecWriter::new(None);
        let (r, rtx) = ChanReader::new();
        peers2.lock().unwrap().push((wh, rtx));
        (Box::new(r) as BoxR, Box::new(w) as BoxW)
    });
    let client = new_client(3_600_000, 7_200_000);
    client.verif_set_connector(Some(connector));
    let t0 = Instant::now();
    let sess = match client.create_stream().await {
        Ok(s) => s,
        Err(_) => return "NO-SESSION".to_string(),
    };
    let pool = client.verif_session_pool();
    let raw_sids: Vec<u32> = evs
        .iter()
        .filter(|(_, e)| e[0] == "ack" && e.len() > 3 && e[3] == "r")
        .map(|(_, e)| e[1].parse().unwrap())
        .collect();
    let mut handles = Vec::new();
    for i in 0..n {
        let raw = raw_sids.contains(&((i + 1) as u32));
        if pool.idle_count().await == 0 {
            pool.add_idle_session(sess.clone()).await;
        }
        let c = client.clone();
        let h = tokio::spawn(async move {
            let r = c.create_proxy_stream(("example.com".to_string(), 80)).await;
            (open_class(&r, raw), Instant::now(), r.ok())
        });
        for _ in 0..64 {
            tokio::task::yield_now().await;
        }
        handles.push(h);
    }
    let nsessions = peers.lock().unwrap().len();
    let rtx = peers.lock().unwrap()[0].1.clone();
    for (t, e) in evs {
        tokio::time::sleep_until(t0 + ms(t)).await;
        match e[0].as_str() {
            "ack" => {
                let sid: u32 = e[1].parse().unwrap();
                let _ = rtx.send(REv::Data(enc(7, sid, &unhex(&e[2]))));
            }
            "fin" => {
                let _ = rtx.send(REv::Data(enc(3, e[1].parse().unwrap(), &[])));
            }
            "psh" => {
                let _ = rtx.send(REv::Data(enc(2, e[1].parse().unwrap(), &[1])));
            }
            "syn" => {
                let _ = rtx.send(REv::Data(enc(1, e[1].parse().unwrap(), &[])));
            }
            "alert" => {
                let _ = rtx.send(REv::Data(enc(5, 0, &[120])));
            }
            "hb" => {
                let _ = rtx.send(REv::Data(enc(8, 0, &[])));
            }
            "eof" => {
                let _ = rtx.send(REv::Eof);
            }
            "rerr" => {
                let _ = rtx.send(REv::Err(std::io::ErrorKind::ConnectionReset, "injected reset"));
            }
            "close" => {
                let _ = sess.close().await;
            }
            _ => {}
        }
    }
    tokio::time::sleep_until(t0 + ms(65_000)).await;
    let mut out = Vec::new();
    let mut keep = Vec::new();
    for h in handles {
        if h.is_finished() {
            match h.await {
                Ok((class, at, s)) => {
                    out.push(format!("{}@{}", class, at.duration_since(t0).as_millis()));
                    keep.push(s);
                }
                Err(_) => out.push("panic".to_string()),
            }
        } else {
            h.abort();
            out.push("hang".to_string());
        }
    }
    if nsessions != 1 {
        out.push(format!("sessions={}", nsessions));
    }
    out.join(" ")
}

fn c10(args: &[&str]) -> String {
    let rt = paused_rt();
    let r = rt.block_on(run_c10(args));
    rt.shutdown_background();
    r
}

// ------------------------------------------------------------------------------------------------ lo

fn real_rt() -> tokio::runtime::Runtime {
    tokio::runtime::Builder::new_current_thread().enable_all().build().unwrap()
}

/// in-process server: authenticates, runs a server session with the library's TcpProxyHandler
fn loop_connector(
    servers: Arc<Mutex<Vec<Arc<Session>>>>,
    c2s: Arc<Mutex<Vec<WHandle>>>,
) -> anytls_rs::client::VerifConnector {
    Arc::new(move || {
        let (c2s_w, _h1, c2s_r, _tx1) = transport::pipe();
        c2s.lock().unwrap().push(_h1.clone());
        let (s2c_w, _h2, s2c_r, _tx2) = transport::pipe();
        let servers = servers.clone();
        tokio::spawn(async move {
            let padding = PaddingFactory::default();
            let hash = hash_password(PASSWORD);
            let mut r = c2s_r;
            if authenticate_client(&mut r, &hash, &padding).await.is_err() {
                return;
            }
            let mut s = Session::new_server(r, s2c_w, padding);
            let (tx, mut rx) = mpsc::unbounded_channel::<Arc<Stream>>();
            s.set_stream_callback(tx);
            let s = Arc::new(s);
            servers.lock().unwrap().push(s.clone());
            let s1 = s.clone();
            tokio::spawn(async move {
                let _ = s1.recv_loop().await;
            });
            let s2 = s.clone();
            tokio::spawn(async move {
                let _ = s2.process_stream_data().await;
            });
            while let Some(stream) = rx.recv().await {
                let sess = s.clone();
                tokio::spawn(async move {
                    let h = TcpProxyHandler::new();
                    let _ = h.handle_stream(stream, sess).await;
                });
            }
        });
        (Box::new(s2c_r) as BoxR, Box::new(c2s_w) as BoxW)
    })
}

/// read until EOF, error, `want` bytes (if given) or the deadline; returns (bytes, saw_eof)
async fn read_some(s: &mut (impl AsyncRead + Unpin), want: Option<usize>, wait: Duration) -> (Vec<u8>, bool) {
    let deadline = Instant::now() + wait;
    let mut got = Vec::new();
    let mut buf = vec![0u8; 16384];
    loop {
        if let Some(w) = want {
            if got.len() >= w {
                return (got, false);
            }
        }
        match tokio::time::timeout_at(deadline, s.read(&mut buf)).await {
            Err(_) => return (got, false),
            Ok(Ok(0)) => return (got, true),
            Ok(Ok(n)) => got.extend_from_slice(&buf[..n]),
            Ok(Err(_)) => return (got, true),
        }
    }
}

fn sum_tok(b: &[u8]) -> String {
    format!("{}.{:08x}", b.len(), fnv(b))
}

async fn run_lo(args: &[&str]) -> String {
    let front = args[0];
    let scenario = args[1];
    let n: usize = args[2].parse().unwrap();
    let m: usize = args[3].parse().unwrap();
    let watch = ms(args.get(4).map(|s| s.parse().unwrap()).unwrap_or(2000));

    let servers: Arc<Mutex<Vec<Arc<Session>>>> = Arc::new(Mutex::new(Vec::new()));
    // optional 6th argument `cs`: the client is configured with a padding scheme that differs from the server's
    let client = if args.get(5).copied() == Some("cs") {
        new_client_with(3_600_000, 7_200_000, other_scheme())
    } else {
        new_client(3_600_000, 7_200_000)
    };
    let c2s: Arc<Mutex<Vec<WHandle>>> = Arc::new(Mutex::new(Vec::new()));
    client.verif_set_connector(Some(loop_connector(servers.clone(), c2s.clone())));

    // target (for the slow-target scenario: a small receive buffer, so that the upload piles up in the server)
    let target = if scenario == "slow_target" {
        let sock = tokio::net::TcpSocket::new_v4().unwrap();
        let _ = sock.set_recv_buffer_size(4096);
        sock.bind("127.0.0.1:0".parse().unwrap()).unwrap();
        sock.listen(16).unwrap()
    } else {
        TcpListener::bind("127.0.0.1:0").await.unwrap()
    };
    let mut tport = target.local_addr().unwrap().port();
    let mut target = Some(target);
    if scenario == "refuse" {
        // a port nobody listens on: bind, remember, close
        target = None;
        let _ = &mut tport;
    }

    // front-end + application connection
    let mut app: TcpStream;
    let mut early: Vec<u8> = Vec::new();
    if scenario == "pipelined" {
        early = genb('c', 1, 0, n);
    }
    let reply: &str;
    if front == "socks" {
        let l = TcpListener::bind("127.0.0.1:0").await.unwrap();
        let addr = l.local_addr().unwrap();
        let c2 = client.clone();
        tokio::spawn(async move {
            if let Ok((conn, _)) = l.accept().await {
                let _ = anytls_rs::client::socks5::socks5_verif_hooks::handle_socks5_connection(conn, c2).await;
            }
        });
        app = TcpStream::connect(addr).await.unwrap();
        app.write_all(&[5, 1, 0]).await.unwrap();
        let mut g = [0u8; 2];
        if app.read_exact(&mut g).await.is_err() {
            return "reply=none".to_string();
        }
        let mut req = vec![5u8, 1, 0, 1, 127, 0, 0, 1];
        req.extend_from_slice(&tport.to_be_bytes());
        req.extend_from_slice(&early);
        app.write_all(&req).await.unwrap();
        let mut rep = [0u8; 10];
        match tokio::time::timeout(ms(20_000), app.read_exact(&mut rep)).await {
            Ok(Ok(_)) => reply = if rep[1] == 0 { "ok" } else { "fail" },
            _ => return "reply=none".to_string(),
        }
    } else {
        // pick a port for the library's own accept loop
        let probe = TcpListener::bind("127.0.0.1:0").await.unwrap();
        let addr = probe.local_addr().unwrap();
        drop(probe);
        let c2 = client.clone();
        let a2 = addr.to_string();
        tokio::spawn(async move {
            let _ = anytls_rs::client::http_proxy::start_http_proxy_server(&a2, c2).await;
        });
        let mut conn = None;
        for _ in 0..200 {
            if let Ok(c) = TcpStream::connect(addr).await {
                conn = Some(c);
                break;
            }
            tokio::time::sleep(ms(10)).await;
        }
        app = match conn {
            Some(c) => c,
            None => return "front=down".to_string(),
        };
        let mut req = format!("CONNECT 127.0.0.1:{} HTTP/1.1\r\nHost: 127.0.0.1:{}\r\n\r\n", tport, tport).into_bytes();
        // (bytes sent together with a CONNECT request are not part of this driver: C17)
        early.clear();
        req.extend_from_slice(&early);
        app.write_all(&req).await.unwrap();
        let mut head = Vec::new();
        let mut b = [0u8; 1];
        let deadline = Instant::now() + ms(20_000);
        loop {
            match tokio::time::timeout_at(deadline, app.read(&mut b)).await {
                Ok(Ok(1)) => {
                    head.push(b[0]);
                    if head.ends_with(b"\r\n\r\n") {
                        break;
                    }
                }
                _ => break,
            }
        }
        let text = String::from_utf8_lossy(&head).to_string();
        reply = if text.starts_with("HTTP/1.1 200") {
            "ok"
        } else if text.contains(" 502 ") {
            "fail"
        } else {
            "none"
        };
    }

    let mut out = vec![format!("reply={}", reply)];
    // did anything reach the target?
    let mut tconn: Option<TcpStream> = None;
    if let Some(t) = target.as_ref() {
        if let Ok(Ok((c, _))) = tokio::time::timeout(ms(if reply == "ok" { 5000 } else { 300 }), t.accept()).await {
            tconn = Some(c);
        }
    }
    out.push(format!("tgt_conn={}", if tconn.is_some() { 1 } else { 0 }));
    if reply != "ok" || tconn.is_none() {
        // on failure nothing may be forwarded: the application socket is answered and ended
        let (rest, eof) = read_some(&mut app, None, ms(500)).await;
        out.push(format!("app_after={}", rest.len()));
        out.push(format!("app_eof={}", if eof { 1 } else { 0 }));
        return out.join(" ");
    }
    let mut tconn = tconn.unwrap();
    match scenario {
        "app_eof" | "pipelined" => {
            // application -> target: n bytes, then the application half-closes
            let data = genb('c', 1, 0, n);
            if scenario == "app_eof" || front != "socks" {
                app.write_all(&data).await.unwrap();
            }
            let _ = app.shutdown().await;
            let (got, _) = read_some(&mut tconn, Some(n), ms(10_000)).await;
            out.push(format!("fwd={}", sum_tok(&got)));
            let (more, eof) = read_some(&mut tconn, None, watch).await;
            out.push(format!("extra={}", more.len()));
            out.push(format!("eof={}", if eof { 1 } else { 0 }));
            // the other direction keeps working
            let back = genb('s', 1, 0, m);
            let _ = tconn.write_all(&back).await;
            let (rev, _) = read_some(&mut app, Some(m), ms(5000)).await;
            out.push(format!("rev={}", sum_tok(&rev)));
        }
        "slow_target" => {
            // the application uploads n bytes and half-closes; the target does not read; once everything has left
            // the client session the client session is closed; only m ms later the target starts reading
            let data = genb('c', 1, 0, n);
            app.write_all(&data).await.unwrap();
            let _ = app.shutdown().await;
            let deadline = Instant::now() + ms(60_000);
            loop {
                let total = c2s.lock().unwrap().first().map(|h| h.total()).unwrap_or(0);
                if total >= n || Instant::now() > deadline {
                    break;
                }
                tokio::time::sleep(ms(10)).await;
            }
            let pool = client.verif_session_pool();
            let closed = match pool.get_idle_session().await {
                Some(s) => {
                    let _ = s.close().await;
                    1
                }
                None => 0,
            };
            out.push(format!("closed={}", closed));
            tokio::time::sleep(ms(m as u64)).await;
            let _ = tconn.shutdown().await;
            let mut h: u32 = 0x811c9dc5;
            let mut cnt = 0usize;
            let mut eof = 0;
            let mut buf = vec![0u8; 65536];
            loop {
                match tokio::time::timeout(watch, tconn.read(&mut buf)).await {
                    Err(_) => break,
                    Ok(Ok(0)) | Ok(Err(_)) => {
                        eof = 1;
                        break;
                    }
                    Ok(Ok(k)) => {
                        cnt += k;
                        for x in &buf[..k] {
                            h ^= *x as u32;
                            h = h.wrapping_mul(0x01000193);
                        }
                    }
                }
            }
            out.push(format!("fwd={}.{:08x}", cnt, h));
            out.push(format!("eof={}", eof));
        }
        "chunks" => {
            // both relays of both ends (C01_tunnel_*): the application uploads the chunks of plan args[6] one by one with a
            // pause of args[8] ms between them (so that the copy loops see reads of different lengths over the same
            // buffer), the target reads everything; then the target sends the chunks of plan args[7] the same way
            let sizes = |s: &str| -> Vec<usize> {
                if s == "-" {
                    Vec::new()
                } else {
                    s.split(',').map(|x| x.parse().unwrap()).collect()
                }
            };
            let up = sizes(args.get(6).copied().unwrap_or("-"));
            let down = sizes(args.get(7).copied().unwrap_or("-"));
            let pause = ms(args.get(8).map(|s| s.parse().unwrap()).unwrap_or(2));
            let total_up: usize = up.iter().sum();
            let total_down: usize = down.iter().sum();
            let data = genb('c', 1, 0, total_up);
            let mut off = 0usize;
            let mut tread = tokio::spawn(async move {
                let (got, _) = read_some(&mut tconn, Some(total_up), ms(20_000)).await;
                (tconn, got)
            });
            for k in &up {
                app.write_all(&data[off..off + k]).await.unwrap();
                off += k;
                tokio::time::sleep(pause).await;
            }
            let (mut tconn2, got) = (&mut tread).await.unwrap();
            out.push(format!("fwd={}", sum_tok(&got)));
            let back = genb('s', 1, 0, total_down);
            let mut off = 0usize;
            let aread = tokio::spawn(async move {
                let (got, _) = read_some(&mut app, Some(total_down), ms(20_000)).await;
                (app, got)
            });
            for k in &down {
                tconn2.write_all(&back[off..off + k]).await.unwrap();
                off += k;
                tokio::time::sleep(pause).await;
            }
            let (mut app2, rev) = aread.await.unwrap();
            out.push(format!("rev={}", sum_tok(&rev)));
            // nothing more arrives at either end while both stay open
            let (more_t, _) = read_some(&mut tconn2, None, ms(50)).await;
            let (more_a, _) = read_some(&mut app2, None, ms(50)).await;
            out.push(format!("extra={}", more_t.len() + more_a.len()));
            let srv = servers.lock().unwrap().first().cloned();
            if let Some(s) = srv {
                let (a, b) = s.verif_table_sizes().await;
                out.push(format!("srv_tables={}.{}", a, b));
            }
            return out.join(" ");
        }
        "tgt_eof" => {
            // target -> application: n bytes, then the target half-closes
            let data = genb('s', 1, 0, n);
            tconn.write_all(&data).await.unwrap();
            let _ = tconn.shutdown().await;
            let (got, _) = read_some(&mut app, Some(n), ms(10_000)).await;
            out.push(format!("fwd={}", sum_tok(&got)));
            let (more, eof) = read_some(&mut app, None, watch).await;
            out.push(format!("extra={}", more.len()));
            out.push(format!("eof={}", if eof { 1 } else { 0 }));
            let back = genb('c', 1, 0, m);
            let _ = app.write_all(&back).await;
            let (rev, _) = read_some(&mut tconn, Some(m), ms(5000)).await;
            out.push(format!("rev={}", sum_tok(&rev)));
        }
        _ => {}
    }
    // per-stream state still held by both sessions
    let srv = servers.lock().unwrap().first().cloned();
    if let Some(s) = srv {
        let (a, b) = s.verif_table_sizes().await;
        out.push(format!("srv_tables={}.{}", a, b));
    }
    out.join(" ")
}

fn lo(args: &[&str]) -> String {
    let rt = real_rt();
    let r = rt.block_on(run_lo(args));
    rt.shutdown_background();
    r
}

pub fn dispatch(drv: &str, args: &[&str]) -> Option<String> {
    match drv {
        "ss" => Some(ss(args)),
        "c10" => Some(c10(args)),
        "lo" => Some(lo(args)),
        _ => None,
    }
}
