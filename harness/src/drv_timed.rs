//! implementation-side drivers of work package "timed" (C12, C13, C14)
//!
//! pool     <I> <T> <M> <t:op>...   the real `Client` (pool, reaper, heartbeat) on in-memory transports
//!                                  against in-process server sessions, tokio virtual time
//! bpool    <I> <T> <M> <t:op>...   the bare `SessionPool` public API, virtual time
//! hb       <mode> <I> <T> <H> <delay|x>...  a client session with heartbeat against a scripted peer
//! poolreal <I> <T> <M> <t:op>...   real `Server` + real `Client` over loopback TLS in REAL time
//!
//! All times are milliseconds since the start of the case.
#![allow(dead_code, unused_imports)]
use crate::transport::{self, ChanReader, REv, RecWriter};
use anytls_rs::client::{Client, SessionPool, SessionPoolConfig};
use anytls_rs::padding::PaddingFactory;
use anytls_rs::protocol::{Command, Frame, FrameCodec};
use anytls_rs::session::{Session, SessionHeartbeatConfig, Stream};
use anytls_rs::util::{authenticate_client, hash_password};
use bytes::BytesMut;
use std::collections::VecDeque;
use std::future::Future;
use std::pin::Pin;
use std::sync::atomic::{AtomicUsize, Ordering};
use std::sync::{Arc, Mutex};
use std::task::{Context, Poll};
use tokio::io::{AsyncRead, AsyncReadExt, AsyncWrite, AsyncWriteExt};
use tokio::sync::{mpsc, oneshot};
use tokio::time::{Duration, Instant};
use tokio_util::codec::{Decoder, Encoder};

const PASSWORD: &str = "verif-timed";

type BoxR = Box<dyn AsyncRead + Send + Unpin>;
type BoxW = Box<dyn AsyncWrite + Send + Unpin>;

fn paused_rt() -> tokio::runtime::Runtime {
    tokio::runtime::Builder::new_current_thread()
        .enable_all()
        .start_paused(true)
        .build()
        .unwrap()
}

fn ms(v: u64) -> Duration {
    Duration::from_millis(v)
}

/// let every runnable task finish what it can do at the current instant: with the paused clock a
/// timer only fires once the runtime is otherwise idle, so this returns after quiescence (+1 ms)
async fn settle() {
    tokio::time::sleep(ms(1)).await;
}

/// writer whose first write waits until the harness opens the gate (models the time a dial takes:
/// the request is past `get_idle_session` and inside `create_new_session`)
/// writer that accepts everything but whose shutdown never completes (peer gone without FIN)
struct StallWriter;

impl AsyncWrite for StallWriter {
    fn poll_write(self: Pin<&mut Self>, _cx: &mut Context<'_>, buf: &[u8]) -> Poll<std::io::Result<usize>> {
        Poll::Ready(Ok(buf.len()))
    }
    fn poll_flush(self: Pin<&mut Self>, _cx: &mut Context<'_>) -> Poll<std::io::Result<()>> {
        Poll::Ready(Ok(()))
    }
    fn poll_shutdown(self: Pin<&mut Self>, _cx: &mut Context<'_>) -> Poll<std::io::Result<()>> {
        Poll::Pending
    }
}

struct GateWriter {
    inner: RecWriter,
    gate: Option<oneshot::Receiver<()>>,
}

impl AsyncWrite for GateWriter {
    fn poll_write(
        mut self: Pin<&mut Self>,
        cx: &mut Context<'_>,
        buf: &[u8],
    ) -> Poll<std::io::Result<usize>> {
        if let Some(g) = self.gate.as_mut() {
            match Pin::new(g).poll(cx) {
                Poll::Pending => return Poll::Pending,
                Poll::Ready(_) => self.gate = None,
            }
        }
        Pin::new(&mut self.inner).poll_write(cx, buf)
    }
    fn poll_flush(mut self: Pin<&mut Self>, cx: &mut Context<'_>) -> Poll<std::io::Result<()>> {
        Pin::new(&mut self.inner).poll_flush(cx)
    }
    fn poll_shutdown(mut self: Pin<&mut Self>, cx: &mut Context<'_>) -> Poll<std::io::Result<()>> {
        Pin::new(&mut self.inner).poll_shutdown(cx)
    }
}

// ------------------------------------------------------------------------------------------------
// in-process server side of the `pool` driver

#[derive(Default)]
struct Shared {
    /// server session of the k-th connector invocation (None until authenticated)
    servers: Vec<Option<Arc<Session>>>,
    /// gates of dials that are still waiting (FIFO)
    gates: VecDeque<(usize, oneshot::Sender<()>)>,
    /// the next dial has to wait at a gate
    gated: bool,
    dials: usize,
    /// streams kept alive on the server side
    keep: Vec<Arc<Stream>>,
}

fn make_connector(shared: Arc<Mutex<Shared>>) -> anytls_rs::client::VerifConnector {
    Arc::new(move || {
        let (c2s_w, _h1, c2s_r, _tx1) = transport::pipe();
        let (s2c_w, _h2, s2c_r, _tx2) = transport::pipe();
        let (idx, gate) = {
            let mut sh = shared.lock().unwrap();
            let idx = sh.dials;
            sh.dials += 1;
            sh.servers.push(None);
            let gate = if sh.gated {
                let (tx, rx) = oneshot::channel();
                sh.gates.push_back((idx, tx));
                Some(rx)
            } else {
                None
            };
            (idx, gate)
        };
        let shared2 = shared.clone();
        tokio::spawn(async move {
            let padding = PaddingFactory::default();
            let hash = hash_password(PASSWORD);
            let mut r = c2s_r;
            if authenticate_client(&mut r, &hash, &padding).await.is_err() {
                return;
            }
            let mut s = Session::new_server(r, s2c_w, padding);
            let (tx, mut rx) = mpsc::unbounded_channel::<Arc<Stream>>();
            s.set_stream_callback(tx);
            let s = Arc::new(s);
            shared2.lock().unwrap().servers[idx] = Some(s.clone());
            let s1 = s.clone();
            tokio::spawn(async move {
                let _ = s1.recv_loop().await;
            });
            let s2 = s.clone();
            tokio::spawn(async move {
                let _ = s2.process_stream_data().await;
            });
            while let Some(stream) = rx.recv().await {
                let _ = s
                    .write_control_frame(Frame::control(Command::SynAck, stream.id()))
                    .await;
                shared2.lock().unwrap().keep.push(stream);
            }
        });
        (
            Box::new(s2c_r) as BoxR,
            Box::new(GateWriter { inner: c2s_w, gate }) as BoxW,
        )
    })
}

fn new_client(i: u64, t: u64, m: usize) -> Arc<Client> {
    let cfg = SessionPoolConfig {
        check_interval: ms(i),
        idle_timeout: ms(t),
        min_idle_sessions: m,
    };
    let tls = anytls_rs::util::tls::create_client_config().unwrap();
    let connector = Arc::new(tokio_rustls::TlsConnector::from(tls));
    let name = tokio_rustls::rustls::pki_types::ServerName::try_from("localhost".to_string()).unwrap();
    Arc::new(Client::with_pool_config(
        PASSWORD,
        "127.0.0.1:1".to_string(),
        name,
        connector,
        PaddingFactory::default(),
        cfg,
    ))
}

type ReqResult = anytls_rs::util::Result<(Arc<Stream>, Arc<Session>)>;

struct PoolRun {
    client: Arc<Client>,
    pool: Arc<SessionPool>,
    sessions: Vec<Arc<Session>>,
    streams: Vec<(usize, Arc<Stream>)>,
    waiting: VecDeque<tokio::task::JoinHandle<ReqResult>>,
    /// connector invocation (= in-process server) behind each client session
    srv_of: Vec<usize>,
}

impl PoolRun {
    fn index_of(&mut self, s: &Arc<Session>) -> (usize, bool) {
        for (k, x) in self.sessions.iter().enumerate() {
            if x.id() == s.id() {
                return (k, false);
            }
        }
        self.sessions.push(s.clone());
        (self.sessions.len() - 1, true)
    }

    fn take(&mut self, r: Result<ReqResult, tokio::task::JoinError>, srv: usize) -> String {
        match r {
            Ok(Ok((stream, session))) => {
                let (k, new) = self.index_of(&session);
                if new {
                    self.srv_of.push(srv);
                }
                self.streams.push((k, stream));
                format!("{}{}", if new { "n" } else { "u" }, k)
            }
            Ok(Err(_)) => "err".to_string(),
            Err(_) => "panic".to_string(),
        }
    }

    async fn snapshot(&self) -> String {
        let mut s = format!("i{}", self.pool.idle_count().await);
        for x in &self.sessions {
            let (a, _b) = x.verif_table_sizes().await;
            s.push_str(&format!(",{}{}", if x.is_closed() { "C" } else { "L" }, a));
        }
        s
    }
}

fn parse_op(tok: &str) -> (u64, char, u64) {
    let (t, rest) = tok.split_once(':').expect("op token t:op");
    let t: u64 = t.parse().unwrap();
    let c = rest.chars().next().unwrap();
    let n: u64 = if rest.len() > 1 { rest[1..].parse().unwrap() } else { 0 };
    (t, c, n)
}

/// pool <I> <T> <M> <t:op>...
///   r   sequential request (the dial, if any, completes at once)       -> n<k> (new session k) | u<k> (reused)
///   a   request whose dial, if any, waits at a gate                    -> u<k> | p (waiting in create_new_session)
///   c   the oldest waiting dial completes                               -> n<k>
///   d<k> one stream of session k is finished by the application
///   x<k> session k dies (the server side goes away)
///   t   a reaper tick is due at this instant (nothing to do here: the reaper runs by itself)
/// after every op: i<idle_count>,{L|C}<stream table entries> per session in creation order
fn pool(args: &[&str]) -> String {
    let i: u64 = args[0].parse().unwrap();
    let t: u64 = args[1].parse().unwrap();
    let m: usize = args[2].parse().unwrap();
    let ops: Vec<(u64, char, u64)> = args[3..].iter().map(|a| parse_op(a)).collect();
    let rt = paused_rt();
    rt.block_on(async move {
        let start = Instant::now();
        let shared = Arc::new(Mutex::new(Shared::default()));
        let client = new_client(i, t, m);
        client.verif_set_connector(Some(make_connector(shared.clone())));
        let mut run = PoolRun {
            pool: client.verif_session_pool(),
            client,
            sessions: Vec::new(),
            streams: Vec::new(),
            waiting: VecDeque::new(),
            srv_of: Vec::new(),
        };
        let mut out = Vec::new();
        for (at, op, n) in ops {
            tokio::time::sleep_until(start + ms(at)).await;
            let res = match op {
                'r' | 'a' => {
                    let srv = {
                        let mut sh = shared.lock().unwrap();
                        sh.gated = op == 'a';
                        sh.dials
                    };
                    let c = run.client.clone();
                    let h = tokio::spawn(async move {
                        c.create_proxy_stream(("192.0.2.1".to_string(), 80)).await
                    });
                    settle().await;
                    if h.is_finished() {
                        let r = h.await;
                        run.take(r, srv)
                    } else if op == 'a' {
                        run.waiting.push_back(h);
                        "p".to_string()
                    } else {
                        h.abort();
                        "stuck".to_string()
                    }
                }
                'c' => {
                    let g = shared.lock().unwrap().gates.pop_front();
                    match (g, run.waiting.pop_front()) {
                        (Some((srv, g)), Some(h)) => {
                            let _ = g.send(());
                            settle().await;
                            if h.is_finished() {
                                let r = h.await;
                                run.take(r, srv)
                            } else {
                                h.abort();
                                "stuck".to_string()
                            }
                        }
                        _ => {
                            settle().await;
                            "-".to_string()
                        }
                    }
                }
                'd' => {
                    if let Some(p) = run.streams.iter().position(|(k, _)| *k == n as usize) {
                        run.streams.remove(p);
                    }
                    settle().await;
                    "-".to_string()
                }
                'D' => {
                    // the application finishes every stream it has open, whichever session carries it
                    run.streams.clear();
                    settle().await;
                    "-".to_string()
                }
                'x' => {
                    let s = match run.srv_of.get(n as usize) {
                        Some(k) => shared.lock().unwrap().servers.get(*k).cloned().flatten(),
                        None => None,
                    };
                    if let Some(s) = s {
                        let _ = s.close().await;
                    }
                    settle().await;
                    "-".to_string()
                }
                _ => {
                    settle().await;
                    "-".to_string()
                }
            };
            let snap = run.snapshot().await;
            out.push(format!("{}/{}", res, snap));
        }
        let dials = shared.lock().unwrap().dials;
        out.push(format!("dials={}", dials));
        out.join(" ")
    })
}

/// bpool <I> <T> <M> <t:op>...  (bare SessionPool API)
///   n<seq> a new session object with this seq      i<k> add_idle_session(session k)
///   g      get_idle_session -> s<k> | none         x<k> session k is closed
///   e      cleanup_expired() is called             t    a reaper tick is due at this instant
fn bpool(args: &[&str]) -> String {
    let i: u64 = args[0].parse().unwrap();
    let t: u64 = args[1].parse().unwrap();
    let m: usize = args[2].parse().unwrap();
    let ops: Vec<(u64, char, u64)> = args[3..].iter().map(|a| parse_op(a)).collect();
    let rt = paused_rt();
    rt.block_on(async move {
        let start = Instant::now();
        let pool = Arc::new(SessionPool::with_config(SessionPoolConfig {
            check_interval: ms(i),
            idle_timeout: ms(t),
            min_idle_sessions: m,
        }));
        let mut sessions: Vec<Arc<Session>> = Vec::new();
        let mut out = Vec::new();
        for (at, op, n) in ops {
            tokio::time::sleep_until(start + ms(at)).await;
            let mut res = "-".to_string();
            match op {
                'N' => {
                    // a session whose transport shutdown never completes: Session::close waits its 1 s timeout
                    let (r, _tx2) = ChanReader::new();
                    std::mem::forget(_tx2);
                    let s = Arc::new(Session::new_client(r, StallWriter, PaddingFactory::default(), None));
                    s.set_seq(n);
                    sessions.push(s);
                }
                'G' | 'E' => {
                    // a reaper pass starts at this instant (G: the periodic task fires by itself; E: cleanup_expired()
                    // is called from a task); n ms into the pass a request asks the pool for a session
                    let pass = if op == 'E' {
                        let p2 = pool.clone();
                        Some(tokio::spawn(async move { p2.cleanup_expired().await }))
                    } else {
                        None
                    };
                    tokio::time::sleep(ms(n)).await;
                    res = match tokio::time::timeout(ms(20000), pool.get_idle_session()).await {
                        Ok(Some(s)) => match sessions.iter().position(|x| x.id() == s.id()) {
                            Some(k) => {
                                // what a request does next: open a stream on it
                                let _ = s.open_stream().await;
                                format!("s{}", k)
                            }
                            None => "unknown".to_string(),
                        },
                        Ok(None) => "none".to_string(),
                        Err(_) => "get-stuck".to_string(),
                    };
                    if let Some(p) = pass {
                        let _ = p.await;
                    }
                    tokio::time::sleep(ms(4000)).await;
                }
                'n' => {
                    let (w, _h, _r, _tx) = transport::pipe();
                    let (r, _tx2) = ChanReader::new();
                    std::mem::forget(_tx2);
                    let s = Arc::new(Session::new_client(r, w, PaddingFactory::default(), None));
                    s.set_seq(n);
                    sessions.push(s);
                }
                'i' => {
                    if let Some(s) = sessions.get(n as usize) {
                        pool.add_idle_session(s.clone()).await;
                    }
                }
                'g' => {
                    res = match pool.get_idle_session().await {
                        Some(s) => match sessions.iter().position(|x| x.id() == s.id()) {
                            Some(k) => format!("s{}", k),
                            None => "unknown".to_string(),
                        },
                        None => "none".to_string(),
                    };
                }
                'x' => {
                    if let Some(s) = sessions.get(n as usize) {
                        let _ = s.close().await;
                    }
                }
                'e' => {
                    pool.cleanup_expired().await;
                }
                _ => {}
            }
            settle().await;
            let mut snap = format!("i{}", pool.idle_count().await);
            for x in &sessions {
                snap.push_str(if x.is_closed() { ",C" } else { ",L" });
            }
            out.push(format!("{}/{}", res, snap));
        }
        out.join(" ")
    })
}

// ------------------------------------------------------------------------------------------------
// C14: scripted peer

struct PeerLog {
    requests: Vec<u64>,
    closed_at: Option<u64>,
}

/// reads the client's bytes, answers Syn with SynAck at once and the k-th HeartRequest after
/// `script[k]` ms (None / beyond the script: never)
async fn scripted_peer(
    r: BoxR,
    w: RecWriter,
    preamble: bool,
    script: Vec<Option<u64>>,
    start: Instant,
    log: Arc<Mutex<PeerLog>>,
) {
    scripted_peer_opt(r, w, preamble, script, start, log, false, None).await
}

/// `vanish`: once the script is exhausted the peer stops reading for ever without closing anything (a host that
/// disappeared: the client's bounded transport fills up and its writes stay pending)
async fn scripted_peer_opt(
    mut r: BoxR,
    w: RecWriter,
    preamble: bool,
    script: Vec<Option<u64>>,
    start: Instant,
    log: Arc<Mutex<PeerLog>>,
    vanish: bool,
    chatty: Option<u64>,
) {
    let w = Arc::new(tokio::sync::Mutex::new(w));
    if let Some(every) = chatty {
        // a peer with traffic of its own: it sends a keep-alive REQUEST (and a padding frame) every `every` ms,
        // whether or not it answers the client's requests. Requests are not answers.
        let w3 = w.clone();
        tokio::spawn(async move {
            loop {
                tokio::time::sleep(ms(every)).await;
                let mut out = BytesMut::new();
                let _ = FrameCodec.encode(Frame::control(Command::HeartRequest, 0), &mut out);
                let _ = FrameCodec.encode(Frame::with_data(Command::Waste, 0, bytes::Bytes::from_static(b"\0\0\0")), &mut out);
                let mut g = w3.lock().await;
                if g.write_all(&out).await.is_err() {
                    break;
                }
                let _ = g.flush().await;
            }
        });
    }
    let mut buf = BytesMut::new();
    let mut codec = FrameCodec;
    let mut need_preamble = preamble;
    let mut k = 0usize;
    loop {
        if vanish && k >= script.len() {
            std::future::pending::<()>().await;
        }
        let n = match r.read_buf(&mut buf).await {
            Ok(n) => n,
            Err(_) => 0,
        };
        if n == 0 {
            let mut l = log.lock().unwrap();
            if l.closed_at.is_none() {
                l.closed_at = Some(start.elapsed().as_millis() as u64);
            }
            return;
        }
        if need_preamble {
            if buf.len() < 34 {
                continue;
            }
            let pl = u16::from_be_bytes([buf[32], buf[33]]) as usize;
            if buf.len() < 34 + pl {
                continue;
            }
            let _ = buf.split_to(34 + pl);
            need_preamble = false;
        }
        while let Ok(Some(f)) = codec.decode(&mut buf) {
            match f.cmd {
                Command::Syn => {
                    let mut out = BytesMut::new();
                    let _ = FrameCodec.encode(Frame::control(Command::SynAck, f.stream_id), &mut out);
                    let mut g = w.lock().await;
                    let _ = g.write_all(&out).await;
                    let _ = g.flush().await;
                }
                Command::HeartRequest => {
                    log.lock()
                        .unwrap()
                        .requests
                        .push(start.elapsed().as_millis() as u64);
                    let d = script.get(k).cloned().flatten();
                    k += 1;
                    if let Some(d) = d {
                        let w2 = w.clone();
                        let sid = f.stream_id;
                        tokio::spawn(async move {
                            if d > 0 {
                                tokio::time::sleep(ms(d)).await;
                            }
                            let mut out = BytesMut::new();
                            let _ = FrameCodec.encode(Frame::control(Command::HeartResponse, sid), &mut out);
                            let mut g = w2.lock().await;
                            let _ = g.write_all(&out).await;
                            let _ = g.flush().await;
                        });
                    }
                }
                _ => {}
            }
        }
    }
}

/// the client -> peer direction: unbounded recording pipe, or a bounded in-memory pipe of `cap` bytes
fn c2s_transport(cap: Option<usize>) -> (BoxW, BoxR) {
    match cap {
        None => {
            let (w, _h, r, _tx) = transport::pipe();
            (Box::new(w) as BoxW, Box::new(r) as BoxR)
        }
        Some(n) => {
            let (a, b) = tokio::io::duplex(n.max(1));
            (Box::new(a) as BoxW, Box::new(b) as BoxR)
        }
    }
}

/// hb <mode> <I> <T> <H> <delay|x>...
///   mode s: bare client `Session` with heartbeat (I, T);  c: through `Client` (pool config (I, T)), one stream open;
///        ct: as c, with stream traffic every 700 ms
///   the k-th keep-alive request is answered after delay ms (x: never); requests beyond the script are not answered
/// result: q <request times> | c <close time> or o (still open at H)
fn hb(args: &[&str]) -> String {
    // mode = s | c | ct, optionally followed by the capacity in bytes of the client -> peer transport
    // (e.g. s64, c256): a bounded pipe, so that a padded packet is still being written while the peer
    // already reads and answers its first bytes; without digits the transport is unbounded
    // a leading q: the peer also sends keep-alive requests of its own every 777 ms ("chatty" peer)
    let chatty: Option<u64> = if args[0].starts_with('q') { Some(777) } else { None };
    let mode_tok = args[0].trim_start_matches('q').to_string();
    let split = mode_tok.find(|c: char| c.is_ascii_digit()).unwrap_or(mode_tok.len());
    let mode = mode_tok[..split].to_string();
    let cap: Option<usize> = if split < mode_tok.len() { mode_tok[split..].parse().ok() } else { None };
    let i: u64 = args[1].parse().unwrap();
    let t: u64 = args[2].parse().unwrap();
    let h: u64 = args[3].parse().unwrap();
    let script: Vec<Option<u64>> = args[4..]
        .iter()
        .map(|a| if *a == "x" { None } else { Some(a.parse().unwrap()) })
        .collect();
    let rt = paused_rt();
    rt.block_on(async move {
        let start = Instant::now();
        let log = Arc::new(Mutex::new(PeerLog {
            requests: Vec::new(),
            closed_at: None,
        }));
        let session: Arc<Session>;
        let mut _keep: Vec<Arc<Stream>> = Vec::new();
        let mut _client: Option<Arc<Client>> = None;
        if mode == "s" || mode == "z" {
            let (c2s_w, c2s_r) = c2s_transport(cap);
            let (s2c_w, _h2, s2c_r, _tx2) = transport::pipe();
            tokio::spawn(scripted_peer_opt(c2s_r, s2c_w, false, script, start, log.clone(), mode == "z", chatty));
            let s = Arc::new(Session::new_client(
                s2c_r,
                c2s_w,
                PaddingFactory::default(),
                Some(SessionHeartbeatConfig {
                    interval: ms(i),
                    timeout: ms(t),
                }),
            ));
            if s.clone().start_client().await.is_err() {
                return "start-failed".to_string();
            }
            s.disable_buffering();
            session = s;
        } else {
            let client = new_client(i, t, 1000);
            let slot: Arc<Mutex<Option<(Vec<Option<u64>>, Arc<Mutex<PeerLog>>)>>> =
                Arc::new(Mutex::new(Some((script, log.clone()))));
            client.verif_set_connector(Some(Arc::new(move || {
                let (c2s_w, c2s_r) = c2s_transport(cap);
                let (s2c_w, _h2, s2c_r, _tx2) = transport::pipe();
                if let Some((script, log)) = slot.lock().unwrap().take() {
                    tokio::spawn(scripted_peer_opt(c2s_r, s2c_w, true, script, start, log, false, chatty));
                }
                (Box::new(s2c_r) as BoxR, c2s_w)
            })));
            match client.create_proxy_stream(("192.0.2.1".to_string(), 80)).await {
                Ok((st, s)) => {
                    _keep.push(st.clone());
                    if mode == "ct" {
                        let s2 = s.clone();
                        let sid = st.id();
                        tokio::spawn(async move {
                            loop {
                                tokio::time::sleep(ms(700)).await;
                                if s2
                                    .write_data_frame(sid, bytes::Bytes::from_static(b"traffic"))
                                    .await
                                    .is_err()
                                {
                                    break;
                                }
                            }
                        });
                    }
                    session = s;
                }
                Err(_) => return "open-failed".to_string(),
            }
            _client = Some(client);
        }
        tokio::time::sleep_until(start + ms(h)).await;
        settle().await;
        let l = log.lock().unwrap();
        let mut out = String::from("q");
        for r in &l.requests {
            out.push_str(&format!(" {}", r));
        }
        match l.closed_at {
            Some(c) => {
                out.push_str(&format!(" | c {}", c));
                if !session.is_closed() {
                    out.push_str(" flag-not-set");
                }
            }
            None => {
                out.push_str(" | o");
                if session.is_closed() {
                    out.push_str(" flag-set");
                }
            }
        }
        out
    })
}


// ------------------------------------------------------------------------------------------------
// real sockets, real time: real `Server` + real `Client` over loopback TLS; a counting TCP forwarder
// in front of the server counts the connections the client dials

fn free_port() -> u16 {
    let l = std::net::TcpListener::bind("127.0.0.1:0").unwrap();
    l.local_addr().unwrap().port()
}

/// poolreal <I> <T> <M> <t:op>...   ops: r, d<k>, t (as in `pool`); times are real milliseconds
fn poolreal(args: &[&str]) -> String {
    let i: u64 = args[0].parse().unwrap();
    let t: u64 = args[1].parse().unwrap();
    let m: usize = args[2].parse().unwrap();
    let ops: Vec<(u64, char, u64)> = args[3..].iter().map(|a| parse_op(a)).collect();
    let rt = tokio::runtime::Builder::new_multi_thread()
        .worker_threads(2)
        .enable_all()
        .build()
        .unwrap();
    rt.block_on(async move {
        // upstream echo server
        let echo = tokio::net::TcpListener::bind("127.0.0.1:0").await.unwrap();
        let echo_addr = echo.local_addr().unwrap();
        tokio::spawn(async move {
            loop {
                if let Ok((mut s, _)) = echo.accept().await {
                    tokio::spawn(async move {
                        let mut buf = [0u8; 1024];
                        loop {
                            match s.read(&mut buf).await {
                                Ok(0) | Err(_) => break,
                                Ok(n) => {
                                    if s.write_all(&buf[..n]).await.is_err() {
                                        break;
                                    }
                                }
                            }
                        }
                    });
                }
            }
        });
        // the real server (the port is picked by bind-and-release, so retry if somebody else grabbed it)
        let mut saddr = String::new();
        for _attempt in 0..5 {
            let sport = free_port();
            let cand = format!("127.0.0.1:{}", sport);
            let scfg = anytls_rs::util::tls::create_server_config().unwrap();
            let acceptor = Arc::new(tokio_rustls::TlsAcceptor::from(scfg));
            let server = Arc::new(anytls_rs::server::Server::new(
                PASSWORD,
                acceptor,
                PaddingFactory::default(),
                None,
            ));
            let cand2 = cand.clone();
            let h = tokio::spawn(async move {
                let _ = server.listen(&cand2).await;
            });
            let mut up = false;
            for _ in 0..100 {
                if h.is_finished() {
                    break;
                }
                if tokio::net::TcpStream::connect(&cand).await.is_ok() {
                    up = true;
                    break;
                }
                tokio::time::sleep(ms(10)).await;
            }
            if up {
                saddr = cand;
                break;
            }
            h.abort();
        }
        if saddr.is_empty() {
            return "no-server".to_string();
        }
        // counting forwarder
        let fwd = tokio::net::TcpListener::bind("127.0.0.1:0").await.unwrap();
        let faddr = fwd.local_addr().unwrap();
        let accepts = Arc::new(AtomicUsize::new(0));
        let acc2 = accepts.clone();
        let saddr3 = saddr.clone();
        tokio::spawn(async move {
            loop {
                if let Ok((mut c, _)) = fwd.accept().await {
                    acc2.fetch_add(1, Ordering::SeqCst);
                    let target = saddr3.clone();
                    tokio::spawn(async move {
                        if let Ok(mut s) = tokio::net::TcpStream::connect(&target).await {
                            let _ = tokio::io::copy_bidirectional(&mut c, &mut s).await;
                        }
                    });
                }
            }
        });
        let tls = anytls_rs::util::tls::create_client_config().unwrap();
        let connector = Arc::new(tokio_rustls::TlsConnector::from(tls));
        let name = tokio_rustls::rustls::pki_types::ServerName::IpAddress(
            std::net::IpAddr::from([127, 0, 0, 1]).into(),
        );
        let start = Instant::now();
        let client = Arc::new(Client::with_pool_config(
            PASSWORD,
            format!("{}", faddr),
            name,
            connector,
            PaddingFactory::default(),
            SessionPoolConfig {
                check_interval: ms(i),
                idle_timeout: ms(t),
                min_idle_sessions: m,
            },
        ));
        let mut run = PoolRun {
            pool: client.verif_session_pool(),
            client,
            sessions: Vec::new(),
            streams: Vec::new(),
            waiting: VecDeque::new(),
            srv_of: Vec::new(),
        };
        let mut out = Vec::new();
        for (at, op, n) in ops {
            tokio::time::sleep_until(start + ms(at)).await;
            let res = match op {
                'r' => {
                    let r = tokio::time::timeout(
                        ms(5000),
                        run.client
                            .create_proxy_stream((echo_addr.ip().to_string(), echo_addr.port())),
                    )
                    .await;
                    match r {
                        Ok(r) => run.take(Ok(r), 0),
                        Err(_) => "stuck".to_string(),
                    }
                }
                'q' => {
                    // a request whose TARGET refuses the connection (a closed loopback port): the open fails at the stream
                    // level (SYNACK with an error), the session itself is healthy
                    let closed_port = {
                        let l = std::net::TcpListener::bind("127.0.0.1:0").unwrap();
                        l.local_addr().unwrap().port()
                    };
                    let r = tokio::time::timeout(
                        ms(8000),
                        run.client.create_proxy_stream(("127.0.0.1".to_string(), closed_port)),
                    )
                    .await;
                    match r {
                        Ok(Ok(_)) => "opened".to_string(),
                        Ok(Err(_)) => "refused".to_string(),
                        Err(_) => "stuck".to_string(),
                    }
                }
                'Q' => {
                    // a request that fails LOCALLY, after it has its session and stream and before it has written anything:
                    // a destination host name that does not fit the one-byte length of the address encoding
                    let r = tokio::time::timeout(ms(8000), run.client.create_proxy_stream(("h".repeat(300), 80))).await;
                    match r {
                        Ok(Ok(_)) => "opened".to_string(),
                        Ok(Err(_)) => "refused".to_string(),
                        Err(_) => "stuck".to_string(),
                    }
                }
                'b' => {
                    // n requests at once (they overlap: each is inside its TLS dial while the others start)
                    let mut hs = Vec::new();
                    for _ in 0..n {
                        let c = run.client.clone();
                        let dest = (echo_addr.ip().to_string(), echo_addr.port());
                        hs.push(tokio::spawn(async move {
                            tokio::time::timeout(ms(5000), c.create_proxy_stream(dest)).await
                        }));
                    }
                    let mut got = Vec::new();
                    let mut toks = Vec::new();
                    for h in hs {
                        match h.await {
                            Ok(Ok(Ok(x))) => got.push(x),
                            Ok(Ok(Err(_))) => toks.push("err".to_string()),
                            _ => toks.push("stuck".to_string()),
                        }
                    }
                    // sessions are numbered in creation order = order of their pool keys
                    got.sort_by_key(|(_, s)| s.seq());
                    for x in got {
                        toks.push(run.take(Ok(Ok(x)), 0));
                    }
                    toks.sort();
                    toks.join("+")
                }
                'd' => {
                    if let Some(p) = run.streams.iter().position(|(k, _)| *k == n as usize) {
                        run.streams.remove(p);
                    }
                    "-".to_string()
                }
                'D' => {
                    run.streams.clear();
                    "-".to_string()
                }
                _ => "-".to_string(),
            };
            tokio::time::sleep(ms(if op == 't' { 200 } else { 30 })).await;
            let snap = run.snapshot().await;
            out.push(format!("{}/{}", res, snap));
        }
        // the server's own accept of the readiness probe does not pass through the forwarder
        out.push(format!("dials={}", accepts.load(Ordering::SeqCst)));
        run.client.stop_session_pool_cleanup().await;
        out.join(" ")
    })
}

pub fn dispatch(drv: &str, args: &[&str]) -> Option<String> {
    match drv {
        "pool" => Some(pool(args)),
        "bpool" => Some(bpool(args)),
        "hb" => Some(hb(args)),
        "poolreal" => Some(poolreal(args)),
        _ => None,
    }
}
