//! anytls-verif: thin executor of the *implementation* for the correspondence check.
//! Reads one case per line on stdin (`<driver> <caseid> <token>...`), runs the real
//! anytls-rs code on it and prints `<caseid> <canonical result tokens>`.
//! Generators, oracles and the model side live in /verif/check (Python) and /verif/extract (OCaml).
use std::io::{BufRead, Write};
use std::panic::{AssertUnwindSafe, catch_unwind};

mod drv_codec;
mod drv_conc;
mod drv_hostile;
mod drv_http;
mod drv_misc;
mod drv_padding;
mod drv_parsers;
mod drv_session;
mod drv_timed;
mod transport;
mod util;

fn dispatch(drv: &str, args: &[&str]) -> String {
    let packages: [fn(&str, &[&str]) -> Option<String>; 9] = [
        drv_hostile::dispatch,
        drv_codec::dispatch,
        drv_padding::dispatch,
        drv_parsers::dispatch,
        drv_http::dispatch,
        drv_timed::dispatch,
        drv_session::dispatch,
        drv_conc::dispatch,
        drv_misc::dispatch,
    ];
    for p in packages {
        if let Some(s) = p(drv, args) {
            return s;
        }
    }
    format!("UNKNOWN-DRIVER {}", drv)
}

fn main() {
    // panics are counted (any task, any thread) and otherwise silent; the per-case catch_unwind reports its own
    std::panic::set_hook(Box::new(|_| {
        drv_hostile::PANICS.fetch_add(1, std::sync::atomic::Ordering::SeqCst);
    }));
    let stdin = std::io::stdin();
    let stdout = std::io::stdout();
    let mut out = std::io::BufWriter::new(stdout.lock());
    for line in stdin.lock().lines() {
        let line = match line {
            Ok(l) => l,
            Err(_) => break,
        };
        let toks: Vec<&str> = line.split(' ').filter(|t| !t.is_empty()).collect();
        if toks.len() < 2 {
            continue;
        }
        let drv = toks[0];
        let id = toks[1];
        let args = &toks[2..];
        let res = catch_unwind(AssertUnwindSafe(|| dispatch(drv, args)));
        let res = match res {
            Ok(s) => s,
            Err(e) => {
                let msg = if let Some(s) = e.downcast_ref::<String>() {
                    s.clone()
                } else if let Some(s) = e.downcast_ref::<&str>() {
                    s.to_string()
                } else {
                    "?".to_string()
                };
                format!("PANIC {}", msg.replace(' ', "_").replace('\n', "_"))
            }
        };
        let _ = writeln!(out, "{} {}", id, res.trim());
    }
    let _ = out.flush();
}
