//! Harness-owned in-memory transports.
//! `RecWriter`  : AsyncWrite that records every poll_write slice, flush and shutdown, can inject a
//!                write failure at a byte offset, limit the bytes accepted per poll_write
//!                (back-pressure pattern), and forward the bytes to a `ChanReader`.
//! `ChanReader` : AsyncRead fed by an unbounded channel of scripted events (data chunks delivered in the
//!                scripted fragmentation, clean EOF, or an error).
#![allow(dead_code)]
use std::pin::Pin;
use std::sync::{Arc, Mutex};
use std::task::{Context, Poll};
use tokio::io::{AsyncRead, AsyncWrite, ReadBuf};
use tokio::sync::mpsc;

#[derive(Debug, Clone, PartialEq)]
pub enum WEv {
    Write(Vec<u8>),
    Flush,
    Shutdown,
    Failed,
}

#[derive(Debug)]
pub enum REv {
    Data(Vec<u8>),
    Eof,
    Err(std::io::ErrorKind, &'static str),
}

#[derive(Default)]
pub struct WState {
    pub log: Vec<WEv>,
    pub total: usize,
    /// fail every write once `total` would exceed this many bytes (bytes before the offset are accepted)
    pub fail_at: Option<usize>,
    /// accept at most this many bytes per poll_write
    pub max_per_write: Option<usize>,
    /// the peer stops reading: once `total` has reached this many bytes every poll_write (and poll_flush /
    /// poll_shutdown) stays Pending for ever (a full pipe that nobody drains; no error, no wake-up)
    pub stall_at: Option<usize>,
    /// the writer that found the pipe full (woken when the stall is lifted: the peer reads again)
    pub stall_waker: Option<std::task::Waker>,
    pub shutdown: bool,
    /// the error kind of injected write / flush failures (default BrokenPipe)
    pub fail_kind: Option<std::io::ErrorKind>,
}

#[derive(Clone)]
pub struct WHandle(pub Arc<Mutex<WState>>);

impl WHandle {
    pub fn log(&self) -> Vec<WEv> {
        self.0.lock().unwrap().log.clone()
    }
    pub fn take_log(&self) -> Vec<WEv> {
        std::mem::take(&mut self.0.lock().unwrap().log)
    }
    pub fn bytes(&self) -> Vec<u8> {
        let mut v = Vec::new();
        for e in self.0.lock().unwrap().log.iter() {
            if let WEv::Write(b) = e {
                v.extend_from_slice(b);
            }
        }
        v
    }
    pub fn set_fail_at(&self, off: Option<usize>) {
        self.0.lock().unwrap().fail_at = off;
    }
    pub fn set_fail_kind(&self, k: std::io::ErrorKind) {
        self.0.lock().unwrap().fail_kind = Some(k);
    }
    pub fn set_stall_at(&self, off: Option<usize>) {
        let w = {
            let mut st = self.0.lock().unwrap();
            st.stall_at = off;
            if off.is_none() { st.stall_waker.take() } else { None }
        };
        if let Some(w) = w {
            w.wake();
        }
    }
    pub fn set_max_per_write(&self, k: Option<usize>) {
        self.0.lock().unwrap().max_per_write = k;
    }
    pub fn is_shutdown(&self) -> bool {
        self.0.lock().unwrap().shutdown
    }
    pub fn total(&self) -> usize {
        self.0.lock().unwrap().total
    }
}

pub struct RecWriter {
    st: Arc<Mutex<WState>>,
    forward: Option<mpsc::UnboundedSender<REv>>,
}

impl RecWriter {
    pub fn new(forward: Option<mpsc::UnboundedSender<REv>>) -> (Self, WHandle) {
        let st = Arc::new(Mutex::new(WState::default()));
        (
            RecWriter {
                st: st.clone(),
                forward,
            },
            WHandle(st),
        )
    }
}

impl AsyncWrite for RecWriter {
    fn poll_write(
        self: Pin<&mut Self>,
        _cx: &mut Context<'_>,
        buf: &[u8],
    ) -> Poll<std::io::Result<usize>> {
        let mut st = self.st.lock().unwrap();
        if st.shutdown {
            return Poll::Ready(Err(std::io::Error::new(
                std::io::ErrorKind::BrokenPipe,
                "write after shutdown",
            )));
        }
        let mut n = buf.len();
        if let Some(k) = st.max_per_write {
            n = n.min(k.max(1));
        }
        if let Some(off) = st.stall_at {
            if st.total >= off {
                st.stall_waker = Some(_cx.waker().clone());
                return Poll::Pending;
            }
            n = n.min(off - st.total);
        }
        if let Some(off) = st.fail_at {
            if st.total >= off {
                st.log.push(WEv::Failed);
                let kind = st.fail_kind.unwrap_or(std::io::ErrorKind::BrokenPipe);
                return Poll::Ready(Err(std::io::Error::new(kind, "injected write failure")));
            }
            n = n.min(off - st.total);
        }
        st.total += n;
        st.log.push(WEv::Write(buf[..n].to_vec()));
        if let Some(f) = &self.forward {
            let _ = f.send(REv::Data(buf[..n].to_vec()));
        }
        Poll::Ready(Ok(n))
    }

    fn poll_flush(self: Pin<&mut Self>, _cx: &mut Context<'_>) -> Poll<std::io::Result<()>> {
        let mut st = self.st.lock().unwrap();
        if let Some(off) = st.fail_at {
            if st.total >= off {
                st.log.push(WEv::Failed);
                let kind = st.fail_kind.unwrap_or(std::io::ErrorKind::BrokenPipe);
                return Poll::Ready(Err(std::io::Error::new(kind, "injected flush failure")));
            }
        }
        st.log.push(WEv::Flush);
        Poll::Ready(Ok(()))
    }

    fn poll_shutdown(self: Pin<&mut Self>, _cx: &mut Context<'_>) -> Poll<std::io::Result<()>> {
        let mut st = self.st.lock().unwrap();
        if let Some(off) = st.stall_at {
            if st.total >= off {
                return Poll::Pending;
            }
        }
        st.shutdown = true;
        st.log.push(WEv::Shutdown);
        if let Some(f) = &self.forward {
            let _ = f.send(REv::Eof);
        }
        Poll::Ready(Ok(()))
    }
}

pub struct ChanReader {
    rx: mpsc::UnboundedReceiver<REv>,
    pending: Vec<u8>,
    eof: bool,
}

impl ChanReader {
    pub fn new() -> (Self, mpsc::UnboundedSender<REv>) {
        let (tx, rx) = mpsc::unbounded_channel();
        (
            ChanReader {
                rx,
                pending: Vec::new(),
                eof: false,
            },
            tx,
        )
    }
}

impl AsyncRead for ChanReader {
    fn poll_read(
        mut self: Pin<&mut Self>,
        cx: &mut Context<'_>,
        buf: &mut ReadBuf<'_>,
    ) -> Poll<std::io::Result<()>> {
        if self.pending.is_empty() {
            if self.eof {
                return Poll::Ready(Ok(()));
            }
            loop {
                match self.rx.poll_recv(cx) {
                    Poll::Pending => return Poll::Pending,
                    // all senders dropped: behave like a peer that went away cleanly
                    Poll::Ready(None) | Poll::Ready(Some(REv::Eof)) => {
                        self.eof = true;
                        return Poll::Ready(Ok(()));
                    }
                    Poll::Ready(Some(REv::Err(kind, msg))) => {
                        return Poll::Ready(Err(std::io::Error::new(kind, msg)));
                    }
                    Poll::Ready(Some(REv::Data(d))) => {
                        if d.is_empty() {
                            continue; // an empty chunk is not a read event
                        }
                        self.pending = d;
                        break;
                    }
                }
            }
        }
        let n = self.pending.len().min(buf.remaining());
        buf.put_slice(&self.pending[..n]);
        self.pending.drain(..n);
        Poll::Ready(Ok(()))
    }
}

/// a writer/reader pair wired together: what is written on the returned writer is read from the returned reader
pub fn pipe() -> (RecWriter, WHandle, ChanReader, mpsc::UnboundedSender<REv>) {
    let (r, tx) = ChanReader::new();
    let (w, h) = RecWriter::new(Some(tx.clone()));
    (w, h, r, tx)
}

/// bursts = the Write events between consecutive Flush events (one `write_frame` call = one burst)
pub fn bursts(log: &[WEv]) -> Vec<Vec<Vec<u8>>> {
    let mut out = Vec::new();
    let mut cur: Vec<Vec<u8>> = Vec::new();
    for e in log {
        match e {
            WEv::Write(b) => cur.push(b.clone()),
            WEv::Flush => {
                out.push(std::mem::take(&mut cur));
            }
            _ => {}
        }
    }
    if !cur.is_empty() {
        out.push(cur);
    }
    out
}
