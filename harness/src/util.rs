pub fn unhex(s: &str) -> Vec<u8> {
    if s == "-" {
        return Vec::new();
    }
    let b = s.as_bytes();
    let v = |c: u8| -> u8 {
        match c {
            b'0'..=b'9' => c - b'0',
            b'a'..=b'f' => c - b'a' + 10,
            b'A'..=b'F' => c - b'A' + 10,
            _ => panic!("bad hex"),
        }
    };
    (0..b.len() / 2).map(|i| v(b[2 * i]) * 16 + v(b[2 * i + 1])).collect()
}

pub fn hex(b: &[u8]) -> String {
    if b.is_empty() {
        return "-".to_string();
    }
    let mut s = String::with_capacity(b.len() * 2);
    for x in b {
        s.push_str(&format!("{:02x}", x));
    }
    s
}
