#!/usr/bin/env python3
"""tools/benigntest.py <patch-dir> <benign-id> [<Cxx> ...]
False-alarm test: applies a BEHAVIOUR-PRESERVING patch (patch.diff + meta.json produced by an independent
sub-agent that saw nothing of /verif) to a scratch worktree of /repo, confirms that the existing suite still
passes, runs the named checks (default: all 20) against it in isolated mode (VERIF_REPO) and files the patch
with what each check said under /verif/benign/<benign-id>/. Nothing is ever applied to /repo.
A check that reports a concrete failing input on such a patch is a false alarm of the machinery; a check that
reports a broken tie (no-failing-input-found) is the allowed "harmless rewrite broke the tie" outcome, and is
listed so that the translator can be made more tolerant where that is cheap."""
import hashlib, json, os, re, shutil, subprocess, sys, time

V = os.path.dirname(os.path.dirname(os.path.abspath(__file__)))
src, bid = sys.argv[1], sys.argv[2]
props = sys.argv[3:] or ["C%02d" % i for i in range(1, 21)]
work = "/tmp/benigntest-" + bid
repo = work + "/repo"
target = work + "/target"
env = dict(os.environ, CARGO_NET_OFFLINE="true", CARGO_TARGET_DIR=target)


def sh(cmd, cwd=None, e=None, timeout=5400):
    p = subprocess.run(cmd, shell=True, cwd=cwd, env=e or env, capture_output=True, text=True, timeout=timeout)
    return p.returncode, p.stdout + p.stderr


def suite():
    for attempt in range(2):
        rc, out = sh("cargo test --workspace --no-fail-fast --offline 2>&1 | grep -E '^test result|FAILED|panicked at' ", cwd=repo)
        p = sum(int(m) for m in re.findall(r"(\d+) passed", out))
        f = sum(int(m) for m in re.findall(r"(\d+) failed", out))
        if f == 0 and p == 73:
            break
    return {"what": "existing suite with the patch", "passed": p, "failed": f}


shutil.rmtree(work, ignore_errors=True)
os.makedirs(work)
sh("git -C /repo worktree prune")
rc, out = sh("git -C /repo worktree add --detach %s HEAD" % repo)
assert rc == 0, out
try:
    rc, out = sh("git apply %s" % os.path.join(os.path.abspath(src), "patch.diff"), cwd=repo)
    assert rc == 0, "patch does not apply: " + out
    ran = None
    if os.environ.get("BENIGN_SKIP_SUITE") != "1":
        sh("cp -a /repo/target %s" % target)
        ran = suite()
        shutil.rmtree(target, ignore_errors=True)
    checks = {}
    for p in props:
        t0 = time.time()
        e2 = dict(os.environ, VERIF_REPO=repo)
        rc, out = sh("./check %s --tier quick" % p, cwd=V, e=e2)
        vio = [l for l in out.splitlines() if l.startswith("VIOLATION")]
        detail = [l for l in out.splitlines() if l.startswith("oracle:") or l.startswith("broken:")]
        kind = "ok" if rc == 0 and not vio else ("tie-broken" if vio and vio[0].rstrip().endswith("no-failing-input-found") else "FALSE-ALARM-concrete")
        checks[p] = {"exit": rc, "verdict": kind, "violation_line": vio[0] if vio else None, "detail": detail[:3],
                     "wall_s": round(time.time() - t0, 1)}
        print(p, kind, detail[:1], flush=True)
    dst = os.path.join(V, "benign", bid)
    os.makedirs(dst, exist_ok=True)
    if os.path.realpath(src) != os.path.realpath(dst):
        shutil.copy(os.path.join(src, "patch.diff"), os.path.join(dst, "patch.diff"))
    meta = json.load(open(os.path.join(src, "meta.json"))) if os.path.exists(os.path.join(src, "meta.json")) else {}
    meta.update({"benign_id": bid, "suite": ran,
                 "repo_head": subprocess.check_output(["git", "-C", "/repo", "rev-parse", "--short", "HEAD"], text=True).strip(),
                 "checks": checks,
                 "how_to_rerun": "python3 tools/benigntest.py benign/%s %s" % (bid, bid)})
    json.dump(meta, open(os.path.join(dst, "meta.json"), "w"), indent=1)
    print(json.dumps({"suite": ran, "not_ok": {k: v for k, v in checks.items() if v["verdict"] != "ok"}}, indent=1))
finally:
    sh("git -C /repo worktree remove --force %s" % repo)
    shutil.rmtree(work, ignore_errors=True)
    h = hashlib.sha256(os.path.realpath(repo).encode()).hexdigest()[:8]
    shutil.rmtree(os.path.join(V, ".cache", "alt-" + h), ignore_errors=True)
