#!/bin/bash
# usage: tools/cb.sh Proofs/Foo.vo ...   (wp session helper: regenerate makefile, build targets under the build lock)
cd /verif && flock .cache/build.lock python3 -c "
import sys; sys.path.insert(0,'tools'); import vlib; vlib.coq_makefile()
import subprocess
p=subprocess.run(['make','-f','Makefile.gen','-j16']+sys.argv[1:],cwd='coq',capture_output=True,text=True,timeout=1200)
o=(p.stdout+p.stderr).splitlines()
print('\n'.join([l for l in o if not l.startswith('COQDEP') and 'auto_activate' not in l][-40:]))
" "$@"
