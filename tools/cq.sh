#!/bin/bash
# usage: tools/cq.sh file.v  -- compile a scratch file against the project's .vo (session wp helper)
cd /verif/coq && timeout 300 coqc -noglob -Q Model AnyTLS -Q Gen AnyTLS -Q Proofs AnyTLS -Q Legacy AnyTLS -Q Props AnyTLS "$@" 2>&1 | grep -v auto_activate | tail -60
