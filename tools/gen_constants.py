#!/usr/bin/env python3
"""Translator (part G of the tie): re-reads the anchored Rust sources of /repo and
rewrites coq/Gen/Generated.v with every literal / table / structural fact the Coq models depend on.

Design (see DESIGN.md 3.1):
 * a small Rust lexer gives, for every source file, three aligned views of identical length:
   `raw`, `text` (comments blanked) and `code` (comments blanked, contents of string / char literals
   masked) -- structure is searched in `code`, literals are read from `text` at the same offsets;
   `#[cfg(test)] mod` blocks are blanked, and the main view also blanks everything under
   `#[cfg(anytls_rs_verif)]` (hook code is examined separately where a fact is about it);
 * a constant-expression evaluator (integers, casts, `T::MAX`, named consts resolved through the same
   file, `use` paths and all of src/, `Duration::from_secs/millis`, local `let` bindings);
 * structural facts are located by what the code DOES (calls, fields, comparisons in canonical
   orientation), inside function bodies in which calls to private helpers of the same file are expanded
   one level deep; facts that are about ORDER are still computed from order.
If an item can no longer be located the generated file contains a value that makes the side lemmas in
Gen/Facts*.v fail (`missing_N` = 999999999, `false`, an empty list, an unknown constructor) and a problem
`{"msg", "file", "names"}` naming the generated definitions it affects is printed as JSON on stdout
(`{"problems": [...], "changed": bool}`); it never crashes the check.
"""
import json, os, re, sys

REPO = os.environ.get("VERIF_REPO", "/repo")
OUT = os.environ.get("VERIF_GEN_OUT") or os.path.join(os.path.dirname(os.path.abspath(__file__)), "..", "coq", "Gen", "Generated.v")

problems = []


def problem(msg, rel, names):
    problems.append({"msg": f"{rel}: {msg}" if rel else msg, "file": rel or "", "names": sorted(set(names))})


# ======================================================================================== lexer / views
_INT_TYPES = {"u8": (8, False), "u16": (16, False), "u32": (32, False), "u64": (64, False), "u128": (128, False),
              "usize": (64, False), "i8": (8, True), "i16": (16, True), "i32": (32, True), "i64": (64, True),
              "i128": (128, True), "isize": (64, True)}


def lex(raw):
    """-> (text, code): comments blanked in both; in `code` the inside of string and char literals is `~`."""
    n = len(raw)
    text, code = list(raw), list(raw)
    i = 0

    def blank(a, b, both=True):
        for k in range(a, b):
            if raw[k] != "\n":
                code[k] = " " if both else "~"
                if both:
                    text[k] = " "
    while i < n:
        c = raw[i]
        if c == "/" and raw.startswith("//", i):
            j = raw.find("\n", i)
            j = n if j < 0 else j
            blank(i, j)
            i = j
        elif c == "/" and raw.startswith("/*", i):
            depth, j = 1, i + 2
            while j < n and depth:
                if raw.startswith("/*", j):
                    depth, j = depth + 1, j + 2
                elif raw.startswith("*/", j):
                    depth, j = depth - 1, j + 2
                else:
                    j += 1
            blank(i, j)
            i = j
        elif c == '"':
            j = i + 1
            while j < n and raw[j] != '"':
                j += 2 if raw[j] == "\\" else 1
            blank(i + 1, min(j, n), both=False)
            i = j + 1
        elif c == "r" and re.match(r'r#*"', raw[i:i + 12]) and (i == 0 or not (raw[i - 1].isalnum() or raw[i - 1] == "_") or raw[i - 1] == "b"):
            m = re.match(r'r(#*)"', raw[i:])
            close = '"' + m.group(1)
            j = raw.find(close, i + m.end())
            j = n if j < 0 else j
            blank(i + m.end(), j, both=False)
            i = j + len(close)
        elif c == "'":
            if i + 1 < n and raw[i + 1] == "\\":
                j = raw.find("'", i + 3)
                j = n if j < 0 else j
                blank(i + 1, j, both=False)
                i = j + 1
            elif i + 2 < n and raw[i + 2] == "'":
                blank(i + 1, i + 2, both=False)
                i += 3
            else:
                i += 1          # lifetime
        else:
            i += 1
    return "".join(text), "".join(code)


def match_close(code, i):
    """index of the bracket closing the one at code[i] ('(', '[' or '{'); -1 if unbalanced"""
    pairs = {"(": ")", "[": "]", "{": "}"}
    depth = 0
    for j in range(i, len(code)):
        ch = code[j]
        if ch in "([{":
            depth += 1
        elif ch in ")]}":
            depth -= 1
            if depth == 0:
                return j if pairs[code[i]] == ch else -1
    return -1


def _blank_regions(s, regions):
    if not regions:
        return s
    a = list(s)
    for x, y in regions:
        for k in range(x, min(y, len(a))):
            if a[k] != "\n":
                a[k] = " "
    return "".join(a)


def _attr_item_end(code, i):
    """end (exclusive) of the item / statement / field that starts at code[i] (just after an attribute)"""
    n = len(code)
    while i < n and code[i].isspace():
        i += 1
    while code.startswith("#[", i):                      # further attributes
        j = match_close(code, i + 1)
        i = j + 1 if j > 0 else i + 2
        while i < n and code[i].isspace():
            i += 1
    head = re.match(r"(?:pub(?:\([^)]*\))?\s+)?(?:async\s+|unsafe\s+|const\s+(?=fn))*(fn|mod|impl|struct|enum|trait)\b", code[i:])
    blocklike = bool(head) or code.startswith("{", i)
    depth, j = 0, i
    while j < n:
        ch = code[j]
        if ch in "([":
            depth += 1
        elif ch in ")]":
            if depth == 0:
                return j
            depth -= 1
        elif ch == "{":
            k = match_close(code, j)
            if k < 0:
                return n
            if depth == 0 and blocklike:
                return k + 1
            j = k
        elif ch == "}" and depth == 0:
            return j
        elif ch in ";," and depth == 0:
            return j + 1
        j += 1
    return n


class Src:
    """One Rust source file: aligned views. `.code/.text` = without tests; `.mcode/.mtext` = also without hook code."""
    def __init__(self, rel):
        self.rel = rel
        self.ok = True
        try:
            with open(os.path.join(REPO, rel), encoding="utf-8") as f:
                self.raw = f.read()
        except OSError as e:
            self.raw, self.ok, self.err = "", False, str(e)
        text, code = lex(self.raw)
        reg = []
        for m in re.finditer(r"#\[cfg\(test\)\]", code):
            e = _attr_item_end(code, m.end())
            if re.match(r"\s*(?:pub\s+)?mod\b", code[m.end():]):
                reg.append((m.start(), e))
        self.text, self.code = _blank_regions(text, reg), _blank_regions(code, reg)
        reg = []
        for m in re.finditer(r"#\[cfg\(anytls_rs_verif\)\]", self.code):
            reg.append((m.start(), _attr_item_end(self.code, m.end())))
        self.mtext, self.mcode = _blank_regions(self.text, reg), _blank_regions(self.code, reg)
        self._consts = None

    # -- const / static items of the file: name -> (type text, value text)
    def consts(self):
        if self._consts is None:
            d = {}
            for m in re.finditer(r"\b(?:const|static)\s+(?:mut\s+)?([A-Za-z_][A-Za-z0-9_]*)\s*:", self.code):
                i, depth, eq = m.end(), 0, -1
                while i < len(self.code):
                    ch = self.code[i]
                    if ch in "([{":
                        depth += 1
                    elif ch in ")]}":
                        depth -= 1
                        if depth < 0:
                            break
                    elif ch == "=" and depth == 0 and eq < 0 and self.code[i + 1] not in "=>" and self.code[i - 1] not in "=!<>":
                        eq = i
                    elif ch == ";" and depth == 0:
                        break
                    i += 1
                if eq > 0 and i < len(self.code) and self.code[i] == ";":
                    d.setdefault(m.group(1), (self.text[m.end():eq].strip(), self.text[eq + 1:i].strip()))
            self._consts = d
        return self._consts


class V:
    """a window on aligned (code, text) strings; all searching in .code, literals from .text"""
    def __init__(self, code, text, src=None):
        self.code, self.text, self.src = code, text, src

    def __bool__(self):
        return bool(self.code.strip())

    def sub(self, a, b=None):
        return V(self.code[a:b], self.text[a:b], self.src)

    def search(self, rx, pos=0, flags=0):
        return re.compile(rx, flags).search(self.code, pos)

    def finditer(self, rx, flags=0):
        return re.finditer(rx, self.code, flags)

    def find(self, s, pos=0):
        return self.code.find(s, pos)


EMPTY = V("", "")
_SRCS = {}


def S(rel):
    if rel not in _SRCS:
        _SRCS[rel] = Src(rel)
    return _SRCS[rel]


def all_src_files():
    out = []
    for d, _, fs in os.walk(os.path.join(REPO, "src")):
        for f in sorted(fs):
            if f.endswith(".rs"):
                out.append(os.path.relpath(os.path.join(d, f), REPO))
    return sorted(out)


# ---------------------------------------------------------------------------------------- functions
_TRAIT_METHODS = {"from", "default", "drop", "fmt", "clone", "poll_read", "poll_write", "poll_flush", "poll_shutdown",
                  "decode", "encode", "deref", "next", "eq", "hash", "new", "main"}


def fn_spans(code, name=None):
    """[(name, start_of_fn_keyword, body_open, body_close, is_pub)] for every fn with a body"""
    out = []
    for m in re.finditer(r"\bfn\s+(%s)\b" % (re.escape(name) if name else r"[A-Za-z_][A-Za-z0-9_]*"), code):
        i, depth, ang = m.end(), 0, 0
        body = -1
        while i < len(code):
            ch = code[i]
            if ch in "([":
                depth += 1
            elif ch in ")]":
                depth -= 1
                if depth < 0:
                    break
            elif ch == ";" and depth == 0:
                break
            elif ch == "{" and depth == 0:
                body = i
                break
            i += 1
        if body < 0:
            continue
        close = match_close(code, body)
        if close < 0:
            continue
        pre = code[max(0, m.start() - 40):m.start()]
        pm = re.search(r"(pub(?:\([^)]*\))?)?\s*(?:(?:async|unsafe|const|extern\s+\"[^\"]*\")\s+)*$", pre)
        is_pub = bool(pm and pm.group(1) == "pub")
        out.append((m.group(1), m.start(), body, close, is_pub))
    return out


def fn_view(src, name, main=True, inline=True, within=None):
    """V of function `name` (signature + body) in file `src`; calls to private helpers of the same file are expanded
    one level deep (the helper's body is inserted, in braces, just before the call). `within` = (a, b) restricts the search."""
    code, text = (src.mcode, src.mtext) if main else (src.code, src.text)
    spans = fn_spans(code, name)
    if within:
        spans = [s for s in spans if within[0] <= s[1] < within[1]]
    if not spans:
        return EMPTY
    _, a, bo, bc, _ = spans[0]
    v = V(code[a:bc + 1], text[a:bc + 1], src)
    return inline_helpers(v, src, exclude={name}, body_from=bo - a) if inline else v


def inline_helpers(v, src, exclude=(), body_from=0):
    helpers = {}
    for nm, a, bo, bc, is_pub in fn_spans(src.mcode):
        if not is_pub and nm not in _TRAIT_METHODS and nm not in exclude and not nm.startswith("verif_"):
            helpers.setdefault(nm, (bo, bc))
    if not helpers:
        return v
    ins = []
    for m in re.finditer(r"(?<![A-Za-z0-9_])((?:Self\s*::\s*|self\s*\.\s*)?)(%s)\s*\(" % "|".join(map(re.escape, helpers)), v.code):
        if m.start() < body_from:
            continue
        before = v.code[:m.start()].rstrip()
        if before.endswith(".") or before.endswith("::") or re.search(r"\bfn$", before):
            continue
        ins.append((m.start(), helpers[m.group(2)]))
    if not ins:
        return v
    code, text, last = [], [], 0
    for pos, (bo, bc) in ins:
        code += [v.code[last:pos], " ", src.mcode[bo:bc + 1], " "]
        text += [v.text[last:pos], " ", src.mtext[bo:bc + 1], " "]
        last = pos
    code.append(v.code[last:])
    text.append(v.text[last:])
    return V("".join(code), "".join(text), src)


def block_after(v, rx, pos=0):
    """V of the `{...}` block that follows the first match of rx (the match must end just before / at the `{`)"""
    m = v.search(rx, pos)
    if not m:
        return EMPTY, -1
    i = v.code.find("{", m.end() - 1)
    if i < 0:
        return EMPTY, -1
    j = match_close(v.code, i)
    if j < 0:
        return EMPTY, -1
    return v.sub(i, j + 1), i


def split_top(s, seps):
    """split s at the given separators where bracket depth is 0 (turbofish `::<..>` skipped); -> [(piece, offset)]"""
    out, depth, i, last = [], 0, 0, 0
    while i < len(s):
        ch = s[i]
        if ch in "([{":
            depth += 1
        elif ch in ")]}":
            depth -= 1
        elif depth == 0:
            for sp in seps:
                if s.startswith(sp, i):
                    out.append((s[last:i], last))
                    i += len(sp) - 1
                    last = i + 1
                    break
        i += 1
    out.append((s[last:], last))
    return out


def call_args(v, open_paren):
    """argument texts (from .text) of the call whose '(' is at open_paren"""
    j = match_close(v.code, open_paren)
    if j < 0:
        return []
    inner_code, inner_text = v.code[open_paren + 1:j], v.text[open_paren + 1:j]
    return [inner_text[o:o + len(p)].strip() for p, o in split_top(inner_code, [","]) if p.strip()]


# ======================================================================================== constant expressions
class Dur:
    def __init__(self, ms):
        self.ms = ms


class NotConst(Exception):
    pass


_TOK = re.compile(r"\s*(?:(0x[0-9a-fA-F_]+|0b[01_]+|0o[0-7_]+|[0-9][0-9_]*)(?:_?(u8|u16|u32|u64|u128|usize|i8|i16|i32|i64|i128|isize))?(?![A-Za-z0-9_.]|\.[0-9])"
                  r"|([A-Za-z_][A-Za-z0-9_]*(?:\s*::\s*[A-Za-z_][A-Za-z0-9_]*)*)|(<<|>>|[-+*/%()|&^,.]))")


def _tokens(expr):
    out, i = [], 0
    expr = expr.strip()
    while i < len(expr):
        m = _TOK.match(expr, i)
        if not m or m.end() == i:
            raise NotConst(expr)
        if m.group(1) is not None:
            out.append(("num", int(m.group(1).replace("_", ""), 0), m.group(2)))
        elif m.group(3) is not None:
            out.append(("id", re.sub(r"\s+", "", m.group(3)), None))
        else:
            out.append(("op", m.group(4), None))
        i = m.end()
    return out


def _wrap(v, ty):
    bits, signed = _INT_TYPES[ty]
    v &= (1 << bits) - 1
    if signed and v >> (bits - 1):
        v -= 1 << bits
    return v


def _module_files(path_segs, rel):
    """candidate files for a module path such as ['crate','protocol','frame'] / ['super'] / ['frame'] seen in file rel"""
    segs = [s for s in path_segs if s not in ("self",)]
    here = os.path.dirname(rel)
    if segs and segs[0] == "crate":
        base, segs = "src", segs[1:]
    elif segs and segs[0] == "super":
        base = os.path.dirname(here) if os.path.basename(rel) == "mod.rs" else here
        segs = segs[1:]
        while segs and segs[0] == "super":
            base, segs = os.path.dirname(base), segs[1:]
    elif segs and segs[0] in ("anytls_rs",):
        base, segs = "src", segs[1:]
    else:
        base = here
    cands = []
    for k in range(len(segs), -1, -1):          # longest prefix that is a module file; the rest may be re-exports
        p = os.path.join(base, *segs[:k]) if k else base
        cands += [p + ".rs", os.path.join(p, "mod.rs")]
        if k == 0:
            cands += [os.path.join(base, "lib.rs")]
    return [c for c in cands if os.path.isfile(os.path.join(REPO, c))]


class Evaluator:
    def __init__(self):
        self.depth = 0

    # ---- name resolution
    def _candidates(self, name, quals, rel):
        quals = [q for q in quals if q != "Self"]
        src = S(rel)
        seen = []
        if not quals and name in src.consts():
            return [rel]
        if quals:
            seen += _module_files(quals, rel)
        else:
            for m in re.finditer(r"\buse\s+([^;]+);", src.code):
                u = re.sub(r"\s+", "", m.group(1))
                if re.search(r"(?<![A-Za-z0-9_])%s(?![A-Za-z0-9_])" % re.escape(name), u) or u.endswith("*"):
                    prefix = re.split(r"::\{|::\*|::%s\b" % re.escape(name), u)[0]
                    seen += _module_files(prefix.split("::"), rel)
        hits = [f for f in dict.fromkeys(seen) if name in S(f).consts()]
        if hits:
            return hits[:1]
        return [f for f in all_src_files() if name in S(f).consts()]

    def lookup(self, name, quals, rel, env, want):
        if not quals and env is not None and name in env:
            e = env[name]
            env2 = dict(env)
            del env2[name]                       # a shadowing `let x = f(x)` refers to the earlier binding: not followed
            return self.ev(e, rel, env2, want)
        files = self._candidates(name, quals, rel)
        if not files:
            raise NotConst("unknown name " + name)
        vals = []
        for f in files:
            vals.append(self.ev(S(f).consts()[name][1], f, None, want))
        key = lambda v: ("d", v.ms) if isinstance(v, Dur) else ("v", v)
        if len({key(v) for v in vals}) != 1:
            raise NotConst("ambiguous name %s (defined in %s)" % (name, ", ".join(files)))
        return vals[0]

    # ---- evaluation
    def ev(self, expr, rel, env=None, want=None):
        self.depth += 1
        try:
            if self.depth > 12:
                raise NotConst("too deep: " + expr)
            if want in ("str", "bytes"):
                return self._str(expr.strip(), rel, env)
            toks = _tokens(expr)
            self.t, self.i, self.rel, self.env = toks, 0, rel, env
            v = self._bin(0)
            if self.i != len(self.t):
                raise NotConst(expr)
            return v
        finally:
            self.depth -= 1

    def _str(self, e, rel, env):
        m = re.fullmatch(r'(b?)r(#*)"(.*)"\2', e, re.S)
        if m:
            return m.group(3).encode()
        m = re.fullmatch(r'(b?)"((?:[^"\\]|\\.)*)"', e, re.S)
        if m:
            s = re.sub(r"\\\n\s*", "", m.group(2))
            s = re.sub(r"\\u\{([0-9a-fA-F]+)\}", lambda k: chr(int(k.group(1), 16)), s)
            out, i = bytearray(), 0
            esc = {"n": 10, "r": 13, "t": 9, "0": 0, "\\": 92, '"': 34, "'": 39}
            while i < len(s):
                if s[i] == "\\" and i + 1 < len(s):
                    if s[i + 1] == "x":
                        out.append(int(s[i + 2:i + 4], 16))
                        i += 4
                    else:
                        out.append(esc[s[i + 1]])
                        i += 2
                else:
                    out += s[i].encode()
                    i += 1
            return bytes(out)
        m = re.fullmatch(r"&?\s*([A-Za-z_][A-Za-z0-9_]*(?:\s*::\s*[A-Za-z_][A-Za-z0-9_]*)*)", e)
        if m:
            segs = re.sub(r"\s+", "", m.group(1)).split("::")
            return self.lookup(segs[-1], segs[:-1], rel, env, "str")
        raise NotConst("not a string constant: " + e)

    _PREC = [["|"], ["^"], ["&"], ["<<", ">>"], ["+", "-"], ["*", "/", "%"]]

    def _peek(self):
        return self.t[self.i] if self.i < len(self.t) else (None, None, None)

    def _bin(self, lvl):
        if lvl == len(self._PREC):
            return self._cast()
        v = self._bin(lvl + 1)
        while self._peek()[0] == "op" and self._peek()[1] in self._PREC[lvl]:
            op = self._peek()[1]
            self.i += 1
            w = self._bin(lvl + 1)
            v = self._apply(op, v, w)
        return v

    @staticmethod
    def _apply(op, a, b):
        if isinstance(a, Dur) or isinstance(b, Dur):
            if op == "+" and isinstance(a, Dur) and isinstance(b, Dur):
                return Dur(a.ms + b.ms)
            if op == "*" and isinstance(a, Dur) != isinstance(b, Dur):
                return Dur((a.ms if isinstance(a, Dur) else a) * (b.ms if isinstance(b, Dur) else b))
            if op == "/" and isinstance(a, Dur) and not isinstance(b, Dur) and b and a.ms % b == 0:
                return Dur(a.ms // b)
            raise NotConst("duration arithmetic")
        if isinstance(a, bool) or isinstance(b, bool):
            raise NotConst("bool arithmetic")
        if op in "/%" and b == 0:
            raise NotConst("division by zero")
        if op == "/":
            q = abs(a) // abs(b)
            return q if (a >= 0) == (b >= 0) else -q
        if op == "%":
            r = abs(a) % abs(b)
            return r if a >= 0 else -r
        return {"|": a | b, "^": a ^ b, "&": a & b, "<<": a << b if 0 <= b < 256 else 0, ">>": a >> b if b >= 0 else 0,
                "+": a + b, "-": a - b, "*": a * b}[op]

    def _cast(self):
        v = self._unary()
        while self._peek() == ("id", "as", None):
            ty = self.t[self.i + 1] if self.i + 1 < len(self.t) else (None, None, None)
            if ty[0] != "id" or ty[1] not in _INT_TYPES or isinstance(v, (Dur, bool)):
                raise NotConst("cast")
            v = _wrap(v, ty[1])
            self.i += 2
        return v

    def _unary(self):
        if self._peek() == ("op", "-", None):
            self.i += 1
            v = self._unary()
            if isinstance(v, (Dur, bool)):
                raise NotConst("negation")
            return -v
        return self._postfix()

    def _args(self):
        """after '(' consumed: parse comma separated expressions up to ')'"""
        out = []
        while self._peek() != ("op", ")", None):
            out.append(self._bin(0))
            if self._peek() == ("op", ",", None):
                self.i += 1
            elif self._peek() != ("op", ")", None):
                raise NotConst("args")
        self.i += 1
        return out

    def _postfix(self):
        v = self._atom()
        while self._peek() == ("op", ".", None):
            nm = self.t[self.i + 1] if self.i + 1 < len(self.t) else (None, None, None)
            if nm[0] != "id" or self.t[self.i + 2:self.i + 3] != [("op", "(", None)]:
                raise NotConst("method")
            self.i += 3
            a = self._args()
            m = nm[1]
            if isinstance(v, Dur):
                if m == "as_secs" and not a:
                    v = v.ms // 1000
                elif m == "as_millis" and not a:
                    v = v.ms
                else:
                    raise NotConst("duration method " + m)
            elif m in ("min", "max") and len(a) == 1 and not isinstance(a[0], Dur):
                v = min(v, a[0]) if m == "min" else max(v, a[0])
            elif m == "pow" and len(a) == 1 and 0 <= a[0] < 256:
                v = v ** a[0]
            elif m in ("wrapping_add", "saturating_add", "checked_add") and len(a) == 1:
                v = v + a[0]
            else:
                raise NotConst("method " + m)
        return v

    def _atom(self):
        k, val, suf = self._peek()
        if k == "num":
            self.i += 1
            return val
        if k == "op" and val == "(":
            self.i += 1
            v = self._bin(0)
            if self._peek() != ("op", ")", None):
                raise NotConst("paren")
            self.i += 1
            return v
        if k != "id":
            raise NotConst("atom")
        self.i += 1
        segs = val.split("::")
        is_call = self._peek() == ("op", "(", None)
        if val in ("true", "false") and not is_call:
            return val == "true"
        if len(segs) >= 2 and segs[-2] in _INT_TYPES and not is_call:
            bits, signed = _INT_TYPES[segs[-2]]
            if segs[-1] == "MAX":
                return (1 << (bits - 1)) - 1 if signed else (1 << bits) - 1
            if segs[-1] == "MIN":
                return -(1 << (bits - 1)) if signed else 0
            if segs[-1] == "BITS":
                return bits
            raise NotConst(val)
        if is_call:
            self.i += 1
            a = self._args()
            if len(segs) >= 2 and segs[-2] == "Duration" and len(a) == 1 and not isinstance(a[0], (Dur, bool)):
                if segs[-1] == "from_secs":
                    return Dur(a[0] * 1000)
                if segs[-1] == "from_millis":
                    return Dur(a[0])
                if segs[-1] == "from_mins":
                    return Dur(a[0] * 60000)
            if len(segs) >= 2 and segs[-2] in _INT_TYPES and segs[-1] == "from" and len(a) == 1 and not isinstance(a[0], (Dur, bool)):
                return a[0]
            raise NotConst("call " + val)
        # a named constant: save the parser state, evaluate its definition, restore
        st = (self.t, self.i, self.rel, self.env)
        try:
            return self.lookup(segs[-1], segs[:-1], self.rel, self.env, None)
        finally:
            self.t, self.i, self.rel, self.env = st


EV = Evaluator()


def ev_int(expr, rel, env=None):
    v = EV.ev(expr, rel, env)
    if isinstance(v, (Dur, bool)):
        raise NotConst("not an integer: " + expr)
    return v


def ev_ms(expr, rel, env=None):
    v = EV.ev(expr, rel, env)
    if not isinstance(v, Dur):
        raise NotConst("not a Duration: " + expr)
    return v.ms


def ev_bool(expr, rel, env=None):
    v = EV.ev(expr, rel, env)
    if not isinstance(v, bool):
        raise NotConst("not a bool: " + expr)
    return v


def ev_bytes(expr, rel, env=None):
    return EV.ev(expr, rel, env, "str")


def try_ev(f, *a):
    try:
        return f(*a)
    except (NotConst, RecursionError, KeyError, ValueError, IndexError):
        return None


def local_env(v):
    """immutable `let name[: ty] = expr;` bindings of a function body: name -> expr text (first binding wins)"""
    env = {}
    for m in v.finditer(r"\blet\s+([a-z_][A-Za-z0-9_]*)\s*(?::\s*[^=;]+?)?=(?!=)"):
        i, depth = m.end(), 0
        while i < len(v.code):
            ch = v.code[i]
            if ch in "([{":
                depth += 1
            elif ch in ")]}":
                depth -= 1
                if depth < 0:
                    break
            elif ch == ";" and depth == 0:
                break
            i += 1
        if i < len(v.code) and v.code[i] == ";":
            env.setdefault(m.group(1), v.text[m.end():i].strip())
    return env


def resolve_text(e, env, n=4):
    """follow plain renamings `let a = b.c.d;` : text of an operand with local names replaced by what they are bound to"""
    e = squash(e)
    while n and re.fullmatch(r"[a-z_][A-Za-z0-9_]*", e) and e in env:
        nxt = squash(env[e])
        if nxt == e:
            break
        e, n = nxt, n - 1
    return e


def const_named(name, rel, kind):
    """value of the const `name` as seen from file rel (same file, use paths, anywhere under src/); None if not evaluable"""
    f = {"int": ev_int, "ms": ev_ms, "bytes": ev_bytes, "bool": ev_bool}[kind]
    return try_ev(f, name, rel)


# ======================================================================================== comparisons, `if` statements
FLIP = {"<": ">", ">": "<", "<=": ">=", ">=": "<=", "==": "==", "!=": "!="}
NEG = {"<": ">=", ">=": "<", ">": "<=", "<=": ">", "==": "!=", "!=": "=="}
_CMP = {"<": 0, "<=": 1, ">": 2, ">=": 3}


def squash(s):
    """remove white space except between two word characters (`x as usize` stays, `a\n  .b` -> `a.b`)"""
    return re.sub(r"(?<![A-Za-z0-9_]) | (?![A-Za-z0-9_])", "", re.sub(r"\s+", " ", s.strip()))


def parse_cmp(piece):
    """`A op B` (one top-level comparison; `!(A op B)` is un-negated) -> (A, op, B) with whitespace removed, or None"""
    s = piece.strip()
    neg = False
    m = re.fullmatch(r"!\s*\((.*)\)", s, re.S)
    if m and match_close(s, s.find("(")) == len(s) - 1:
        s, neg = m.group(1), True
    found, depth, i = [], 0, 0
    while i < len(s):
        ch = s[i]
        if ch in "([{":
            depth += 1
        elif ch in ")]}":
            depth -= 1
        elif depth == 0:
            if s.startswith("::<", i):
                d, j = 0, i + 2
                while j < len(s):
                    d += s[j] == "<"
                    d -= s[j] == ">"
                    j += 1
                    if d == 0:
                        break
                i = j
                continue
            two = s[i:i + 2]
            if two in ("->", "=>", "<<", ">>", "&&", "||"):
                i += 2
                continue
            if two in ("<=", ">=", "==", "!="):
                found.append((i, two))
                i += 2
                continue
            if ch in "<>":
                found.append((i, ch))
        i += 1
    if len(found) != 1:
        return None
    i, op = found[0]
    a, b = squash(s[:i]), squash(s[i + len(op):])
    if not a or not b:
        return None
    return (a, NEG[op] if neg else op, b)


def iter_ifs(v):
    """every `if` / `else if` / `while` with a block: (cond V, block V, position of the keyword). `if let` parts of a
    condition are kept in the cond text (callers split on && / ||)."""
    out = []
    for m in v.finditer(r"\b(if|while)\b"):
        i, depth = m.end(), 0
        blk = -1
        while i < len(v.code):
            ch = v.code[i]
            if ch in "([":
                depth += 1
            elif ch in ")]":
                depth -= 1
                if depth < 0:
                    break
            elif depth == 0 and (ch == ";" or v.code.startswith("=>", i)):
                break
            elif ch == "{" and depth == 0:
                blk = i
                break
            i += 1
        if blk < 0:
            continue
        j = match_close(v.code, blk)
        if j < 0:
            continue
        out.append((v.sub(m.end(), blk), v.sub(blk, j + 1), m.start()))
    return out


def cond_cmps(cond):
    """comparisons of a condition split at top-level || and && : [(A, op, B)]; also whether it is a pure disjunction"""
    pieces = split_top(cond.code, ["||", "&&"])
    pure_or = "&&" not in "".join(cond.code[o + len(p):o + len(p) + 2] for p, o in pieces[:-1])
    out = []
    for p, o in pieces:
        c = parse_cmp(cond.text[o:o + len(p)] if "~" in p else p)
        if c:
            out.append(c)
    return out, pure_or, len(pieces)


def orient(c, is_left):
    """put the operand satisfying is_left on the left: -> (left, op, right) or None"""
    a, op, b = c
    if is_left(a) and not is_left(b):
        return (a, op, b)
    if is_left(b) and not is_left(a):
        return (b, FLIP[op], a)
    return None


# ======================================================================================== output
lines = []
defined = {}            # generated name -> files it was computed from (for problems about unreadable files)
MISSING_Z = "999999999%Z"


def emit(s=""):
    lines.append(s)


def define(name, ty, val, files):
    emit(f"Definition {name} : {ty} := {val}.")
    defined[name] = list(files)


def coq_bytes(bs):
    return "[" + "; ".join(str(b) for b in bs) + "]"


def N(v):
    return "missing_N" if v is None else f"{v}"


def _bool(v):
    return "true" if v else "false"


def item(rel, specs, fn, files=None):
    """run one translator item. specs = [(name, coq type, fallback value text)] in output order; fn() returns
    {name: value text} (absent / None -> fallback + it must have reported a problem). Never raises."""
    files = files or [rel]
    names = [s[0] for s in specs]
    before = len(problems)
    try:
        vals = fn() or {}
    except Exception as e:       # noqa: a translator bug or a shape nobody thought of: the item is missing, not the run
        vals = {}
        problem(f"translator error in item {names[0]}: {e!r}", rel, names)
    for name, ty, fb in specs:
        v = vals.get(name)
        if v is None:
            v = fb
            if not any(name in p["names"] for p in problems[before:]):
                problem(f"{name} could not be located", rel, [name])
        define(name, ty, v, files)


emit("(* GENERATED by tools/gen_constants.py from the Rust sources of /repo -- do not edit. *)")
emit("From Coq Require Import List NArith ZArith.")
emit("From AnyTLS Require Import Cmd.")
emit("Import ListNotations.")
emit("Open Scope N_scope.")
emit("Definition missing_N : N := 999999999.")
emit()


def const_item(rel, gen_name, rust_name, kind, ty="N"):
    """one generated definition = the value of one named Rust const"""
    def run():
        v = const_named(rust_name, rel, kind)
        if v is None:
            where = [f for f in all_src_files() if rust_name in S(f).consts()]
            problem(f"constant {rust_name} " + ("has a value the translator cannot evaluate: %r" % S(where[0]).consts()[rust_name][1] if where else "not found"), rel, [gen_name])
            return {}
        if kind == "bytes":
            return {gen_name: coq_bytes(v)}
        if ty == "Z":
            return {gen_name: f"{v}%Z"}
        if v < 0:
            problem(f"constant {rust_name} is negative", rel, [gen_name])
            return {}
        return {gen_name: str(v)}
    fb = {"N": "missing_N", "Z": "missing_N%Z", "list N": "[]"}[ty]
    item(rel, [(gen_name, ty, fb)], run)


# ---------------------------------------------------------------- frame.rs
rel = "src/protocol/frame.rs"
emit(f"(* {rel} *)")
const_item(rel, "header_size", "HEADER_OVERHEAD_SIZE", "int")


def _cmd_disc():
    s = S(rel)
    blk, _ = block_after(V(s.mcode, s.mtext, s), r"\benum\s+Command\s*\{")
    if not blk:
        problem("enum Command not found", rel, ["cmd_disc"])
        return {}
    disc, nxt = [], 0
    for p, o in split_top(blk.code[1:-1], [","]):
        p = re.sub(r"#\[[^\]]*\]", "", p).strip()
        if not p:
            continue
        m = re.fullmatch(r"([A-Za-z_][A-Za-z0-9_]*)\s*(?:=\s*(.+))?", p, re.S)
        if not m:
            problem(f"enum Command: variant {p!r} not understood", rel, ["cmd_disc"])
            return {}
        if m.group(2):
            v = try_ev(ev_int, m.group(2), rel)
            if v is None:
                problem(f"enum Command: discriminant {m.group(2)!r} not evaluable", rel, ["cmd_disc"])
                return {}
            nxt = v
        disc.append((nxt, m.group(1)))
        nxt += 1
    disc.sort(key=lambda x: x[0])
    return {"cmd_disc": "[" + "; ".join(f"({v}, {n})" for v, n in disc) + "]"}


item(rel, [("cmd_disc", "list (N * cmd)", "[]")], _cmd_disc)


def match_arms(v, open_brace):
    """arms of the match whose `{` is at open_brace: [(pattern text, rhs text)]"""
    close = match_close(v.code, open_brace)
    inner = v.code[open_brace + 1:close]
    arms, i, n = [], 0, len(inner)
    while i < n:
        j, depth = i, 0
        while j < n and not (depth == 0 and inner.startswith("=>", j)):
            depth += inner[j] in "([{"
            depth -= inner[j] in ")]}"
            j += 1
        if j >= n:
            break
        pat = inner[i:j].strip()
        k = j + 2
        while k < n and inner[k].isspace():
            k += 1
        if k < n and inner[k] == "{":
            e = match_close(inner, k)
            rhs = inner[k + 1:e]
            k = e + 1
            while k < n and (inner[k].isspace() or inner[k] == ","):
                k += 1
        else:
            e, depth = k, 0
            while e < n and not (depth == 0 and inner[e] == ","):
                depth += inner[e] in "([{"
                depth -= inner[e] in ")]}"
                e += 1
            rhs = inner[k:e]
            k = e + 1
        arms.append((pat, rhs.strip()))
        i = k
    return arms


def _cmd_table():
    names = ["cmd_table", "cmd_default"]
    s = S(rel)
    m = re.search(r"\bimpl\s+From\s*<\s*u8\s*>\s+for\s+Command\s*\{", s.mcode)
    if not m:
        problem("impl From<u8> for Command not found", rel, names)
        return {"cmd_default": "MissingDefaultArm"}
    end = match_close(s.mcode, m.end() - 1)
    f = fn_view(s, "from", within=(m.start(), end))
    pm = re.search(r"\bfn\s+from\s*\(\s*(?:mut\s+)?([A-Za-z_][A-Za-z0-9_]*)\s*:", f.code)
    mm = None
    for cand in f.finditer(r"\bmatch\s+([A-Za-z_][A-Za-z0-9_]*)\s*\{"):
        mm = mm or cand
    if not pm or not mm:
        problem("impl From<u8> for Command is no longer one `match` over the byte", rel, names)
        return {"cmd_default": "MissingDefaultArm"}
    table, default, bad = {}, None, False
    for pat, rhs in match_arms(f, mm.end() - 1):
        r = re.fullmatch(r"(?:Command|Self)\s*::\s*([A-Za-z_][A-Za-z0-9_]*)", rhs)
        if not r or re.search(r"\bif\b", pat):
            problem(f"cannot translate match arm `{pat} => {rhs}`", rel, names)
            bad = True
            continue
        for alt, _ in split_top(pat, ["|"]):
            alt = alt.strip()
            if alt == "_" or re.fullmatch(r"[a-z_][a-z0-9_]*", alt):
                default = default or r.group(1)
                continue
            if default is not None:
                continue                       # unreachable: behind the catch-all
            rm = re.fullmatch(r"(.+?)\.\.(=?)(.+)", alt)
            try:
                if rm:
                    lo, hi = ev_int(rm.group(1), rel), ev_int(rm.group(3), rel)
                    vals = range(lo, hi + (1 if rm.group(2) else 0))
                else:
                    vals = [ev_int(alt, rel)]
            except (NotConst, RecursionError):
                problem(f"cannot translate match pattern {alt!r}", rel, names)
                bad = True
                continue
            for v in vals:
                table.setdefault(v, r.group(1))    # first match wins
    if default is None:
        problem("no default arm in From<u8> for Command", rel, names)
        default = "MissingDefaultArm"
    out = {"cmd_default": default}
    if not bad:
        out["cmd_table"] = "[" + "; ".join(f"({v}, {n})" for v, n in sorted(table.items())) + "]"
    return out


item(rel, [("cmd_table", "list (N * cmd)", "[]"), ("cmd_default", "cmd", "MissingDefaultArm")], _cmd_table)
emit()

# ---------------------------------------------------------------- codec.rs : oversize guard
rel = "src/protocol/codec.rs"


def _encode_guard():
    s = S(rel)
    m = re.search(r"\bimpl\s+Encoder\s*<\s*Frame\s*>\s+for\s+\w+\s*\{", s.mcode)
    if not m:
        problem("impl Encoder<Frame> not found", rel, ["encode_max_payload"])
        return {}
    f = fn_view(s, "encode", within=(m.start(), match_close(s.mcode, m.end() - 1)))
    env = local_env(f)
    first_put = f.search(r"\.\s*(?:put_\w+|put|extend_from_slice|extend)\s*\(")
    for cond, blk, pos in iter_ifs(f):
        cs, _, npieces = cond_cmps(cond)
        if npieces != 1 or len(cs) != 1 or not re.match(r"\{\s*return\s+Err\b", blk.code):
            continue
        a, op, b = cs[0]
        va, vb = try_ev(ev_int, a, rel, env), try_ev(ev_int, b, rel, env)
        if (va is None) == (vb is None):
            continue
        length, lim, op = (a, vb, op) if va is None else (b, va, FLIP[op])
        if ".len()" not in resolve_text(length, env) and ".len()" not in length:
            continue
        if first_put and first_put.start() < pos:
            problem("the oversize guard of encode comes after bytes were already appended", rel, ["encode_max_payload"])
            return {}
        if op == ">":
            return {"encode_max_payload": str(lim)}
        if op == ">=":
            return {"encode_max_payload": str(lim - 1)}
    problem("encoder has no `if payload_len > <const> { return Err(..) }` guard before the header is written", rel, ["encode_max_payload"])
    return {}


emit(f"(* {rel} *)")
item(rel, [("encode_max_payload", "N", "missing_N")], _encode_guard)
emit()

# ---------------------------------------------------------------- padding
rel = "src/padding/mod.rs"
emit(f"(* {rel} *)")


def _check_mark():
    v = const_named("CHECK_MARK", rel, "int")
    if v is None:
        problem("CHECK_MARK not found", rel, ["check_mark"])
        return {}
    return {"check_mark": f"({v})%Z"}


item(rel, [("check_mark", "Z", MISSING_Z)], _check_mark)
rel = "src/padding/factory.rs"


def _default_scheme():
    v = const_named("DEFAULT_PADDING_SCHEME", rel, "bytes")
    if v is None:
        problem("DEFAULT_PADDING_SCHEME not found", rel, ["default_scheme"])
        return {}
    emit(f"(* {rel} *)")
    return {"default_scheme": coq_bytes(v)}


item(rel, [("default_scheme", "list N", "[]")], _default_scheme)
emit()

# ---------------------------------------------------------------- udp
for rel, nm in (("src/client/udp_client.rs", "udp_max_client"), ("src/server/udp_proxy.rs", "udp_max_server")):
    emit(f"(* {rel} *)")
    const_item(rel, nm, "MAX_UDP_PACKET_SIZE", "int")
const_item("src/client/udp_client.rs", "udp_magic_addr", "UDP_OVER_TCP_MAGIC_ADDR", "bytes", "list N")
rel = "src/server/handler.rs"


def _magic_infix():
    s = S(rel)
    v = V(s.mcode, s.mtext, s)
    for m in v.finditer(r"\.\s*addr\s*\.\s*contains\s*\("):
        a = call_args(v, m.end() - 1)
        b = try_ev(ev_bytes, a[0], rel) if len(a) == 1 else None
        if b is not None:
            return {"udp_magic_infix": coq_bytes(b)}
    problem("udp magic test (`<destination>.addr.contains(<string constant>)`) not found", rel, ["udp_magic_infix"])
    return {}


item(rel, [("udp_magic_infix", "list N", "[]")], _magic_infix)
emit()

# ---------------------------------------------------------------- http
rel = "src/client/http_proxy.rs"
emit(f"(* {rel} *)")
const_item(rel, "http_max_header", "MAX_HEADER_SIZE", "int")
const_item(rel, "http_terminator", "HEADER_TERMINATOR", "bytes", "list N")


def _http_chunk():
    f = fn_view(S(rel), "read_http_header")
    env = local_env(f)
    for m in f.finditer(r"\blet\s+mut\s+\w+\s*(?::[^=;]+)?=\s*\[\s*0(?:u8)?\s*;([^\]]+)\]"):
        v = try_ev(ev_int, f.text[m.start(1):m.end(1)], rel, env)
        if v is not None:
            return {"http_read_chunk": str(v)}
    problem("read chunk size (`let mut <buf> = [0u8; <const>]` in read_http_header) not found", rel, ["http_read_chunk"])
    return {}


item(rel, [("http_read_chunk", "N", "missing_N")], _http_chunk)


def _http_ports():
    names = ["http_default_port_http", "http_default_port_https", "http_default_port_connect"]
    f = fn_view(S(rel), "determine_target")
    out = {}
    if not f:
        problem("determine_target not found", rel, names)
        return out
    env = local_env(f)
    calls = [(m.start(), call_args(f, m.end() - 1)) for m in f.finditer(r"\bsplit_host_port\s*\(") if not re.search(r"\bfn\s*$", f.code[:m.start()])]
    # CONNECT: the call inside the `if <method>.eq_ignore_ascii_case("CONNECT") {` block
    cblk, cpos = EMPTY, -1
    for cond, blk, pos in iter_ifs(f):
        if "eq_ignore_ascii_case" in cond.code and '"CONNECT"' in cond.text:
            cblk, cpos = blk, f.code.find(blk.code, pos)
            break
    port_var = None
    for pos, args in calls:
        if len(args) != 2:
            continue
        inside = cpos >= 0 and cpos <= pos < cpos + len(cblk.code)
        v = try_ev(ev_int, args[1], rel, env)
        if inside and v is not None:
            out.setdefault("http_default_port_connect", str(v))
        elif not inside and re.fullmatch(r"[a-z_][A-Za-z0-9_]*", args[1]):
            port_var = args[1]
    if "http_default_port_connect" not in out:
        problem("default port of CONNECT (`split_host_port(target, <const>)` in the CONNECT branch) not found", rel, names[2:])
    if not port_var:
        problem("the port variable handed to split_host_port not found", rel, names[:2])
        return out
    m = f.search(r"\blet\s+mut\s+%s\s*(?::\s*\w+\s*)?=\s*([^;]+);" % re.escape(port_var))
    v = try_ev(ev_int, f.text[m.start(1):m.end(1)], rel, env) if m else None
    if v is not None:
        out["http_default_port_http"] = str(v)
    else:
        problem(f"initial value of `{port_var}` in determine_target not found", rel, names[:1])
    for cond, blk, pos in iter_ifs(f):
        cm = re.fullmatch(r"\s*[\w.]+\s*\.\s*starts_with\s*\(\s*\"~*\"\s*\)\s*", cond.code)
        if cm and '"https://"' in cond.text:
            am = blk.search(r"\b%s\s*=\s*([^;=][^;]*);" % re.escape(port_var))
            v = try_ev(ev_int, blk.text[am.start(1):am.end(1)], rel, env) if am else None
            if v is not None:
                out["http_default_port_https"] = str(v)
                break
    if "http_default_port_https" not in out:
        problem(f"`{port_var} = <const>` under `starts_with(\"https://\")` not found", rel, names[1:2])
    return out


item(rel, [("http_default_port_http", "N", "missing_N"), ("http_default_port_https", "N", "missing_N"),
           ("http_default_port_connect", "N", "missing_N")], _http_ports)


def _http_replies():
    s = S(rel)
    out = {}
    m = re.search(r'b"HTTP/1\.[01] ([0-9]{3}) Connection [Ee]stablished', s.mtext)
    if m:
        out["http_reply_connect_ok"] = str(int(m.group(1)))
    else:
        problem("reply to CONNECT (`HTTP/1.1 <code> Connection Established`) not found", rel, ["http_reply_connect_ok"])
    v = V(s.mcode, s.mtext, s)
    for m in v.finditer(r"\bsend_http_error\s*\("):
        if re.search(r"\bfn\s*$", v.code[:m.start()]):
            continue
        a = call_args(v, m.end() - 1)
        f = None
        for nm, fa, bo, bc, _ in fn_spans(s.mcode):
            if fa <= m.start() <= bc:
                f = v.sub(fa, bc + 1)
        c = try_ev(ev_int, a[1], rel, local_env(f) if f else None) if len(a) >= 2 else None
        if c is not None:
            out["http_reply_open_failed"] = str(c)
            break
    if "http_reply_open_failed" not in out:
        problem("status code of the proxy's own error reply (`send_http_error(conn, <const>, ..)`) not found", rel, ["http_reply_open_failed"])
    return out


item(rel, [("http_reply_connect_ok", "N", "missing_N"), ("http_reply_open_failed", "N", "missing_N")], _http_replies)
emit()

# ---------------------------------------------------------------- socks5
rel = "src/client/socks5.rs"
emit(f"(* {rel} *)")
for nm in ("SOCKS5_VERSION", "AUTH_NO_AUTHENTICATION", "AUTH_NOT_ACCEPTABLE", "CMD_CONNECT",
           "ATYP_IPV4", "ATYP_DOMAIN", "ATYP_IPV6", "REPLY_SUCCEEDED", "REPLY_GENERAL_FAILURE",
           "REPLY_COMMAND_NOT_SUPPORTED"):
    const_item(rel, f"socks_{nm.lower()}", nm, "int")
emit()

# ---------------------------------------------------------------- timeouts, dns, pool
rel = "src/util/dns_cache.rs"
emit(f"(* {rel} *)")
const_item(rel, "dns_ttl_ms", "DEFAULT_TTL", "ms", "Z")
const_item(rel, "dns_timeout_ms", "DNS_TIMEOUT", "ms", "Z")
rel = "src/client/client.rs"
emit(f"(* {rel} *)")
const_item(rel, "synack_timeout_ms", "DEFAULT_SYNACK_TIMEOUT", "ms", "Z")


def enclosing_fn(s, pos, main=True):
    code, text = (s.mcode, s.mtext) if main else (s.code, s.text)
    best = None
    for nm, a, bo, bc, _ in fn_spans(code):
        if a <= pos <= bc and (best is None or a > best[0]):
            best = (a, bc)
    return V(code[best[0]:best[1] + 1], text[best[0]:best[1] + 1], s) if best else V(code, text, s)


def timeout_of(rel, what_rx, gen_name, descr, prefer_fn=None):
    """first argument (a Duration) of the `timeout(..)` call whose later argument matches what_rx"""
    def run():
        s = S(rel)
        v = V(s.mcode, s.mtext, s)
        hits = []
        for m in v.finditer(r"\btimeout\s*\("):
            a = call_args(v, m.end() - 1)
            if len(a) >= 2 and re.search(what_rx, re.sub(r"\s+", "", a[1])):
                f = enclosing_fn(s, m.start())
                ms = try_ev(ev_ms, a[0], rel, local_env(f))
                if ms is not None:
                    hits.append((0 if (prefer_fn and re.match(r"fn\s+%s\b" % prefer_fn, f.code)) else 1, m.start(), ms))
        if not hits:
            problem(descr + " not found", rel, [gen_name])
            return {}
        return {gen_name: f"{sorted(hits)[0][2]}%Z"}
    item(rel, [(gen_name, "Z", "missing_N%Z")], run)


rel = "src/server/handler.rs"
emit(f"(* {rel} *)")
timeout_of(rel, r"TcpStream::connect\(", "connect_timeout_ms", "connect timeout (`timeout(<Duration>, TcpStream::connect(..))`)")
rel = "src/session/session.rs"
emit(f"(* {rel} *)")
timeout_of(rel, r"\.shutdown\(\)", "close_shutdown_timeout_ms", "shutdown timeout (`timeout(<Duration>, writer.shutdown())`)", prefer_fn="close")


def field_expr(v, field, env=None):
    """text of the value given to `field` in a struct literal inside v (`field: expr,` or shorthand `field,` via env)"""
    m = v.search(r"(?<![A-Za-z0-9_.])%s\s*:(?!:)" % re.escape(field))
    if m:
        i, depth = m.end(), 0
        while i < len(v.code):
            ch = v.code[i]
            if ch in "([{":
                depth += 1
            elif ch in ")]}":
                depth -= 1
                if depth < 0:
                    break
            elif ch == "," and depth == 0:
                break
            i += 1
        return v.text[m.end():i].strip()
    if env and v.search(r"[{,]\s*%s\s*[,}]" % re.escape(field)) and field in env:
        return env[field]
    return None


def unwrap_ctor(e):
    """Arc::new(AtomicU32::new(1)) -> 1"""
    while True:
        m = re.fullmatch(r"(?:[A-Za-z_][A-Za-z0-9_]*\s*::\s*)*(?:Arc|Atomic[A-Za-z0-9]+|Mutex|RwLock)\s*::\s*new\s*\((.*)\)", e.strip(), re.S)
        if not m:
            return e.strip()
        e = m.group(1)


def _ctor(role, fn):
    def run():
        names = [f"{role}_first_stream_id", f"{role}_pkt_start", f"{role}_send_padding"]
        f = fn_view(S(rel), fn)
        if not f:
            problem(f"constructor {fn} not found", rel, names)
            return {}
        env = local_env(f)
        out = {}
        for name, field, evf in ((names[0], "stream_id", ev_int), (names[1], "pkt_counter", ev_int), (names[2], "send_padding", ev_bool)):
            e = field_expr(f, field, env)
            v = try_ev(evf, unwrap_ctor(e), rel, env) if e is not None else None
            if v is None:
                problem(f"{fn}.{field} is not a constant ({e!r})", rel, [name])
            else:
                out[name] = _bool(v) if evf is ev_bool else str(v)
        return out
    item(rel, [(f"{role}_first_stream_id", "N", "missing_N"), (f"{role}_pkt_start", "N", "missing_N"),
               (f"{role}_send_padding", "bool", "missing_bool")], run)


for role, fn in (("client", "new_client"), ("server", "new_server")):
    _ctor(role, fn)


def settings_frame_pos(f):
    """position where the client Settings frame is handed to write_frame (-1 if not found); position of its construction"""
    mk = f.search(r"\bFrame\s*::\s*with_data\s*\(\s*Command\s*::\s*Settings\b")
    if not mk:
        return -1, -1
    lm = None
    for m in f.finditer(r"\blet\s+(?:mut\s+)?([a-z_][A-Za-z0-9_]*)\s*(?::[^=;]+)?=\s*"):
        if m.end() == mk.start():
            lm = m
    if lm:
        w = f.search(r"\.\s*write_frame\s*\(\s*%s\s*\)" % re.escape(lm.group(1)), mk.end())
        if not w:       # handed to a private helper (expanded in place, parameter renamed): the first frame write after it is built
            w = f.search(r"\.\s*write_(?:control_)?frame\s*\(", mk.end())
        return (w.start() if w else -1), mk.start()
    before = f.code[:mk.start()].rstrip()
    if re.search(r"\.\s*write_frame\s*\($", before):
        return mk.start(), mk.start()
    return -1, mk.start()


def _start_order():
    # start_client: the settings frame is queued (buffering on) before any task is spawned
    f = fn_view(S(rel), "start_client")
    if not f:
        problem("start_client not found", rel, ["start_settings_before_spawn"])
        return {"start_settings_before_spawn": "false"}
    i_buf = f.search(r"\bbuffering\s*\.\s*store\s*\(\s*true\b")
    i_set, _ = settings_frame_pos(f)
    i_spawn = f.search(r"\bspawn\s*\(")
    ok = bool(i_buf) and 0 <= i_buf.start() < i_set and (not i_spawn or i_set < i_spawn.start())
    return {"start_settings_before_spawn": _bool(ok)}


item(rel, [("start_settings_before_spawn", "bool", "false")], _start_order)
emit()
rel = "src/client/session_pool.rs"
emit(f"(* {rel} *)")


def impl_default_body(s, ty):
    m = re.search(r"\bimpl\s+Default\s+for\s+%s\s*\{" % ty, s.mcode)
    if not m:
        return EMPTY
    return fn_view(s, "default", within=(m.start(), match_close(s.mcode, m.end() - 1)))


def _pool_defaults():
    names = ["pool_default_interval_ms", "pool_default_timeout_ms", "pool_default_min_idle"]
    f = impl_default_body(S(rel), "SessionPoolConfig")
    if not f:
        problem("SessionPoolConfig::default not found", rel, names)
        return {}
    env, out = local_env(f), {}
    for name, field, evf in ((names[0], "check_interval", ev_ms), (names[1], "idle_timeout", ev_ms), (names[2], "min_idle_sessions", ev_int)):
        e = field_expr(f, field, env)
        v = try_ev(evf, e, rel, env) if e is not None else None
        if v is None:
            problem(f"SessionPoolConfig::default: {field} is not a constant ({e!r})", rel, [name])
        else:
            out[name] = f"{v}%Z" if evf is ev_ms else str(v)
    return out


item(rel, [("pool_default_interval_ms", "Z", MISSING_Z), ("pool_default_timeout_ms", "Z", MISSING_Z),
           ("pool_default_min_idle", "N", "missing_N")], _pool_defaults)


# ---------------------------------------------------------------- padding package (C04/C05/C19)
emit()
rel = "src/padding/factory.rs"
emit(f"(* {rel}: bound on scheme sizes; None = the generator has no bound *)")
_ID = r"[a-z_][A-Za-z0-9_]*"


def _padding_bound():
    nm = ["padding_size_bound"]
    f = fn_view(S(rel), "generate_record_payload_sizes")
    if not f:
        problem("generate_record_payload_sizes not found", rel, nm)
        return {}
    env = local_env(f)
    # (1) the two parsed bounds are put in order: `let (lo, hi) = (a.min(b), a.max(b));` or `= if a <= b { (a, b) } else { (b, a) };`
    norm = None
    for m in f.finditer(r"\blet\s*\(\s*(%s)\s*,\s*(%s)\s*\)\s*=\s*" % (_ID, _ID)):
        rest = f.code[m.end():]
        a = re.match(r"\(\s*(%s)\s*\.\s*min\s*\(\s*(%s)\s*\)\s*,\s*(%s)\s*\.\s*max\s*\(\s*(%s)\s*\)\s*,?\s*\)\s*;" % (_ID, _ID, _ID, _ID), rest)
        if a and {a.group(1), a.group(2)} == {a.group(3), a.group(4)} and a.group(1) != a.group(2):
            norm = (m.end() + a.end(), m.group(2))
            break
        b = re.match(r"if\s+(%s)\s*(<=|<|>=|>)\s*(%s)\s*\{\s*\(\s*(%s)\s*,\s*(%s)\s*\)\s*\}\s*else\s*\{\s*\(\s*(%s)\s*,\s*(%s)\s*\)\s*\}\s*;" % ((_ID,) * 6), rest)
        if b:
            x, op, y, t1, t2, e1, e2 = b.groups()
            small_first = op in ("<=", "<")
            want_then = (x, y) if small_first else (y, x)
            if x != y and (t1, t2) == want_then and (e1, e2) == (want_then[1], want_then[0]):
                norm = (m.end() + b.end(), m.group(2))
                break
    if not norm:
        problem("the (min, max) normalisation of a size range in generate_record_payload_sizes not found", rel, nm)
        return {}
    after, hi = norm
    # (2) AFTER it, the larger bound is compared with a constant and the entry is skipped when it is above
    for cond, blk, pos in iter_ifs(f):
        if pos < after or not re.match(r"\{\s*(?:continue\s*;|return\s+None\s*;)", blk.code):
            continue
        cs, _, npieces = cond_cmps(cond)
        if npieces != 1 or len(cs) != 1:
            continue
        c = orient(cs[0], lambda t: t == hi)
        lim = try_ev(ev_int, c[2], rel, env) if c else None
        if lim is None:
            continue
        if c[1] == ">":
            return {"padding_size_bound": f"Some {lim}%Z"}
        if c[1] == ">=":
            return {"padding_size_bound": f"Some {lim - 1}%Z"}
    problem("no `if <larger bound> > <const> { continue; }` after the (min, max) normalisation in generate_record_payload_sizes", rel, nm)
    return {}


item(rel, [("padding_size_bound", "option Z", "None")], _padding_bound)
rel = "src/session/session.rs"
emit(f"(* {rel}: packet index = old counter value + this offset; client Settings literals *)")


def _pkt_offset():
    s = S(rel)
    v = V(s.mcode, s.mtext, s)
    for m in v.finditer(r"\.\s*pkt_counter\s*\.\s*fetch_add\s*\("):
        a = call_args(v, m.end() - 1)
        end = match_close(v.code, m.end() - 1)
        if not a or try_ev(ev_int, a[0], rel) != 1:
            problem("pkt_counter.fetch_add does not add the constant 1", rel, ["pkt_index_offset"])
            return {}
        t = re.match(r"\s*(?:\.\s*(?:wrapping_add|saturating_add)\s*\(([^()]*)\)|\+\s*([^;]+?))?\s*;", v.code[end + 1:])
        if not t:
            problem("what follows pkt_counter.fetch_add(1, ..) is not understood", rel, ["pkt_index_offset"])
            return {}
        e = t.group(1) or t.group(2)
        off = try_ev(ev_int, e, rel, local_env(enclosing_fn(s, m.start()))) if e else 0
        if off is None or off < 0:
            problem(f"packet index offset {e!r} is not a constant", rel, ["pkt_index_offset"])
            return {}
        return {"pkt_index_offset": str(off)}
    problem("pkt_counter.fetch_add not found", rel, ["pkt_index_offset"])
    return {}


item(rel, [("pkt_index_offset", "N", "missing_N")], _pkt_offset)


def _client_settings():
    names = ["client_settings_fixed", "client_settings_md5_key"]
    f = fn_view(S(rel), "start_client")
    _, made = settings_frame_pos(f) if f else (-1, -1)
    mv = f.search(r"\blet\s+mut\s+(%s)\s*(?::[^=;]+)?=\s*(?:[A-Za-z_:]*::)?StringMap\s*::\s*new\s*\(" % _ID) if f else None
    kv, md5key = [], None
    if mv and made >= 0:
        env = local_env(f)
        for m in f.finditer(r"\b%s\s*\.\s*insert\s*\(" % re.escape(mv.group(1))):
            if m.start() > made:
                break
            a = call_args(f, m.end() - 1)
            if len(a) != 2:
                continue
            k, v = try_ev(ev_bytes, a[0], rel), try_ev(ev_bytes, a[1], rel)
            if k is not None and v is not None:
                kv.append((k, v))
            elif k is not None and "md5" in resolve_text(a[1], env) + a[1]:
                md5key = k
    if not kv or md5key is None:
        problem("start_client settings literals not found", rel, names)
    return {"client_settings_fixed": "[" + "; ".join("(%s, %s)" % (coq_bytes(k), coq_bytes(v)) for k, v in kv) + "]",
            "client_settings_md5_key": coq_bytes(md5key or b"")}


item(rel, [("client_settings_fixed", "list (list N * list N)", "[]"), ("client_settings_md5_key", "list N", "[]")], _client_settings)


def arm_view(s, variant, fn="handle_frame"):
    """block of the `Command::<variant> => { .. }` arm (helpers expanded)"""
    f = fn_view(s, fn)
    v = f if f else V(s.mcode, s.mtext, s)
    blk, _ = block_after(v, r"\b(?:Command|Self)\s*::\s*%s\s*=>\s*\{" % variant)
    if not blk and f:
        v = V(s.mcode, s.mtext, s)
        blk, _ = block_after(v, r"\b(?:Command|Self)\s*::\s*%s\s*=>\s*\{" % variant)
        if blk:
            blk = inline_helpers(blk, s)
    return blk


def _server_md5_key():
    arm = arm_view(S(rel), "Settings")
    gets = [m for m in arm.finditer(r"\.\s*get\s*\(")] if arm else []
    for i, m in enumerate(gets):
        nxt = gets[i + 1].start() if i + 1 < len(gets) else len(arm.code)
        a = call_args(arm, m.end() - 1)
        k = try_ev(ev_bytes, a[0], rel) if len(a) == 1 else None
        if k is not None and re.search(r"\.\s*md5\s*\(\s*\)", arm.code[m.start():nxt]):
            return {"server_settings_md5_key": coq_bytes(k)}
    problem("server-side padding-md5 lookup not found", rel, ["server_settings_md5_key"])
    return {}


item(rel, [("server_settings_md5_key", "list N", "[]")], _server_md5_key)

# ---------------------------------------------------------------- misc/cert package (C18)
emit()
rel = "src/util/cert_reloader.rs"
emit(f"(* {rel}: shape of the (re)load path *)")


def _cert_default():
    f = impl_default_body(S(rel), "CertReloaderConfig")
    e = field_expr(f, "check_expiry", local_env(f)) if f else None
    v = try_ev(ev_bool, e, rel, local_env(f)) if e else None
    if v is None:
        problem("CertReloaderConfig::default check_expiry not found", rel, ["cert_default_check_expiry"])
        return {}
    return {"cert_default_check_expiry": _bool(v)}


item(rel, [("cert_default_check_expiry", "bool", "false")], _cert_default)


def _cert_fn(name):
    s = S(rel)
    m = re.search(r"\bimpl\s+CertReloader\s*\{", s.mcode)
    within = (m.start(), match_close(s.mcode, m.end() - 1)) if m else None
    return fn_view(s, name, within=within)


def _cert_reads():
    out = {}
    for fn in ("new", "reload"):
        f = _cert_fn(fn)
        if not f:
            problem(f"fn {fn} not found", rel, [f"cert_{fn}_cert_reads", f"cert_{fn}_key_reads"])
            continue
        both = len(re.findall(r"\bcreate_server_config_from_files\s*\(", f.code))
        rd = r"(?:\bfs\s*::\s*read(?:_to_string)?|\bFile\s*::\s*open)\s*\(\s*&?\s*(?:self\s*\.\s*)?config\s*\.\s*%s\b"
        out[f"cert_{fn}_cert_reads"] = str(both + len(re.findall(r"\bfrom_pem_file\s*\(", f.code)) + len(re.findall(rd % "cert_path", f.code)))
        out[f"cert_{fn}_key_reads"] = str(both + len(re.findall(rd % "key_path", f.code)))
    return out


item(rel, [("cert_new_cert_reads", "N", "missing_N"), ("cert_new_key_reads", "N", "missing_N"),
           ("cert_reload_cert_reads", "N", "missing_N"), ("cert_reload_key_reads", "N", "missing_N")], _cert_reads)


def _cert_reload_shape():
    names = ["cert_reload_commit_writes", "cert_reload_commit_after_checks", "cert_reload_expiry_uses_is_expired",
             "cert_reload_expiry_compares_not_after"]
    s = S(rel)
    f = _cert_fn("reload")
    if not f:
        problem("fn reload not found", rel, names)
        return {}
    plain = fn_view(s, "reload", inline=False)          # commit writes / exits of reload itself (the helper only reads)
    writes = [m.start() for m in plain.finditer(r"\.\s*write\s*\(\s*\)\s*\.\s*(?:unwrap|expect)\s*\(")]
    exits = [m.start() for m in plain.finditer(r"\breturn\s+Err\b|\?\s*[;.)]")]
    out = {"cert_reload_commit_writes": str(len(writes)),
           "cert_reload_commit_after_checks": _bool(bool(writes) and bool(exits) and min(writes) > max(exits))}
    uses, cmpna = False, False
    blk, _ = block_after(f, r"\bif\s+(?:[\w.]*\.)?check_expiry\s*\{")
    committed = {m.group(1) for m in f.finditer(r"\bcert_info\s*\.\s*write\s*\(\s*\)[^;]*=\s*Some\s*\(\s*(?:Arc\s*::\s*clone\s*\(\s*&\s*)?(%s)\b" % _ID)}
    for cond, b2, pos in iter_ifs(blk) if blk else []:
        if not re.match(r"\{\s*return\s+Err\b", b2.code):
            continue
        pieces = split_top(cond.code, ["||"])
        if "&&" in cond.code:
            break
        for p, o in pieces:
            m = re.fullmatch(r"\s*(%s)\s*\.\s*is_expired\s*\(\s*\)\s*" % _ID, p)
            if m and m.group(1) in committed:
                uses = True
            c = parse_cmp(p)
            c = orient(c, lambda t: t.endswith(".not_after")) if c else None
            if c and c[1] == "<" and re.fullmatch(r"(?:std::time::)?SystemTime::now\(\)", c[2]) and c[0][:-len(".not_after")] in committed:
                cmpna = True
        break
    out["cert_reload_expiry_uses_is_expired"] = _bool(uses)
    out["cert_reload_expiry_compares_not_after"] = _bool(cmpna)
    return out


item(rel, [("cert_reload_commit_writes", "N", "missing_N"), ("cert_reload_commit_after_checks", "bool", "false"),
           ("cert_reload_expiry_uses_is_expired", "bool", "false"), ("cert_reload_expiry_compares_not_after", "bool", "false")],
     _cert_reload_shape)


def _cert_new_rejects():
    f = _cert_fn("new")
    if not f:
        problem("fn new not found", rel, ["cert_new_rejects_expired"])
        return {}
    rej = False
    for cond, blk, pos in iter_ifs(f) if f else []:
        if re.search(r"\bis_expired\s*\(\s*\)", cond.code) and not cond.code.strip().startswith("!") and re.search(r"\breturn\s+Err\b", blk.code):
            rej = True
    return {"cert_new_rejects_expired": _bool(rej)}


item(rel, [("cert_new_rejects_expired", "bool", "true")], _cert_new_rejects)
rel = "src/util/cert_analyzer.rs"
emit(f"(* {rel}: day arithmetic of days_until_expiry / is_expired *)")


def _cert_days():
    f = fn_view(S(rel), "from_x509")
    env = local_env(f) if f else {}
    divs = set()
    for m in f.finditer(r"\bas_secs\s*\(\s*\)\s*/\s*([A-Za-z0-9_:]+(?:\s*\*\s*[A-Za-z0-9_:]+)*)") if f else []:
        divs.add(try_ev(ev_int, m.group(1), rel, env))
    if len(divs) != 1 or None in divs:
        problem("days_until_expiry divisor not found or not unique", rel, ["cert_secs_per_day"])
        return {}
    return {"cert_secs_per_day": f"{divs.pop()}%Z"}


item(rel, [("cert_secs_per_day", "Z", MISSING_Z)], _cert_days)


def _cert_expired():
    f = fn_view(S(rel), "is_expired")
    body = f.code[f.code.find("{"):] if f else ""
    c = parse_cmp(re.sub(r"^\{\s*(?:return\s+)?|;?\s*\}\s*$", "", body.strip())) if body else None
    c = orient(c, lambda t: t == "self.days_until_expiry") if c else None
    lim = try_ev(ev_int, c[2], rel) if c else None
    if lim is not None and c[1] in ("<", "<="):
        return {"cert_expired_below_days": f"({lim + (1 if c[1] == '<=' else 0)})%Z"}
    problem("is_expired is no longer `days_until_expiry < constant`", rel, ["cert_expired_below_days"])
    return {}


item(rel, [("cert_expired_below_days", "Z", MISSING_Z)], _cert_expired)
rel = "src/bin/server.rs"
emit(f"(* {rel} *)")


def _cert_bin():
    s = S(rel)
    v = V(s.mcode, s.mtext, s)
    for m in v.finditer(r"\bCertReloaderConfig\s*\{"):
        blk = v.sub(m.end() - 1, match_close(v.code, m.end() - 1) + 1)
        env = local_env(enclosing_fn(s, m.start()))
        e = field_expr(blk, "check_expiry", env)
        b = try_ev(ev_bool, e, rel, env) if e else None
        if b is not None:
            return {"cert_bin_check_expiry": _bool(b)}
    problem("CertReloaderConfig literal not found", rel, ["cert_bin_check_expiry"])
    return {}


item(rel, [("cert_bin_check_expiry", "bool", "false")], _cert_bin)
# server.rs `listen`: the per-connection snapshot of the acceptor must be taken AFTER accept() returned
# (inside the accept loop, textually after `listener.accept().await`), otherwise the connection accepted
# after a reload is still served the previous certificate (premise of C18_snapshot)
rel = "src/server/server.rs"


def _listen_snapshot():
    f = fn_view(S(rel), "listen")
    if not f:
        problem("fn listen not found", rel, ["listen_snapshot_after_accept"])
        return {}
    lp = f.search(r"\bloop\s*\{|\bwhile\b")
    acc = [m.start() for m in f.finditer(r"\.\s*accept\s*\(\s*\)\s*\.\s*await\b")]
    snaps = [m.start() for m in f.finditer(r"\bself\s*\.\s*tls_config\s*\.\s*read\s*\(\s*\)")]
    good = bool(lp) and len(acc) == 1 and len(snaps) == 1 and lp.start() < acc[0] < snaps[0]
    return {"listen_snapshot_after_accept": _bool(good)}


emit(f"(* {rel} *)")
item(rel, [("listen_snapshot_after_accept", "bool", "false")], _listen_snapshot)
emit()

# ---------------------------------------------------------------- timed package (C12/C13/C14)
# comparison operators are emitted as codes: 0 `<`, 1 `<=`, 2 `>`, 3 `>=`, 99 = not found; always for the canonical
# orientation named in the comment of the item (`b > a` is reported as `a < b`)
rel = "src/client/session_pool.rs"
emit(f"(* {rel}: shape of get_idle_session and of the two copies of the reaper loop (cleanup_expired, periodic task) *)")
_REAPERS = ("cleanup_expired", "start_cleanup_task")


def _pool_get():
    names = ["pool_get_takes_last", "pool_get_skips_closed"]
    g = fn_view(S(rel), "get_idle_session")
    if not g:
        problem("get_idle_session not found", rel, names)
        return {}
    n_last = len(re.findall(r"\.\s*(?:last_key_value|pop_last|last_entry)\s*\(", g.code))
    n_first = len(re.findall(r"\.\s*(?:first_key_value|pop_first|first_entry)\s*\(", g.code))
    last = n_last == 1 and n_first == 0
    if not last:
        problem("get_idle_session no longer takes exactly one entry, the last one (last_key_value / pop_last)", rel, names[:1])
    lp = g.search(r"\bloop\s*\{|\bwhile\b")
    skips = False
    rets = [m.start() for m in g.finditer(r"\breturn\s+Some\s*\(")]
    for cond, blk, pos in iter_ifs(g):
        m = re.fullmatch(r"\s*(!?)\s*(%s)\s*\.\s*session\s*\.\s*is_closed\s*\(\s*\)\s*" % _ID, cond.code)
        if not m or not lp or pos < lp.start():
            continue
        b0 = g.code.find(blk.code, pos)
        b1 = b0 + len(blk.code)
        if not m.group(1):      # if closed { .. continue; } ... return Some(x.session)
            skips = bool(re.search(r"\bcontinue\s*;", blk.code)) and bool(rets) and all(r > b1 for r in rets)
        else:                   # if !closed { .. return Some(x.session); }  (closed: falls through to the next iteration)
            tail = g.code[b1:]
            skips = bool(rets) and all(b0 < r < b1 for r in rets) and not re.search(r"\bSome\s*\(|\bbreak\b", tail)
        break
    return {"pool_get_takes_last": _bool(last), "pool_get_skips_closed": _bool(skips)}


item(rel, [("pool_get_takes_last", "bool", "false"), ("pool_get_skips_closed", "bool", "false")], _pool_get)


def _pool_add():
    a = fn_view(S(rel), "add_idle_session")
    pm = re.search(r"\(\s*&\s*self\s*,\s*(?:mut\s+)?(%s)\s*:" % _ID, a.code) if a else None
    ins = a.search(r"\.\s*insert\s*\(") if a else None
    ok = False
    for cond, blk, pos in iter_ifs(a) if pm else []:
        if re.fullmatch(r"\s*%s\s*\.\s*is_closed\s*\(\s*\)\s*" % re.escape(pm.group(1)), cond.code) and re.search(r"\breturn\s*;", blk.code) \
                and (not ins or pos < ins.start()):
            ok = True
    return {"pool_add_skips_closed": _bool(ok)}


item(rel, [("pool_add_skips_closed", "bool", "false")], _pool_add)


def reaper_copy(f):
    """one copy of the reaper loop -> dict(exp=[ops], mn=[ops], purge=n, asc=bool, guard=.., loop_pos=..)"""
    r = {"exp": [], "mn": [], "purge": 0, "asc": False, "guard": None, "loop_pos": -1}
    m = f.search(r"\bfor\s+[^{;]*?\bin\s+(%s)\s*\.\s*iter\s*\(\s*\)\s*(\.\s*rev\s*\(\s*\)\s*)?\{" % _ID)
    if not m:
        return r
    r["guard"], r["loop_pos"], r["asc"] = m.group(1), m.start(), not m.group(2)
    end = match_close(f.code, m.end() - 1)
    loop = f.sub(m.end() - 1, end + 1)
    env = local_env(f)
    counters = {c.group(1) for c in f.finditer(r"\blet\s+mut\s+(%s)\s*(?::\s*\w+\s*)?=\s*0(?:usize|u32|u64|i32)?\s*;" % _ID)}

    def is_idle(t):
        return "idle_since" in resolve_text(t, env)

    def is_timeout(t):
        return bool(re.fullmatch(r"(?:[\w]+\.)*idle_timeout", resolve_text(t, env)))

    def is_min(t):
        return bool(re.fullmatch(r"(?:[\w]+\.)*min_idle_sessions", resolve_text(t, env)))
    for cond, blk, pos in iter_ifs(loop):
        if re.fullmatch(r"\s*%s\s*\.\s*session\s*\.\s*is_closed\s*\(\s*\)\s*" % _ID, cond.code):
            if re.search(r"\.\s*push\s*\(", blk.code) and re.search(r"\bcontinue\s*;", blk.code):
                r["purge"] += 1
            continue
        cnt = re.search(r"\b(%s)\s*\+=\s*1\s*;" % _ID, blk.code)
        if not cnt or cnt.group(1) not in counters or not re.search(r"\bcontinue\s*;", blk.code):
            continue
        cs, pure_or, npieces = cond_cmps(cond)
        if not pure_or or len(cs) != npieces:
            continue
        for c in cs:
            e = orient(c, is_idle)
            if e and is_timeout(e[2]) and e[1] in _CMP:
                r["exp"].append(e[1])
                continue
            e = orient(c, lambda t: t in counters)
            if e and e[0] == cnt.group(1) and is_min(e[2]) and e[1] in _CMP:
                r["mn"].append(e[1])
    return r


def _pool_reap():
    names = ["pool_reap_unexpired_cmp", "pool_reap_min_cmp", "pool_reap_purges_closed", "pool_reap_ascending"]
    s = S(rel)
    copies = [reaper_copy(fn_view(s, fn)) for fn in _REAPERS]
    exp = [o for c in copies for o in c["exp"]]
    mn = [o for c in copies for o in c["mn"]]
    purge = sum(c["purge"] for c in copies)
    if any(len(c["exp"]) != 1 or len(c["mn"]) != 1 or c["purge"] != 1 for c in copies):
        problem("expected two copies of the reaper loop (found expiry tests %s, minimum tests %s, purge tests %d)" % (exp, mn, purge), rel, names[:3])
    asc = all(c["asc"] for c in copies) and not re.search(r"\.\s*rev\s*\(", s.mcode)
    return {"pool_reap_unexpired_cmp": "[" + "; ".join(str(_CMP[x]) for x in exp) + "]",
            "pool_reap_min_cmp": "[" + "; ".join(str(_CMP[x]) for x in mn) + "]",
            "pool_reap_purges_closed": str(purge), "pool_reap_ascending": _bool(asc)}


item(rel, [("pool_reap_unexpired_cmp", "list N", "[]"), ("pool_reap_min_cmp", "list N", "[]"),
           ("pool_reap_purges_closed", "N", "missing_N"), ("pool_reap_ascending", "bool", "false")], _pool_reap)
rel = "src/client/client.rs"
emit(f"(* {rel}: heartbeat configuration of new sessions, insertion into the idle map at creation *)")


def _client_glue():
    s = S(rel)
    v = V(s.code, s.text, s)            # hook copy included: it builds sessions the same way
    lits = []
    for m in v.finditer(r"\bSessionHeartbeatConfig\s*\{"):
        if re.search(r"\b(?:struct|impl|for)\s+$", v.code[:m.start()]):
            continue
        blk = v.sub(m.end() - 1, match_close(v.code, m.end() - 1) + 1)
        env = local_env(enclosing_fn(s, m.start(), main=False))
        i, t = field_expr(blk, "interval", env), field_expr(blk, "timeout", env)
        lits.append(i is not None and t is not None and resolve_text(i, env) == "self.pool_config.check_interval"
                    and resolve_text(t, env) == "self.pool_config.idle_timeout" and len(split_top(blk.code[1:-1].strip().rstrip(","), [","])) == 2)
    if not lits:
        problem("SessionHeartbeatConfig literal not found", rel, ["hb_cfg_is_pool_interval_timeout"])
    cn = fn_view(s, "create_new_session")
    cs = fn_view(s, "create_stream", inline=False)      # not expanded: create_new_session (the other path) does insert
    if not cn or not cs:
        problem("create_new_session / create_stream not found", rel, ["client_adds_new_session_to_idle", "client_reinserts_on_reuse"])
        return {"hb_cfg_is_pool_interval_timeout": _bool(bool(lits) and all(lits))}
    return {"hb_cfg_is_pool_interval_timeout": _bool(bool(lits) and all(lits)),
            "client_adds_new_session_to_idle": _bool(bool(cn) and bool(cn.search(r"\bsession_pool\s*\.\s*add_idle_session\s*\("))),
            "client_reinserts_on_reuse": _bool("add_idle_session" in cs.code)}


item(rel, [("hb_cfg_is_pool_interval_timeout", "bool", "false"), ("client_adds_new_session_to_idle", "bool", "false"),
           ("client_reinserts_on_reuse", "bool", "true")], _client_glue)
rel = "src/session/session.rs"
emit(f"(* {rel}: the liveness rule of the heartbeat task *)")


def heartbeat_task():
    """the heartbeat task of start_client: from `interval(<state>.interval)` to the end of the function, plus the names of
    the locals that play the roles (counter value loaded at the wake, the outstanding request, its two components)"""
    f = fn_view(S(rel), "start_client")
    m = f.search(r"\binterval\s*\(\s*[\w.]*\.\s*interval\s*\)") if f else None
    if not m:
        return None
    h = f.sub(m.start())
    r = {"v": h, "env": local_env(h)}
    m = h.search(r"\blet\s+(%s)\s*(?::[^=;]+)?=\s*[\w.\s]*?\.\s*responses\s*\.\s*load\s*\(" % _ID)
    r["cur"] = m.group(1) if m else None
    m = h.search(r"\blet\s+mut\s+(%s)\s*(?::[^=;]+)?=\s*None\s*;" % _ID)
    r["out"] = m.group(1) if m else None
    m = h.search(r"\bSome\s*\(\s*\(\s*(%s)\s*,\s*(%s)\s*\)\s*\)\s*=\s*%s\b" % (_ID, _ID, re.escape(r["out"]))) if r["out"] else None
    r["sent"], r["seen"] = (m.group(1), m.group(2)) if m else (None, None)
    return r


def _hb_rule():
    names = ["hb_rule_deadline_per_request", "hb_expire_cmp", "hb_answered_cmp"]
    hb = heartbeat_task()
    if not hb:
        problem("heartbeat task not found", rel, names + ["hb_baseline_before_write"])
        return {"hb_rule_deadline_per_request": "false", "hb_expire_cmp": "99", "hb_answered_cmp": "99"}
    h, env = hb["v"], hb["env"]

    def is_timeout(t):
        return bool(re.fullmatch(r"(?:\w+\.)*timeout", resolve_text(t, env)))
    m1 = m2 = None
    foreign = False                 # a timeout comparison that is not `<sent>.elapsed() op timeout`: the per-tick legacy rule
    for cond, blk, pos in iter_ifs(h):
        cs, _, _ = cond_cmps(cond)
        for c in cs:
            e = orient(c, lambda t: not is_timeout(t))
            if e and is_timeout(e[2]) and e[1] in _CMP:
                if hb["sent"] and resolve_text(e[0], env) in (hb["sent"] + ".elapsed()", "Instant::now().duration_since(%s)" % hb["sent"]):
                    m1 = m1 or e[1]
                else:
                    foreign = True
                continue
            e = orient(c, lambda t: t == hb["cur"]) if hb["cur"] else None
            if e and e[2] == hb["seen"] and e[1] in _CMP and hb["out"] and re.search(r"\b%s\s*=\s*None\b" % re.escape(hb["out"]), blk.code):
                m2 = m2 or e[1]
    return {"hb_rule_deadline_per_request": _bool(bool(m1) and bool(m2) and not foreign),
            "hb_expire_cmp": str(_CMP[m1]) if m1 else "99", "hb_answered_cmp": str(_CMP[m2]) if m2 else "99"}


item(rel, [("hb_rule_deadline_per_request", "bool", "false"), ("hb_expire_cmp", "N", "99"), ("hb_answered_cmp", "N", "99")], _hb_rule)


def _hb_counts():
    s = S(rel)
    arm = arm_view(s, "HeartResponse")
    counts = False
    for m in arm.finditer(r"\bresponses\s*\.\s*fetch_add\s*\(") if arm else []:
        a = call_args(arm, m.end() - 1)
        counts = counts or (bool(a) and try_ev(ev_int, a[0], rel) == 1)
    return {"hb_response_arm_counts": _bool(counts),
            "hb_counter_updates": str(len(re.findall(r"\bresponses\s*\.\s*(?:fetch_\w+|store|swap)\s*\(", s.mcode)))}


item(rel, [("hb_response_arm_counts", "bool", "false"), ("hb_counter_updates", "N", "missing_N")], _hb_counts)
rel = "src/bin/client.rs"
emit(f"(* {rel}: -I / -T are whole seconds, 0 rejected *)")


def _cli():
    s = S(rel)
    pu = fn_view(s, "parse_u64")
    rej0 = False
    for cond, blk, pos in iter_ifs(pu) if pu else []:
        cs, _, n = cond_cmps(cond)
        if n == 1 and len(cs) == 1 and cs[0][1] == "==" and "0" in (cs[0][0], cs[0][2]) and re.search(r"\bbail!|\breturn\s+Err\b", blk.code):
            rej0 = True
    both = bool(re.search(r"\bidle_check_interval\s*=\s*Some\s*\(\s*parse_u64\s*\(", s.mcode)) and bool(re.search(r"\bidle_timeout\s*=\s*Some\s*\(\s*parse_u64\s*\(", s.mcode))
    return {"cli_rejects_zero_seconds": _bool(rej0), "cli_interval_timeout_via_parse_u64": _bool(both)}


item(rel, [("cli_rejects_zero_seconds", "bool", "false"), ("cli_interval_timeout_via_parse_u64", "bool", "false")], _cli)
# ---- shapes added after seeded changes (order of set_seq / add_idle_session; reaper atomicity; heartbeat baseline)
rel = "src/client/client.rs"
emit(f"(* {rel}: the pool key (Session::seq) is set before the session is inserted into the idle map; real path, hook path *)")


def _seq_order():
    s = S(rel)
    out = {}
    for nm, fn, main in (("real", "create_new_session", True), ("hook", "verif_create_new_session", False)):
        f = fn_view(s, fn, main=main)
        sets = [m.start() for m in f.finditer(r"\.\s*set_seq\s*\(")] if f else []
        adds = [m.start() for m in f.finditer(r"\.\s*add_idle_session\s*\(")] if f else []
        if not f:
            problem(f"{nm} copy of create_new_session not found", rel, [f"client_seq_set_before_add_{nm}"])
        out[f"client_seq_set_before_add_{nm}"] = _bool(bool(sets) and bool(adds) and max(sets) < min(adds))
    return out


item(rel, [("client_seq_set_before_add_real", "bool", "false"), ("client_seq_set_before_add_hook", "bool", "false")], _seq_order)
rel = "src/session/session.rs"
emit(f"(* {rel}: Session::seq before set_seq *)")


def _initial_seq():
    f = fn_view(S(rel), "new_client")
    env = local_env(f) if f else {}
    e = field_expr(f, "seq", env) if f else None
    v = try_ev(ev_int, unwrap_ctor(e), rel, env) if e is not None else None
    if v is None:
        problem(f"new_client.seq is not a constant ({e!r})", rel, ["session_initial_seq"])
        return {}
    return {"session_initial_seq": str(v)}


item(rel, [("session_initial_seq", "N", "missing_N")], _initial_seq)
rel = "src/client/session_pool.rs"
emit(f"(* {rel}: each reaper copy scans, removes from the map and closes under ONE write guard (no read-lock scan, no drop before the closes) *)")
_WRITE = r"\bidle_sessions\s*\.\s*write\s*\(\s*\)\s*\.\s*await\b"


def _pool_atomic():
    s = S(rel)
    flags = []
    for fn in _REAPERS:
        f = fn_view(s, fn)
        ok = False
        if f:
            w = [m.start() for m in f.finditer(_WRITE)]
            gm = f.search(r"\blet\s+(?:mut\s+)?(%s)\s*(?::[^=;]+)?=\s*[\w.\s]*?%s" % (_ID, _WRITE[2:]))
            g = gm.group(1) if gm else None
            lp = f.search(r"\bin\s+%s\s*\.\s*iter\s*\(" % re.escape(g)) if g else None
            rm = f.search(r"\b%s\s*\.\s*remove\s*\(" % re.escape(g), lp.end()) if lp else None
            cl = f.search(r"\.\s*close\s*\(\s*\)\s*\.\s*await\b", rm.end()) if rm else None
            ok = len(w) == 1 and bool(cl) and w[0] < lp.start() and not re.search(r"\.\s*read\s*\(\s*\)\s*\.\s*await\b", f.code) \
                and not re.search(r"\bdrop\s*\(\s*%s\s*\)" % re.escape(g), f.code) and not re.search(r"\.\s*retain\s*\(", f.code)
        flags.append(ok)
    g = fn_view(s, "get_idle_session")
    return {"pool_reap_atomic_under_write_guard": "[" + "; ".join(_bool(x) for x in flags) + "]",
            "pool_get_under_write_guard": _bool(bool(g) and bool(re.search(_WRITE, g.code)) and not re.search(r"\.\s*read\s*\(\s*\)\s*\.\s*await\b", g.code))}


item(rel, [("pool_reap_atomic_under_write_guard", "list bool", "[]"), ("pool_get_under_write_guard", "bool", "false")], _pool_atomic)
rel = "src/session/session.rs"
emit(f"(* {rel}: the outstanding request and its response baseline are recorded BEFORE the HeartRequest is written, the baseline being the counter value loaded at the wake *)")


def _hb_baseline():
    hb = heartbeat_task()
    if not hb or not hb["out"] or not hb["cur"]:
        return {"hb_baseline_before_write": "false"}
    h = hb["v"]
    rec = [m.start() for m in h.finditer(r"\b%s\s*=\s*Some\s*\(" % re.escape(hb["out"]))]
    good = h.search(r"\b%s\s*=\s*Some\s*\(\s*\(\s*(?:tokio\s*::\s*time\s*::\s*)?Instant\s*::\s*now\s*\(\s*\)\s*,\s*%s\s*\)\s*\)" % (re.escape(hb["out"]), re.escape(hb["cur"])))
    hr = h.search(r"\bCommand\s*::\s*HeartRequest\b")
    i_wr = -1
    if hr:
        calls = [m for m in h.finditer(r"\.\s*write_(?:control_)?frame\s*\(") if m.start() < hr.start() <= match_close(h.code, m.end() - 1)]
        if calls:
            i_wr = calls[-1].start()
        else:
            lm = [m for m in h.finditer(r"\blet\s+(%s)\s*(?::[^=;]+)?=" % _ID) if m.end() <= hr.start() and ";" not in h.code[m.end():hr.start()]]
            w = h.search(r"\.\s*write_(?:control_)?frame\s*\(\s*%s\b" % re.escape(lm[-1].group(1)), hr.end()) if lm else None
            i_wr = w.start() if w else -1
    loads = len(re.findall(r"\.\s*responses\s*\.\s*load\s*\(", h.code))
    return {"hb_baseline_before_write": _bool(bool(good) and len(rec) == 1 and 0 <= good.start() < i_wr and loads == 1)}


item(rel, [("hb_baseline_before_write", "bool", "false")], _hb_baseline)

# ---------------------------------------------------------------- parsers package (C07/C15): UDP-over-TCP glue
emit()
emit("(* parsers package: src/server/udp_proxy.rs, src/client/udp_client.rs *)")
rel = "src/server/udp_proxy.rs"


def _udp_bind():
    s = S(rel)
    v = V(s.mcode, s.mtext, s)
    binds = [m for m in v.finditer(r"\bUdpSocket\s*::\s*bind\s*\(")]
    ok = bool(binds)
    for m in binds:
        a = call_args(v, m.end() - 1)
        f = enclosing_fn(s, m.start())
        env = local_env(f)
        if len(a) != 1 or not re.fullmatch(_ID, a[0]) or a[0] not in env:
            ok = False
            continue
        e = env[a[0]]
        ecode = re.sub(r'"[^"]*"', lambda k: '"' + "~" * (len(k.group(0)) - 2) + '"', e)
        v6 = v4 = None
        m1 = re.fullmatch(r"if\s+(!?)\s*\w+\s*\.\s*is_ipv([46])\s*\(\s*\)\s*\{([^{}]*)\}\s*else\s*\{([^{}]*)\}", ecode, re.S)
        if m1:
            t = re.fullmatch(r"if\s+(!?)\s*\w+\s*\.\s*is_ipv([46])\s*\(\s*\)\s*\{([^{}]*)\}\s*else\s*\{([^{}]*)\}", e, re.S)
            then6 = (t.group(2) == "6") != bool(t.group(1))
            v6, v4 = (t.group(3), t.group(4)) if then6 else (t.group(4), t.group(3))
        else:
            m2 = re.fullmatch(r"match\s+\*?\s*&?\s*\w+\s*\{(.*)\}", e, re.S)
            if m2:
                for pat, rhs in match_arms(V(e, e), e.find("{")):
                    pat = re.sub(r"\s+", "", pat)
                    if re.fullmatch(r"(?:std::net::)?SocketAddr::V6\((?:_|\.\.|_\w*)\)", pat):
                        v6 = rhs
                    elif re.fullmatch(r"(?:std::net::)?SocketAddr::V4\((?:_|\.\.|_\w*)\)", pat):
                        v4 = rhs
        b6 = try_ev(ev_bytes, v6.strip(), rel) if v6 else None
        b4 = try_ev(ev_bytes, v4.strip(), rel) if v4 else None
        ok = ok and b6 == b"[::]:0" and b4 == b"0.0.0.0:0"
    return {"udp_server_bind_follows_target": _bool(ok)}


item(rel, [("udp_server_bind_follows_target", "bool", "false")], _udp_bind)


def _empty_ends(rel, name):
    def run():
        f = fn_view(S(rel), "stream_to_udp")
        if not f:
            problem("stream_to_udp not found", rel, [name])
            return {name: "true"}
        ends = False
        for cond, blk, pos in iter_ifs(f):
            c = squash(cond.code)
            if (re.search(r"\.is_empty\(\)", c) and not c.startswith("!")) or re.search(r"\.len\(\)==0\b|\b0==\w+\.len\(\)|\.len\(\)<1\b", c):
                ends = ends or bool(re.search(r"\bbreak\b|\breturn\b", blk.code))
        return {name: _bool(ends)}
    item(rel, [(name, "bool", "true")], run)


_empty_ends("src/server/udp_proxy.rs", "udp_empty_datagram_ends_server")
_empty_ends("src/client/udp_client.rs", "udp_empty_datagram_ends_client")

# ---------------------------------------------------------------- parsers package (C06): shape of the authentication gate
emit()
emit("(* parsers package: src/util/auth.rs authenticate_client, src/server/server.rs handle_connection *)")
rel = "src/util/auth.rs"


def _auth():
    names = ["auth_hash_len", "auth_compares_whole_arrays"]
    s = S(rel)
    f = fn_view(s, "authenticate_client", inline=False)
    if not f:
        problem("authenticate_client not found", rel, names)
        return {}
    out = {}
    env = local_env(f)
    # the first thing read is an array of <const> bytes, read whole with read_exact
    hm = f.search(r"\blet\s+mut\s+(%s)\s*(?::[^=;]+)?=\s*\[\s*0(?:u8)?\s*;([^\]]+)\]\s*;\s*\w+\s*\.\s*read_exact\s*\(\s*&\s*mut\s+(%s)\s*\)\s*\.\s*await\s*\?\s*;" % (_ID, _ID))
    first_read = f.search(r"\.\s*read\w*\s*\(")
    n = try_ev(ev_int, f.text[hm.start(2):hm.end(2)], rel, env) if hm and hm.group(1) == hm.group(3) else None
    if n is None or (first_read and first_read.start() < hm.start()):
        problem("the 32-byte hash read not found", rel, names[:1])
    else:
        out["auth_hash_len"] = str(n)
    # the received array is compared as a whole with the expected array, and a mismatch returns AuthenticationFailed
    params = [p.strip().split(":")[0].strip() for p, _ in split_top(f.code[f.code.find("(") + 1:match_close(f.code, f.code.find("("))], [","])]
    expected = params[1] if len(params) > 1 else None
    whole = False

    def strip_ref(t):
        return re.sub(r"^[*&]+", "", t)
    helpers = {nm: (a, bo, bc) for nm, a, bo, bc, p in fn_spans(s.mcode) if not p}
    for cond, blk, pos in iter_ifs(f) if hm and expected else []:
        if not re.match(r"\{\s*return\s+Err\s*\(\s*(?:AnyTlsError\s*::\s*)?AuthenticationFailed\s*\)\s*;?\s*\}", blk.code):
            continue
        c = parse_cmp(cond.code)
        if c and c[1] == "!=" and {strip_ref(c[0]), strip_ref(c[2])} == {hm.group(1), expected}:
            whole = True
        cm = re.fullmatch(r"\s*(!?)\s*(%s)\s*\(([^()]*)\)\s*" % _ID, cond.code)
        if cm and cm.group(2) in helpers:         # one level: a private helper that is itself one whole-array comparison
            a, bo, bc = helpers[cm.group(2)]
            sig = s.mcode[a:bo]
            ps = [p.strip().split(":")[0].strip() for p, _ in split_top(sig[sig.find("(") + 1:match_close(sig, sig.find("("))], [","])]
            args = [strip_ref(x.strip()) for x in cm.group(3).split(",")]
            hc = parse_cmp(re.sub(r"^\{\s*(?:return\s+)?|;?\s*\}\s*$", "", s.mcode[bo:bc + 1].strip()))
            if hc and len(ps) == 2 and set(args) == {hm.group(1), expected} and {strip_ref(hc[0]), strip_ref(hc[2])} == set(ps) \
                    and hc[1] == ("==" if cm.group(1) else "!="):
                whole = True
    uses = len(re.findall(r"(?<![A-Za-z0-9_])%s(?![A-Za-z0-9_])" % re.escape(expected), f.code)) if expected else 0
    out["auth_compares_whole_arrays"] = _bool(whole and uses == 2)
    return out


item(rel, [("auth_hash_len", "N", "missing_N"), ("auth_compares_whole_arrays", "bool", "false")], _auth)
rel = "src/server/server.rs"


def _auth_gate():
    f = fn_view(S(rel), "handle_connection")
    if not f:
        problem("handle_connection not found", rel, ["auth_result_propagated_directly"])
        return {"auth_result_propagated_directly": "false"}
    # the result of authenticate_client is propagated directly with `.await?` as a statement of its own at the top level of
    # the function (no wrapper such as timeout/select, no branch in which the function continues without an Ok), exactly one
    # call, before the session is built
    calls = [m for m in f.finditer(r"\bauthenticate_client\s*\(")]
    sess = f.search(r"\bSession\s*::\s*new_server\b")
    gate = False
    if len(calls) == 1 and sess:
        m = calls[0]
        close = match_close(f.code, m.end() - 1)
        sig_end = f.code.find("{", match_close(f.code, f.code.find("(")))
        depth = f.code[sig_end:m.start()].count("{") - f.code[sig_end:m.start()].count("}")
        before = f.code[:m.start()].rstrip()
        stmt_start = before.endswith((";", "{", "}")) or bool(re.search(r"[;{}]\s*let\s+(?:\(\s*\)|_\w*)\s*(?::\s*\(\s*\)\s*)?=$", before))
        after = re.match(r"\s*\.\s*await\s*(?:\.\s*(?:inspect_err|map_err)\s*\((?:[^()]|\([^()]*\))*\)\s*)*\?\s*;", f.code[close + 1:])
        gate = depth == 1 and stmt_start and bool(after) and close < sess.start()
    return {"auth_result_propagated_directly": _bool(gate)}


item(rel, [("auth_result_propagated_directly", "bool", "false")], _auth_gate)


# ---------------------------------------------------------------- relay loops (C01 tunnel theorems, Model/Relay.v)
emit()
emit("(* the copy loops of a proxied connection: server/handler.rs, client/socks5.rs, client/http_proxy.rs *)")
RELAY_FNS = [("src/server/handler.rs", "proxy_tcp_connection_data_forwarding"),
             ("src/client/socks5.rs", "handle_socks5_connection"),
             ("src/client/http_proxy.rs", "handle_http_proxy_connection")]


def _relay():
    """every loop buffer `let mut b = vec![0u8; K]` of the three relay functions that a sink call is handed a piece of
    (write_all / write / write_data_frame / send_data): K; and for every such sink call: the piece is `b[..n]` with `n` bound to
    the result of the read into that same buffer, and a TCP sink is written with write_all"""
    names = ["relay_buf_sizes", "relay_sinks_take_read_prefix"]
    sizes, exact = [], True
    for rel_, fn in RELAY_FNS:
        f = fn_view(S(rel_), fn, inline=False)
        if not f:
            problem(f"{fn} not found", rel_, names)
            return {}
        for m in f.finditer(r"\blet\s+mut\s+(\w+)\s*=\s*vec!\s*\[\s*0u8\s*;"):
            b = m.group(1)
            scope_end = len(f.code)
            # the buffer lives until the block it is declared in ends
            depth = 0
            for i in range(m.end(), len(f.code)):
                ch = f.code[i]
                if ch == "{":
                    depth += 1
                elif ch == "}":
                    depth -= 1
                    if depth < 0:
                        scope_end = i
                        break
            body = f.code[m.end():scope_end]
            # the variables bound to the result of a read into b
            ns = set()
            for lm in re.finditer(r"\blet\s+(\w+)\s*=", body):
                init = body[lm.end():lm.end() + 1500]
                k = init.find(".read(&mut " + b + ")")
                if k < 0:
                    continue
                depth, ok = 0, True
                for ch in init[:k]:
                    if ch in "{(":
                        depth += 1
                    elif ch in "})":
                        depth -= 1
                    elif ch == ";" and depth == 0:
                        ok = False
                        break
                if ok:
                    ns.add(lm.group(1))
            sinks = 0
            for sm in re.finditer(r"\.\s*(write_all|write|write_data_frame|send_data)\s*\(", body):
                close = match_close(body, sm.end() - 1)
                args = squash(body[sm.end():close])
                if not re.search(r"(?<![A-Za-z0-9_])%s(?![A-Za-z0-9_])" % re.escape(b), args):
                    continue
                sinks += 1
                sl = re.search(r"(?<![A-Za-z0-9_])%s\[\.\.(\w+)\]" % re.escape(b), args)
                if not sl or sl.group(1) not in ns or sm.group(1) == "write":
                    exact = False
            if sinks == 0:
                continue            # not a relay buffer (e.g. a parser's scratch vector)
            close = match_close(f.code, f.code.find("[", m.start()))
            expr = f.text[f.code.find(";", m.start()) + 1:close]
            v = try_ev(ev_int, expr, rel_, local_env(f))
            if v is None:
                problem(f"{fn}: relay buffer size `{expr.strip()}` cannot be evaluated", rel_, names)
                return {}
            if sinks != 1:
                exact = False       # one loop, one sink
            sizes.append(v)
    if not sizes:
        problem("no relay loop found (a zeroed buffer that is read into and handed to write_all / write_data_frame / send_data)", RELAY_FNS[0][0], names)
        return {}
    return {"relay_buf_sizes": "[" + "; ".join(str(x) for x in sizes) + "]", "relay_sinks_take_read_prefix": _bool(exact)}


item(RELAY_FNS[0][0], [("relay_buf_sizes", "list N", "[]"), ("relay_sinks_take_read_prefix", "bool", "false")], _relay,
     files=[r for r, _ in RELAY_FNS])

# ======================================================================================== write
for rel_, s_ in list(_SRCS.items()):
    if not s_.ok:
        problem(f"cannot read ({s_.err})", rel_, [n for n, fs in defined.items() if rel_ in fs])
text = "\n".join(lines) + "\n"
os.makedirs(os.path.dirname(os.path.abspath(OUT)), exist_ok=True)
old = None
try:
    with open(OUT) as f:
        old = f.read()
except OSError:
    pass
if old != text:
    with open(OUT, "w") as f:
        f.write(text)
print(json.dumps({"problems": problems, "changed": old != text}))
