HOOK_COMMITS = ["89eb8ba", "cf2362c"]
PENDING = "not claimed yet: the model, theorems and correspondence driver for this property are still being built in this round (see DESIGN.md Appendix D for the order of work); no technique other than Coq proof is substituted"
CLAIMED = {
 "C03": {
  "text": "Full: theorems C03_roundtrip, C03_len_field, C03_oversize, C03_total, C03_incomplete_untouched, C03_sequence, C03_chunking, C03_unknown_is_waste, C03_cmd_byte are proved in Coq for all command bytes, all stream ids < 2^32, all payloads and all fragmentations (no bound), about the Gallina model Model/Frame.v of FrameCodec; the command table, header size and the encoder's oversize guard are regenerated from the Rust source on every run and pinned by side lemmas; the model is run (extracted to OCaml) against the real FrameCodec on ~1900 (quick) generated encode / streaming-decode cases, and an independent reference parser checks the implementation's output.",
  "note": "Trusted: Coq kernel, tools/gen_constants.py, extraction (ExtrOcamlBasic only) + extract/driver.ml, harness, the differential sampling that ties Model/Frame.v to src/protocol/codec.rs; bytes::BytesMut and tokio_util codec traits are modelled as lists.",
 },
}
NOT_APPLICABLE = {("C%02d" % i): PENDING for i in range(1, 21) if ("C%02d" % i) not in CLAIMED}
