#!/usr/bin/env python3
"""Regenerates the table of §11 of DESIGN.md from seeded/*/meta.json (between the SEEDED-TABLE markers)."""
import glob, json, os, re
V = os.path.dirname(os.path.dirname(os.path.abspath(__file__)))
rows = []
for f in sorted(glob.glob(os.path.join(V, "seeded", "*", "meta.json"))):
    m = json.load(open(f))
    sid = m.get("seeded_id", os.path.basename(os.path.dirname(f)))
    verdicts = []
    for p, c in sorted(m.get("checks", {}).items()):
        if c.get("violation_line"):
            v = "tie" if "no-failing-input-found" in c["violation_line"] else "concrete"
            d = (c.get("detail") or [""])[0]
            d = re.sub(r"^(oracle|broken): ", "", d)
            verdicts.append("%s: **%s** — %s" % (p, v, d[:140].replace("|", "/")))
        else:
            verdicts.append("%s: silent" % p)
    note = m.get("coordinator_note", "")
    rows.append("| `%s` | %s | %s | %s%s |" % (sid, m.get("what", "")[:200].replace("|", "/"), m.get("needs", "")[:160].replace("|", "/"),
                                              "<br>".join(verdicts), ("<br>" + note) if note else ""))
table = "| seeded change | what it does | needs | checks |\n|---|---|---|---|\n" + "\n".join(rows)
p = os.path.join(V, "DESIGN.md")
s = open(p).read()
_new = "<!-- SEEDED-TABLE-BEGIN -->\n" + table + "\n<!-- SEEDED-TABLE-END -->"
s = re.sub(r"<!-- SEEDED-TABLE-BEGIN -->.*?<!-- SEEDED-TABLE-END -->", lambda m: _new, s, flags=re.S)
# ---- behaviour-preserving patches (benign/*/meta.json)
brows = []
for f in sorted(glob.glob(os.path.join(V, "benign", "*", "meta.json"))):
    m = json.load(open(f))
    bid = m.get("benign_id", os.path.basename(os.path.dirname(f)))
    ch = m.get("checks", {})
    if not ch:
        verdict = "not run yet"
    else:
        bad = {k: v for k, v in ch.items() if v.get("verdict") != "ok"}
        verdict = "all %d checks ok" % len(ch) if not bad else "; ".join("%s: %s — %s" % (k, v.get("verdict"), ((v.get("detail") or [""])[0])[:100].replace("|", "/")) for k, v in sorted(bad.items()))
    brows.append("| `%s` | %s | %s | %s |" % (bid, ", ".join(os.path.basename(x) for x in m.get("files", []))[:120], m.get("what", "")[:260].replace("|", "/").replace("\n", " "), verdict))
btable = "| patch | files | what it changes (behaviour-preserving) | the 20 quick checks against it |\n|---|---|---|---|\n" + "\n".join(brows)
_bnew = "<!-- BENIGN-TABLE-BEGIN -->\n" + btable + "\n<!-- BENIGN-TABLE-END -->"
if "<!-- BENIGN-TABLE-BEGIN -->" in s:
    s = re.sub(r"<!-- BENIGN-TABLE-BEGIN -->.*?<!-- BENIGN-TABLE-END -->", lambda m: _bnew, s, flags=re.S)
open(p, "w").write(s)
print("%d seeded changes, %d benign patches in the tables" % (len(rows), len(brows)))
