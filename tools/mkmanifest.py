#!/usr/bin/env python3
"""Regenerates MANIFEST.json from tools/manifest_data.py (one place to keep it valid)."""
import json, os, sys
sys.path.insert(0, os.path.dirname(os.path.abspath(__file__)))
from manifest_data import CLAIMED, NOT_APPLICABLE, HOOK_COMMITS
V = os.path.dirname(os.path.dirname(os.path.abspath(__file__)))
checks = []
for pid, d in sorted(CLAIMED.items()):
    checks.append({
        "property_id": pid,
        "quick_cmd": "./check %s --tier quick" % pid,
        "thorough_cmd": "./check %s --tier thorough" % pid,
        "evidence_file": "/verif/evidence/%s.json" % pid,
        "replay_cmd_template": "./check %s --replay {path}" % pid,
        "engine": "coq-model+correspondence",
        "level_claimed": {"category": "proof", "text": d["text"], "design_ref": d.get("ref", "DESIGN.md §6 " + pid)},
        "level_note": d["note"],
        "technique": d.get("technique", "machine-checked proof in Coq 8.16 over an executable Gallina model; model tied to the Rust code by regenerated constants (side lemmas) and differential execution of the extracted model against the implementation"),
    })
m = {
    "version": 1,
    "setup_cmd": "./check --setup",
    "hooks": {
        "guard": "anytls_rs_verif",
        "enable": "RUSTFLAGS=\"--cfg anytls_rs_verif\" (set by ./check when building harness/ against /repo through a path dependency)",
        "baseline_off_cmd": "cd /repo && cargo test --workspace --no-fail-fast --offline",
        "source_commits": HOOK_COMMITS,
        "add_only": True,
    },
    "engines": [{"name": "coq-model+correspondence", "path": "/verif/check",
                 "serves_properties": sorted(CLAIMED.keys()),
                 "kind_free_text": "Coq 8.16 theorems about hand-written executable Gallina models (coq/), constants regenerated from the Rust source each run (tools/gen_constants.py), extraction to OCaml (extract/), Rust harness running the real code (harness/), Python orchestration, generators and reference oracles (tools/)"}],
    "checks": checks,
    "not_applicable": [{"property_id": k, "reason": v} for k, v in sorted(NOT_APPLICABLE.items())],
    "notes": "See DESIGN.md. Every check: regenerate constants from /repo, compile the property's theorems (full .vo), audit assumptions, rebuild the harness against /repo's working tree with the hook guard on, run corpus + generated cases through implementation, extracted model and an independent reference oracle.",
}
json.dump(m, open(os.path.join(V, "MANIFEST.json"), "w"), indent=1)
print("MANIFEST.json: %d checks, %d not_applicable" % (len(checks), len(m["not_applicable"])))
