"""Shared pieces of the "timed" work package (C12, C13, C14): case generators for the drivers
pool / bpool / poolreal / hb (harness/src/drv_timed.rs, extract/drv_timed.ml) and the reference
bookkeeping the oracles use. The oracles are written from the property texts: they look only at the
history (the case) and at what the IMPLEMENTATION printed, never at the model's output.

Line formats
  pool|poolreal <I> <T> <M> <t:op>...   ops r a c d<k> x<k> t     result per op: <res>/i<idle>,{L|C}<tbl>...  + dials=<n>
  bpool         <I> <T> <M> <t:op>...   ops n<seq> i<k> g x<k> e t result per op: <res>/i<idle>,{L|C}...
  hb <mode> <I> <T> <H> <delay|x>...                                result: q <request times> | c <t>  or  | o
All times in ms."""
from .base import *


# ----------------------------------------------------------------------------- parsing
def parse_ops(args):
    I, T, M = int(args[0]), int(args[1]), int(args[2])
    ops = []
    for a in args[3:]:
        t, r = a.split(":", 1)
        ops.append((int(t), r[0], int(r[1:]) if len(r) > 1 else 0))
    return I, T, M, ops


def parse_pool_result(ir, with_tbl=True):
    """-> (steps, dials) ; steps = [(res, idle, [(closed, tbl)])] ; None if malformed"""
    steps, dials = [], None
    try:
        for tok in ir.split():
            if tok.startswith("dials="):
                dials = int(tok[6:])
                continue
            res, snap = tok.split("/", 1)
            parts = snap.split(",")
            idle = int(parts[0][1:])
            sess = []
            for p in parts[1:]:
                if p[0] not in "LC":
                    return None, None
                sess.append((p[0] == "C", int(p[1:]) if len(p) > 1 else 0))
            steps.append((res, idle, sess))
    except (ValueError, IndexError):
        return None, None
    return steps, dials


# ----------------------------------------------------------------------------- findings of one pool history
class Finding:
    def __init__(self, kind, text, **facts):
        self.kind, self.text, self.facts = kind, text, facts

    def render(self):
        f = " ".join("%s=%s" % (k, self.facts[k]) for k in sorted(self.facts))
        return "[%s%s] %s" % (self.kind, (" " + f) if f else "", self.text)


def analyse_client(case, ir):
    """Walk a pool / poolreal history with the implementation's observations; return the list of Findings
    (all property-level: C12 and C13 pick the kinds they own)."""
    I, T, M, ops = parse_ops(case.args)
    steps, dials = parse_pool_result(ir)
    out = []
    if steps is None or len(steps) != len(ops) or dials is None:
        return [Finding("malformed", "implementation result cannot be read: %s" % ir[:200])]
    nsess = 0                 # sessions seen so far
    closed = []               # flags from the previous snapshot
    busy = []                 # ghost: open streams per session (request holds it until d<k>)
    reused = []               # session was handed out by a reuse at least once (=> taken out of the idle map)
    waiting = 0               # requests inside create_new_session (gated dials)
    active, peak = 0, 0       # requests in progress
    dead_unpurged = 0         # sessions killed from outside since the last reaper pass (may still sit in the map)
    last_activity = None      # instant of the last request / dial completion (anything that can insert)
    prev_idle = 0
    ndials = 0
    for (t, op, n), (res, idle, sess) in zip(ops, steps):
        if res == "err":
            out.append(Finding("request_failed", "the request at %d failed (create_proxy_stream returned an error) although the server side is healthy: it was given a session it could not open a stream on" % t))
        elif res in ("panic", "stuck", "unknown"):
            out.append(Finding("malformed", "operation %s at %d ended with %s" % (op, t, res)))
        flags = [c for c, _ in sess]
        if len(sess) < nsess:
            out.append(Finding("malformed", "sessions disappeared from the snapshot at %d" % t))
            return out
        live_before = [k for k in range(nsess) if not closed[k]]
        # ---- a burst of overlapping requests (poolreal `b<k>`): every token is one request's outcome
        if op == "b":
            toks = res.split("+") if res else []
            if len(toks) != n or any(x[:1] not in "nu" for x in toks):
                out.append(Finding("request_failed", "burst of %d requests at %d ended with %s" % (n, t, res)))
            last_activity = t
            for x in sorted(toks, key=lambda y: (y[:1] != "u", int(y[1:]) if y[1:].isdigit() else 0)):
                if x[:1] not in "nu" or not x[1:].isdigit():
                    continue
                k = int(x[1:])
                active += 1
                peak = max(peak, active)
                if x[0] == "n":
                    ndials += 1
                    if k != nsess:
                        out.append(Finding("identity", "a new session got index %d but %d sessions exist" % (k, nsess)))
                    nsess += 1
                elif k >= nsess or closed[k]:
                    out.append(Finding("handed_closed", "request at %d was handed session %d, which was closed or never created" % (t, k)))
                while len(busy) <= k:
                    busy.append(0); reused.append(False); closed.append(False)
                busy[k] += 1
                if x[0] == "u":
                    reused[k] = True
                if k < len(flags) and flags[k]:
                    out.append(Finding("handed_closed", "request at %d got session %d, closed right after being handed out" % (t, k)))
            nsess = min(nsess, len(closed))
        # ---- requests
        if op in "rac" and res[:1] in "nu":
            try:
                k = int(res[1:])
            except ValueError:
                out.append(Finding("malformed", "bad result %s" % res)); return out
            if res[0] == "n":
                if k != nsess:
                    out.append(Finding("identity", "a new session got index %d but %d sessions exist" % (k, nsess)))
            else:
                if k >= nsess:
                    out.append(Finding("identity", "reuse returned session %d which was never created" % k))
                elif closed[k]:
                    out.append(Finding("handed_closed", "request at %d was handed session %d, which was already closed" % (t, k)))
            if k < len(flags) and flags[k]:
                out.append(Finding("handed_closed", "request at %d got session %d, closed right after being handed out" % (t, k)))
        if op in "ra":
            overlapping = active > 0
            active += 1
            peak = max(peak, active)
            last_activity = t
            dialled = res[:1] in ("n", "p")
            if dialled:
                ndials += 1
            if dialled and live_before and not overlapping:
                allreused = all(reused[k] for k in live_before)
                out.append(Finding("redial", "request at %d dialled a new connection although session(s) %s were established and healthy and no other request was in progress"
                                   % (t, live_before), all_live_reused_before=int(allreused), nth_request=sum(1 for (_, o, _) in ops[:ops.index((t, op, n)) + 1] if o in "ra")))
            if res == "p":
                waiting += 1
        if op == "c" and res[:1] == "n":
            waiting = max(0, waiting - 1)
            last_activity = t
        if op in "rac" and res[:1] in "nu":
            k = int(res[1:])
            while len(busy) <= k:
                busy.append(0); reused.append(False); closed.append(False)
            busy[k] += 1
            if res[0] == "u":
                reused[k] = True
        if op == "d" and n < len(busy) and busy[n] > 0:
            busy[n] -= 1
            active -= 1
        if op == "D":
            busy = [0] * len(busy)
            active = 0
        # ---- sessions newly closed at this step
        newly = [k for k in range(min(nsess, len(flags))) if flags[k] and not closed[k]]
        if op == "x":
            for k in newly:
                if k != n:
                    out.append(Finding("closed_outside", "session %d was closed at %d while only session %d was killed" % (k, t, n)))
            if n < nsess and not closed[n]:
                dead_unpurged += 1
        elif op == "t":
            for k in newly:
                if busy[k] > 0:
                    out.append(Finding("reaper_closed_busy", "the reaper pass at %d closed session %d, which carries %d live stream(s)" % (t, k, busy[k]),
                                       never_reused=int(not reused[k]), session=k, min_idle=M))
            # sessions the pool must still hold after the pass: live and never handed out for reuse (a reused
            # session has left the idle map for good: known finding F3). The reaper may close such a session only beyond the
            # first min_idle of them -- a dead entry does not count towards the minimum
            # (whether such a session carries a stream is immaterial here: the idle map also holds sessions with their
            # first stream open, known finding F2 -- what the pass closes among them is judged by reaper_closed_busy)
            cand_after = [k for k in range(min(nsess, len(flags))) if not flags[k] and not reused[k]]
            cand_closed = [k for k in newly if not reused[k]]
            if cand_closed and len(cand_after) < min(M, len(cand_after) + len(cand_closed)):
                out.append(Finding("min_idle", "the reaper pass at %d closed the healthy pooled session(s) %s and left %d healthy pooled session(s) in all; "
                                   "min_idle=%d of them must stay (a dead session in the pool does not count)" % (t, cand_closed, len(cand_after), M)))
            lb = max(0, prev_idle - dead_unpurged)
            if idle < min(M, lb):
                out.append(Finding("min_idle", "the reaper pass at %d left %d idle session(s); at least min(min_idle=%d, %d live idle before) must stay" % (t, idle, M, lb)))
            if last_activity is not None and waiting == 0 and t >= last_activity + T and idle > M:
                out.append(Finding("surplus", "nothing was added since %d, yet after the pass at %d (>= +timeout %d) %d sessions are idle (min_idle %d)" % (last_activity, t, T, idle, M)))
            dead_unpurged = 0
        else:
            for k in newly:
                out.append(Finding("closed_outside", "session %d was closed at %d (op %s) outside a reaper pass and without being killed" % (k, t, op), busy=busy[k] if k < len(busy) else 0))
        # ---- bounded
        nsess = len(flags)
        while len(busy) < nsess:
            busy.append(0); reused.append(False)
        closed = flags
        live = [k for k in range(nsess) if not closed[k]]
        if len(live) > peak + M:
            fresh = [k for k in live if not reused[k]]
            out.append(Finding("bounded", "%d sessions are live at %d; peak concurrent requests %d + min_idle %d" % (len(live), t, peak, M),
                               live_never_reused_within_bound=int(len(fresh) <= peak + M)))
        prev_idle = idle
    if dials != ndials:
        out.append(Finding("dials_mismatch", "%d connections were dialled but %d requests reported a dial" % (dials, ndials)))
    return out


def analyse_bare(case, ir):
    I, T, M, ops = parse_ops(case.args)
    steps, _ = parse_pool_result(ir)
    out = []
    if steps is None or len(steps) != len(ops):
        return [Finding("malformed", "implementation result cannot be read: %s" % ir[:200])]
    closed, prev_idle, dead_unpurged, last_insert = [], 0, 0, None
    held = set()              # sessions handed out by get_idle_session and not given back since: in use by the caller
    for (t, op, n), (res, idle, sess) in zip(ops, steps):
        flags = [c for c, _ in sess]
        nsess = len(closed)
        if op in "gGE" and res.startswith("s") and res[1:].isdigit():
            k = int(res[1:])
            if k >= nsess or closed[k]:
                out.append(Finding("handed_closed", "get_idle_session at %d returned session %d, which is closed" % (t, k)))
            elif k < len(flags) and flags[k]:
                out.append(Finding("handed_closed", "get_idle_session at %d (%s) handed out session %d and the pool then closed it: a session in use was torn down by pool housekeeping"
                                   % (t, "during a reaper pass" if op in "GE" else "plain", k)))
            held.add(k)
        if op in "gGE" and res in ("unknown", "get-stuck"):
            out.append(Finding("identity" if res == "unknown" else "malformed", "get_idle_session at %d: %s" % (t, res)))
        if op == "i":
            held.discard(n)
        newly = [k for k in range(min(nsess, len(flags))) if flags[k] and not closed[k]]
        if op == "x":
            for k in newly:
                if k != n:
                    out.append(Finding("closed_outside", "session %d closed at %d while session %d was killed" % (k, t, n)))
            if n < nsess and not closed[n]:
                dead_unpurged += 1
        elif op in "GE":
            for k in newly:
                if k in held and not (res.startswith("s") and res[1:] == str(k)):
                    out.append(Finding("closed_in_use", "the reaper pass at %d closed session %d, which had been handed out to a caller" % (t, k)))
            dead_unpurged = 0
        elif op in "te":
            for k in newly:
                if k in held:
                    out.append(Finding("closed_in_use", "the reaper pass at %d closed session %d, which had been handed out to a caller" % (t, k)))
            lb = max(0, prev_idle - dead_unpurged)
            if idle < min(M, lb):
                out.append(Finding("min_idle", "the reaper pass at %d left %d idle session(s); at least min(min_idle=%d, %d live idle before) must stay" % (t, idle, M, lb)))
            if last_insert is not None and t >= last_insert + T and idle > M:
                out.append(Finding("surplus", "nothing was added since %d, yet after the pass at %d %d sessions are idle (min_idle %d, timeout %d)" % (last_insert, t, idle, M, T)))
            dead_unpurged = 0
        else:
            for k in newly:
                out.append(Finding("closed_outside", "session %d was closed at %d by op %s" % (k, t, op)))
        if op == "i":
            last_insert = t
        closed = flags
        prev_idle = idle
    return out


# ----------------------------------------------------------------------------- generators
def _avoid_ticks(t, I):
    if I > 0 and (t % I < 4 or t % I > I - 4):
        t += 9
    return t


def with_ticks(I, timed_ops, tail):
    """merge reaper ticks (k*I, k >= 1) into the op list up to last op + tail"""
    if not timed_ops:
        return []
    end = timed_ops[-1][0] + tail
    out, k = [], 1
    for (t, s) in timed_ops:
        while I > 0 and k * I < t:
            out.append((k * I, "t")); k += 1
        out.append((t, s))
    while I > 0 and k * I <= end and len(out) < 140:
        out.append((k * I, "t")); k += 1
    return out


POOL_I = [1000, 2000, 3000, 5000, 10000, 30000]
POOL_T = [1000, 2000, 3000, 4000, 5000, 7000, 10000, 30000, 60000]


def gen_client_history(r, long=False):
    I, T, M = r.choice(POOL_I), r.choice(POOL_T), r.choice([0, 0, 1, 1, 2, 3])
    if T > 12 * I:
        T = r.choice([I, 2 * I, 3 * I + 1000])
    gaps = [5, 20, 100, 500, I // 3, I // 2 + 1, I - 10, T // 2, max(5, T - 5), T + 5, I + 3]
    nops = r.randint(3, 60 if long else 22)
    t, ops, created, wait = r.choice([3, 50, 700]), [], 0, 0
    style = r.choice(["seq", "seq", "burst", "mixed", "mixed"])
    for _ in range(nops):
        t = _avoid_ticks(t + r.choice(gaps), I)
        if r.random() < 0.12 and T % I >= 8 and t > T:      # land an insertion exactly `timeout` before a tick
            k = (t + T) // I + 1
            cand = k * I - T
            if cand > t + 3 and cand % I >= 4 and cand % I <= I - 4:
                t = cand
        x = r.random()
        if style == "seq":
            op = "r" if x < 0.5 else ("d%d" % r.randrange(max(1, created))) if x < 0.85 else ("x%d" % r.randrange(max(1, created))) if x < 0.93 else "r"
        elif style == "burst":
            op = "a" if x < 0.35 else "c" if x < 0.6 else "r" if x < 0.7 else ("d%d" % r.randrange(max(1, created + wait))) if x < 0.92 else ("x%d" % r.randrange(max(1, created)))
        else:
            op = "r" if x < 0.3 else "a" if x < 0.45 else "c" if x < 0.6 else ("d%d" % r.randrange(max(1, created + 1))) if x < 0.9 else ("x%d" % r.randrange(max(1, created)))
        if op in ("r", "c"):
            created += 1
        if op == "a":
            wait += 1
        ops.append((t, op))
    # every waiting dial eventually completes, so that no request task outlives the history un-released
    for _ in range(wait):
        t = _avoid_ticks(t + 11, I)
        ops.append((t, "c"))
    ops = with_ticks(I, ops, T + 2 * I)
    return [I, T, M] + ["%d:%s" % (a, b) for a, b in ops]


def gen_bare_history(r, long=False):
    I = r.choice([1000, 2000, 5000, 30000])
    T = r.choice([0, 1000, 3000, 5000, 7000, 60000])
    M = r.choice([0, 0, 1, 2, 3])
    gaps = [5, 20, 100, 500, I // 3, I - 10, max(5, T - 5), T + 5, I + 3]
    t, ops, ns = 3, [], 0
    for _ in range(r.randint(3, 50 if long else 20)):
        t = _avoid_ticks(t + r.choice(gaps), I)
        x = r.random()
        if ns == 0 or x < 0.22:
            ops.append((t, "n%d" % r.choice([0, 1, 2, 3, 5, 5, 7, 9, 4294967296]))); ns += 1
        elif x < 0.55:
            ops.append((t, "i%d" % r.randrange(ns)))
        elif x < 0.72:
            ops.append((t, "g"))
        elif x < 0.84:
            ops.append((t, "x%d" % r.randrange(ns)))
        else:
            ops.append((t, "e"))
    ops = with_ticks(I, ops, T + 2 * I)
    return [I, T, M] + ["%d:%s" % (a, b) for a, b in ops]


def gen_burst_then_seq(r):
    """k overlapping requests through gated dials (all complete), all streams finished, then sequential requests:
    they must reuse the burst's sessions (newest first) without dialling"""
    I, T, M = r.choice([3000, 10000, 30000]), r.choice([20000, 60000]), r.choice([0, 1, 2])
    k = r.randint(2, 4)
    t, ops = r.choice([7, 500, 1200]), []
    for _ in range(k):
        t = _avoid_ticks(t + r.choice([3, 10, 40]), I); ops.append((t, "a"))
    for _ in range(k):
        t = _avoid_ticks(t + r.choice([3, 10, 40]), I); ops.append((t, "c"))
    for j in range(k):
        t = _avoid_ticks(t + r.choice([5, 50]), I); ops.append((t, "d%d" % j))
    # half of the histories: the newest idle session(s) die (peer went away) before the sequential requests; these
    # must skip the dead ones and still reuse an older healthy session without dialling (seed C13-1)
    if r.random() < 0.5:
        for j in range(r.choice([1, 1, 2]) if k > 2 else 1):
            t = _avoid_ticks(t + r.choice([5, 50]), I); ops.append((t, "x%d" % (k - 1 - j)))
    for j in range(r.randint(2, k + 1)):
        t = _avoid_ticks(t + r.choice([20, 300]), I); ops.append((t, "r"))
        if j % 2:
            t = _avoid_ticks(t + 4, I); ops.append((t, "D"))
            continue
        for q in range(k + j):
            t = _avoid_ticks(t + 4, I); ops.append((t, "d%d" % q))
    ops = with_ticks(I, ops, 0)
    return [I, T, M] + ["%d:%s" % (a, b) for a, b in ops]


def gen_big_burst(r):
    """many overlapping requests (more than any plausible internal bound on pooled sessions: 12-48) through gated dials:
    every one of them gets its own new session, and none of these sessions -- each carries its request's stream -- may be
    closed by the pool while the burst is in flight or right after it (seed C12-7: a size cap that evicts the oldest
    pooled session on insertion); then a few completions and sequential requests"""
    I, T, M = r.choice([10000, 30000]), r.choice([30000, 60000]), r.choice([0, 1, 2])
    k = r.choice([12, 17, 18, 24, 33, 48])
    t, ops = r.choice([7, 500]), []
    for _ in range(k):
        t = _avoid_ticks(t + r.choice([1, 3, 10]), I); ops.append((t, "a"))
    for _ in range(k):
        t = _avoid_ticks(t + r.choice([1, 3, 10]), I); ops.append((t, "c"))
    for j in range(r.randint(0, 3)):
        t = _avoid_ticks(t + r.choice([5, 50]), I); ops.append((t, "d%d" % r.randrange(k)))
    for j in range(r.randint(1, 3)):
        t = _avoid_ticks(t + r.choice([20, 300]), I); ops.append((t, "r"))
    ops = with_ticks(I, ops, 0)
    return [I, T, M] + ["%d:%s" % (a, b) for a, b in ops]


def gen_dead_idle_then_quiet(r):
    """k overlapping requests (all complete, all streams finished): k sessions sit in the pool, none ever reused; some of the
    OLDER ones die while idle; then nothing happens for longer than the idle timeout. The reaper must keep min_idle HEALTHY
    sessions (a dead entry does not count towards the minimum) and the next request is served without a dial (seed C13-6)"""
    I, T, M = r.choice([1000, 3000, 10000]), r.choice([2000, 5000, 20000]), r.choice([1, 1, 2])
    k = r.randint(2, 4)
    t, ops = r.choice([7, 500]), []
    for _ in range(k):
        t = _avoid_ticks(t + r.choice([3, 10, 40]), I); ops.append((t, "a"))
    for _ in range(k):
        t = _avoid_ticks(t + r.choice([3, 10, 40]), I); ops.append((t, "c"))
    for j in range(k):
        t = _avoid_ticks(t + r.choice([5, 50]), I); ops.append((t, "d%d" % j))
    for j in range(r.randint(1, k - 1)):
        t = _avoid_ticks(t + r.choice([5, 50]), I); ops.append((t, "x%d" % j))          # the oldest die
    t = _avoid_ticks(t + T + 2 * I + r.choice([7, 333]), I)
    ops.append((t, "r"))
    t = _avoid_ticks(t + 20, I); ops.append((t, "D"))
    ops = with_ticks(I, ops, I)
    return [I, T, M] + ["%d:%s" % (a, b) for a, b in ops]


def gen_slow_pass(r):
    """bare pool: a reaper pass with several victims, the first ones on transports whose shutdown stalls (close waits its
    1 s timeout); a request asks for a session while the pass is running (G: periodic task, E: cleanup_expired)"""
    periodic = r.random() < 0.5
    I = r.choice([10000, 20000]) if periodic else 60000
    T = r.choice([100, 300, 1000])
    M = r.choice([0, 0, 0, 1])
    nslow, nfast = r.choice([1, 1, 2]), r.choice([1, 2, 3])
    seqs = r.sample(range(1, 40), nslow + nfast)
    seqs.sort()
    if r.random() < 0.3:
        r.shuffle(seqs)
    t, ops = 5, []
    kinds = ["N"] * nslow + ["n"] * nfast
    if r.random() < 0.25:
        r.shuffle(kinds)
    for kd, sq in zip(kinds, seqs):
        t += r.choice([3, 10]); ops.append((t, "%s%d" % (kd, sq)))
    for j in range(nslow + nfast):
        t += r.choice([3, 10]); ops.append((t, "i%d" % j))
    delay = r.choice([1, 100, 100, 500, 900, 1100, 1900])
    start = I if periodic else t + T + r.choice([50, 400])
    ops.append((start, ("G%d" if periodic else "E%d") % delay))
    end = start + delay + 1000 * nslow + 4500
    ops.append((end, "g"))
    ops.append((end + 30, "g"))
    if periodic:
        ops = [(a, b) for a, b in ops]
        k = end // I + 1
        ops.append((k * I, "t"))
    return [I, T, M] + ["%d:%s" % (a, b) for a, b in ops]


def pool_nontrivial(args):
    ops = [a.split(":")[1] for a in args[3:]]
    seen_req = False
    for o in ops:
        if o[0] in "raci":
            seen_req = True
        if o[0] in "teGE" and seen_req:
            return len(ops) >= 3
    return False


REAL_CASES = [
    # sequential requests over loopback TLS (real time): the dial pattern and the connections accepted
    ("real-seq", ["2000", "4000", "1", "100:r", "300:d0", "500:r", "700:d0", "900:r", "1100:d1", "1300:r"]),
    # min_idle 0, a stream stays open across two reaper passes (interval = timeout = 1.5 s), then a new request
    ("real-reap", ["1500", "1500", "0", "200:r", "1500:t", "3000:t", "3500:r"]),
    # three overlapping requests dial three sessions; once their streams are finished, three sequential requests must
    # reuse them, newest first, without a fourth connection
    ("real-burst", ["4000", "8000", "1", "100:b3", "600:d0", "650:d1", "700:d2", "800:r", "900:d2", "1000:r", "1100:d1", "1200:r"]),
    # the same, the application finishing ALL its streams between requests (whichever session served them): each of the
    # three sequential requests is non-overlapping and must be served by one of the burst's sessions (seed C13-3)
    ("real-burst-all-done", ["4000", "8000", "1", "100:b3", "600:D", "800:r", "900:D", "1000:r", "1100:D", "1200:r"]),
]
