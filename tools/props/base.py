import hashlib, json, os, random, glob

VERIF = os.path.dirname(os.path.dirname(os.path.dirname(os.path.abspath(__file__))))


def hx(b):
    return bytes(b).hex() if len(b) else "-"


def unhx(s):
    return b"" if s == "-" else bytes.fromhex(s)


class Case:
    def __init__(self, cid, drv, args, kind="", nontrivial=False, meta=None, model=True):
        self.cid, self.drv, self.args = cid, drv, [str(a) for a in args]
        self.kind, self.nontrivial, self.meta, self.model = kind, nontrivial, meta or {}, model

    def line(self):
        return " ".join([self.drv, self.cid] + self.args)

    def model_line(self):
        return self.line() if self.model else None

    def key(self):
        return hashlib.sha256((self.drv + " " + " ".join(self.args)).encode()).hexdigest()

    def to_json(self, full=False):
        if full:
            return {"cid": self.cid, "drv": self.drv, "args": self.args, "kind": self.kind,
                    "nontrivial": self.nontrivial, "meta": self.meta, "model": self.model}
        args = [a if len(a) <= 160 else a[:160] + "...(%d hex chars)" % len(a) for a in self.args]
        return {"cid": self.cid, "drv": self.drv, "args": self.args if sum(map(len, self.args)) < 4000 else args,
                "kind": self.kind, "nontrivial": self.nontrivial, "meta": self.meta, "model": self.model,
                "truncated": sum(map(len, self.args)) >= 4000}

    @staticmethod
    def from_json(j):
        return Case(j["cid"], j["drv"], j["args"], j.get("kind", ""), j.get("nontrivial", False), j.get("meta"), j.get("model", True))


def corpus(pid):
    """corpus/<pid>/*.cases : one case line per line (`drv cid args...`), `#` comments"""
    out = []
    for f in sorted(glob.glob(os.path.join(VERIF, "corpus", pid, "*.cases"))):
        for ln in open(f):
            ln = ln.strip()
            if not ln or ln.startswith("#"):
                continue
            t = ln.split()
            out.append(Case("corpus_" + t[1], t[0], t[2:], kind="corpus", nontrivial=True))
    return out


def rng(seed, stream):
    return random.Random("%s/%s" % (seed, stream))


def rbytes(r, n):
    return bytes(r.getrandbits(8) for _ in range(n)) if n < 64 else r.randbytes(n)


def splits(r, data, k):
    """cut data into k pieces at random positions (pieces may be empty)"""
    if k <= 1:
        return [data]
    cuts = sorted(r.randint(0, len(data)) for _ in range(k - 1))
    out, p = [], 0
    for c in cuts:
        out.append(data[p:c]); p = c
    out.append(data[p:])
    return out

LEN_BOUNDARY = [0, 1, 2, 6, 7, 8, 254, 255, 256, 257, 8191, 8192, 8193, 65534, 65535]
LEN_OVER = [65536, 65537, 70000, 131071, 131072]
