"""C01 -- every stream is a lossless, ordered, exact byte pipe.  Driver: ss (client + server Session on
in-memory transports, real padding on the client, scripted relays / fragmentation / capacities)."""
from .base import *
from . import sessgen as G

RULE = ("ss: a real client Session (padding scheme: library default and 4 others; with and without start_client) and a "
        "real server Session; 1-4 streams opened by the client; both directions; writers through write_data_frame, "
        "Stream::send_data and, on stream objects the harness owns exclusively (after a FIN for that id was received, "
        "the only situation in which `&mut Stream` exists), AsyncWrite::write_all; chunk sizes from the boundary table "
        "(0, 1, 6, 7, 8, 255, 256, 8191-8193, 65534-65537, 70000, 131071, 131072) plus random; what each side wrote is "
        "relayed to the peer re-chunked (all at once, byte by byte, 3/4-byte pieces that cut every header, random "
        "sizes, every split position of a 3-frame wire); back-pressure 1/7/100/4096 bytes per poll_write; reads with "
        "capacities 1..100000 interleaved with the relays and a final drain; session close at the end. Oracle: "
        "PipeRef (bytes read == bytes written per stream and direction at the same position, prefix at every "
        "observation, Pending only when nothing is waiting, EOF only after the end and only after all data). "
        "Non-trivial = at least two chunks and (a chunk >= 65536, or an empty chunk, or fragments that cut a 7-byte "
        "header, or >= 2 streams); distinct by sha256 of the case.")
SIDE_LEMMAS = 4
ASSUMPTIONS = ["tokio mpsc channels are FIFO, the session's single forwarding task preserves per-stream order (modelled as sendq)",
               "the padded wire satisfies C04_wellformed (decoded frames minus Waste = submitted frames); the driver uses the real padding",
               "transport writes complete (write failures: C09); back-pressure is exercised by the driver, not part of the theorems",
               "the model is tied to session.rs / stream.rs / stream_reader.rs by differential execution on the cases counted below (sampling)"]
Case = Case
IMPL_TIMEOUT = 900

BOUNDARY = [0, 1, 6, 7, 8, 255, 256, 8191, 8192, 8193, 65534, 65535, 65536, 65537, 70000, 131071, 131072]
CAPS = [1, 2, 7, 100, 8192, 65535, 65536, 100000]


def corpus_cases():
    return corpus("C01")


def reads_needed(sizes, cap):
    n = 2
    for s in sizes:
        rest = s
        while rest > 0:
            piece = min(rest, 65535)
            n += (piece + cap - 1) // cap
            rest -= piece
    return n


def build(r, cid, tier, kind):
    """one pipe case; returns Case"""
    budget = 200_000 if tier == "quick" else 3_000_000
    ns = 1 if kind in ("single-big", "all-splits") else r.randint(1, 4 if tier == "quick" else 8)
    scheme = r.randrange(len(G.SCHEMES))
    st = r.random() < 0.5
    ops = []
    sids = list(range(1, ns + 1))
    for _ in sids:
        ops.append("O:c")
    small_wire = kind in ("all-splits", "bytewise")
    # how the relays cut the bytes
    def frag(large=True):
        """fragment sizes, used cyclically by the relay; 0 = all the rest.  Tiny pieces over a large wire would
        make the run quadratic (every piece re-scans the carried partial frame), so after a few tiny pieces that
        cut the first headers the rest is delivered in pieces of >= 1000 bytes"""
        if kind == "bytewise":
            return "1"
        c = r.random()
        if c < 0.2:
            return "-"
        if c < 0.5:
            return r.choice(["3,4,0", "7,0", "6,1,6,1,0", "2,5,1,7,3,3,0", "8,6,0", "1,1,1,1,1,1,1,1,0"])
        tail = r.choice([0, 1000, 4096, 8192, 16384, 65535, 65542, 65543, 70000])
        head = [str(r.choice([1, 5, 13, 100, 1000, 4096])) for _ in range(r.randint(0, 3))]
        if tail == 0 or not head:
            return ",".join(head + [str(tail)]) if (head or tail) else "-"
        # cyclic use: keep every size >= 1000 when there is no terminating 0
        return ",".join([h for h in head if int(h) >= 1000] + [str(tail)])
    cut_header = False
    fr = frag()
    if fr != "-" and int(fr.split(",")[0]) in (1, 2, 3, 5, 6):
        cut_header = True
    ops.append("X:c:" + fr)
    ops.append("N:s")
    if r.random() < 0.3:
        k = r.choice([1, 7, 100, 4096])
        ops.append("K:c:%d" % k)
        ops.append("K:s:%d" % k)
    # chunk plans per (direction, sid)
    plans = {}
    total = 0
    big = empty = False
    nchunks = 0
    for sid in sids:
        for d in ("c", "s"):
            if kind == "single-big":
                sizes = [r.choice([65536, 65537, 70000, 131071, 131072]), r.choice([0, 1, 4, 7])] if d == "c" else [r.choice([65535, 65536, 70000])]
            elif small_wire:
                sizes = [r.choice([0, 1, 2, 5, 9]) for _ in range(r.randint(1, 3))]
            else:
                sizes = []
                for _ in range(r.randint(0, 5)):
                    c = r.random()
                    if c < 0.45:
                        s = r.choice(BOUNDARY)
                    elif c < 0.6:
                        s = 0
                    else:
                        s = r.randint(1, 3000)
                    if total + s > budget:
                        s = r.choice([0, 1, 7, 8, 255])
                    sizes.append(s)
                    total += s
            plans[(d, sid)] = sizes
            nchunks += len(sizes)
            big = big or any(s >= 65536 for s in sizes)
            empty = empty or any(s == 0 for s in sizes)
    # AsyncWrite needs exclusive ownership: pick at most one stream per direction whose *writer side* first receives a FIN
    aw = {}
    if kind == "async-write" or (kind == "mixed" and r.random() < 0.25):
        for d in ("c", "s"):
            if r.random() < 0.7:
                sid = r.choice(sids)
                aw[d] = sid
                peer = "s" if d == "c" else "c"
                ops.append("G:%s:3:%d:-" % (peer, sid))
                ops.append("X:%s:%s" % (peer, frag()))
        ops.append("T:c")
        ops.append("T:s")
    # interleave the writes of all plans
    pending = [(d, sid, list(sz)) for (d, sid), sz in plans.items() if sz]
    step = 0
    while pending:
        i = r.randrange(len(pending))
        d, sid, sz = pending[i]
        n = sz.pop(0)
        if not sz:
            pending.pop(i)
        if aw.get(d) == sid:
            ops.append("%s:%s:%d:0:%d" % (r.choice("AAS"), d, sid, n))
        else:
            e = r.choice("WWS")
            ops.append("W:%s:%d:%d" % (d, sid, n) if e == "W" else "S:%s:%d:0:%d" % (d, sid, n))
        step += 1
        if r.random() < 0.3:
            f2 = frag()
            ops.append("X:%s:%s" % (d, f2))
            # the receiver of direction d reads a little: observations while the stream is open
            rcv = "s" if d == "c" else "c"
            if aw.get(rcv) != sid:
                for _ in range(r.randint(0, 3)):
                    ops.append("D:%s:%d:0:%d" % (rcv, sid, r.choice(CAPS)))
    # everything written reaches the peer; drain
    if kind == "all-splits":
        pass
    ops.append("X:c:" + frag())
    ops.append("X:s:" + frag())
    for (d, sid), sz in plans.items():
        rcv = "s" if d == "c" else "c"
        if aw.get(rcv) == sid:
            # this receiver's entry was removed by the FIN: its object got EOF; nothing of d arrives there
            ops.append("D:%s:%d:0:100" % (rcv, sid))
            continue
        cap = r.choice([8192, 65535, 65536, 100000]) if sum(sz) > 5000 else r.choice(CAPS)
        ops += G.drain(rcv, sid, 0, [cap], min(reads_needed(sz, cap), 400))
        if sum(sz) and reads_needed(sz, cap) > 400:
            ops += G.drain(rcv, sid, 0, [100000], reads_needed(sz, 100000))
    # the end: the client goes away; every reader gets the rest (nothing) and EOF
    ops.append("C:c")
    ops.append("X:c:-")
    for sid in sids:
        ops.append("D:s:%d:0:100" % sid)
        ops.append("D:c:%d:0:100" % sid)
    ops.append("T:s")
    ops.append("T:c")
    nt = nchunks >= 2 and (big or empty or cut_header or ns >= 2)
    return G.ss_case(cid, scheme, st, ops, kind, nt)


def all_splits(r, cid0):
    """a 3-frame wire client->server (SYN was relayed before): every split position"""
    out = []
    sizes = [r.choice([0, 1, 3]), r.choice([1, 2, 6]), r.choice([0, 5])]
    wire_len = sum(7 + s for s in sizes)
    for scheme in (2, 4):       # schemes that stop padding early: the relayed bytes are exactly the 3 frames
        for pos in range(0, wire_len + 1):
            ops = ["O:c", "X:c:-", "N:s", "W:c:1:1", "W:c:1:1", "W:c:1:1", "W:c:1:1", "X:c:-", "D:s:1:0:100", "D:s:1:0:100", "D:s:1:0:100", "D:s:1:0:100"]
            ops += ["W:c:1:%d" % s for s in sizes]
            ops.append("X:c:%d,0" % pos if pos else "X:c:-")
            ops += G.drain("s", 1, 0, [2, 100], 8)
            out.append(G.ss_case("%s_%d_%d" % (cid0, scheme, pos), scheme, False, ops, "all-splits", True))
    return out


def many_tiny(r, cid, nframes, scheme):
    """hundreds of complete tiny frames reach the receiver in ONE transport read, then the sender is silent (seed C01-4:
    a per-read frame budget strands the frames beyond the budget in the receive buffer)"""
    ops = ["O:c", "X:c:-", "N:s", "W:c:1:1", "W:c:1:1", "W:c:1:1", "W:c:1:1", "X:c:-"] + G.drain("s", 1, 0, [100], 5)
    sizes = [r.choice([1, 1, 1, 2, 3]) for _ in range(nframes)]
    ops += ["W:c:1:%d" % k for k in sizes]
    ops.append("X:c:-")                       # everything written so far, as one chunk
    ops += G.drain("s", 1, 0, [4096], nframes + 3)   # one queued chunk per read: the reader must get ALL of it now, without any further transport activity
    ops += ["C:c", "X:c:-", "D:s:1:0:100", "T:s", "T:c"]
    return G.ss_case(cid, scheme, False, ops, "many-tiny-one-read", True)


def big_then_small(r, cid, scheme):
    """one task writes a chunk larger than a frame and, without yielding, a small one on the same stream: the pieces of
    the first must all precede the second (seed C11-4: the remainder of an oversized chunk handed to the forwarding task)"""
    big = r.choice([65536, 65537, 70000, 131071, 200000])
    small = r.choice([1, 7, 100])
    ops = ["O:c", "X:c:-", "N:s", "V:c:1:%d:%d" % (big, small), "X:c:-"]
    ops += G.drain("s", 1, 0, [100000], 8)
    ops += ["V:s:1:%d:%d" % (r.choice([65536, 99999]), small), "X:s:-"] + G.drain("c", 1, 0, [100000], 8)
    ops += ["C:c", "X:c:-", "D:s:1:0:100", "T:s", "T:c"]
    return G.ss_case(cid, scheme, True, ops, "big-then-small-back-to-back", True)


def gen_cases(tier, seed):
    r = rng(seed, "C01")
    cs = []
    for j in range(6 if tier == "quick" else 40):
        cs.append(big_then_small(r, "bs%d" % j, j % len(G.SCHEMES)))
    for j, nf in enumerate([70, 130, 300, 600] if tier == "quick" else [65, 70, 100, 130, 200, 300, 600, 1000]):
        cs.append(many_tiny(r, "mt%d" % j, nf, (2, 4)[j % 2]))
    n = {"quick": 200, "thorough": 4000}[tier]
    kinds = ["mixed"] * 5 + ["single-big", "async-write", "bytewise"]
    for i in range(n):
        cs.append(build(r, "p%d" % i, tier, kinds[i % len(kinds)]))
    for j in range(2 if tier == "quick" else 12):
        cs += all_splits(r, "sp%d" % j)
    # the peer's first bytes on a stream that is still being opened: open_stream registers the inbound queue before it
    # writes the SYN, so data the peer sends the moment it sees the SYN -- while the caller's SYN write is still
    # pending or has not even started -- is queued and read afterwards. Scheduled driver of the write-path package: the
    # data frames are fed at every position among the steps of the open (seed C01-6); what arrives before the queue
    # exists is dropped in the model too (the peer cannot know the id yet), what arrives later must be read
    from .conc_common import render, drain_suffix
    for p1 in range(0, 10):
        for p2 in sorted({p1, min(9, p1 + 1), 9}):
            nread = (1 if p1 >= 2 else 0) + (1 if p2 >= 2 else 0)
            progs = [[], ["O", "B0"] + ["R"] * nread, ["F:psh:1"], ["F:psh:1"]]
            sched = [1] * p1 + [2] + [1] * (p2 - p1) + [3] + [1] * (12 - p2) + [1, 2, 3] * 3 + drain_suffix(4, 4)
            cs.append(Case("od%d_%d" % (p1, p2), "conc", render("plain", progs, sched), "own-data-during-open", True,
                           {"expect_t1": ",".join(["ok", "ok"] + ["data"] * nread)}))
    # "when it ends it has seen all of it" end to end: a slow TCP target behind the server handler, the session ends
    # while the upload is still queued (real time; no model side)
    for i in range(1 if tier == "quick" else 4):
        cs.append(Case("slow%d" % i, "lo", [("socks", "http")[i % 2], "slow_target", (8 << 20) + r.randint(0, 9999), 200, 4000],
                       "loopback-slow-target", True, model=False))
    # the relays at both ends of a tunnel (C01_tunnel_prefix / _complete, Model/Relay.v): application -> SOCKS5 / HTTP
    # front-end Task2 -> write_data_frame -> session -> StreamReader -> server Task1 -> target, and back through
    # send_data + the forwarding task. The chunks are written one by one with a pause, so that the copy loops see reads
    # of different lengths over the same reused buffer (a long read followed by shorter ones; sizes around the relay
    # buffer and around one frame). Real time, real sockets; the model runs the same plan through Relay + Sess.
    RS = [1, 2, 7, 100, 1000, 4095, 4096, 8191, 8192, 8193, 9000, 16384, 16385, 30000, 65535, 65536, 65537, 70000, 140000]
    for i in range(6 if tier == "quick" else 60):
        def plan():
            k = r.randint(1, 7)
            xs = [r.choice(RS) if r.random() < 0.7 else r.randint(1, 20000) for _ in range(k)]
            if r.random() < 0.6:                      # a long chunk directly followed by short ones (stale buffer tail)
                j = r.randrange(len(xs))
                xs[j:j] = [r.choice([8192, 8193, 20000, 70000]), r.randint(1, 50), r.randint(1, 9)]
            return ",".join(map(str, xs))
        cs.append(Case("rl%d" % i, "lo", [("socks", "http")[i % 2], "chunks", 0, 0, 2000, ("-", "cs")[(i // 2) % 2], plan(), plan(),
                                          r.choice([0, 1, 3])], "tunnel-relays", True))
    return cs


def tok(s, key):
    for t in s.split():
        if t.startswith(key + "="):
            return t[len(key) + 1:]
    return None


def oracle(c, ir):
    if c.drv == "conc":
        from .conc_common import parse_out
        o = parse_out(ir)
        if o is None:
            return "unparsable implementation output: " + ir[:200]
        want = c.meta["expect_t1"]
        pc, res = o["tasks"].get(1, ("?", []))
        if pc != "done" or ",".join(res) != want:
            return ("the peer's data frames for the stream arrived while open_stream was still in progress (after the inbound queue "
                    "had been registered): the reader got %s (state %s), expected %s: bytes the peer sent were lost" % (res, pc, want))
        return None
    if c.drv == "lo" and c.args[1] == "chunks":
        # reference, independent of the model: the bytes that arrive are the bytes that were sent, nothing more
        up = [int(x) for x in c.args[6].split(",")] if c.args[6] != "-" else []
        down = [int(x) for x in c.args[7].split(",")] if c.args[7] != "-" else []
        if tok(ir, "reply") != "ok" or tok(ir, "tgt_conn") != "1":
            return "loopback setup failed: " + ir[:160]
        for key, side, n in (("fwd", "c", sum(up)), ("rev", "s", sum(down))):
            want = "%d.%08x" % (n, G.fnv(G.gen(side, 1, 0, n)))
            if tok(ir, key) != want:
                return ("tunnel %s: the %s received %s, the other end sent %s (length.fnv): bytes lost, altered, duplicated or "
                        "reordered by a relay" % (key, "target" if key == "fwd" else "application", tok(ir, key), want))
        if tok(ir, "extra") != "0":
            return "tunnel: %s byte(s) arrived that nobody sent" % tok(ir, "extra")
        return None
    if c.drv == "lo":
        from . import c08
        return c08.lo_oracle(c, ir)
    if c.drv != "ss":
        return "unknown driver"
    return G.ss_oracle(c, ir)


def same(c, ir, mr):
    if c.drv == "lo":
        return tok(ir, "fwd") == tok(mr, "fwd") and tok(ir, "rev") == tok(mr, "rev")
    return ir == mr
