"""C02 -- streams sharing a session never see each other's bytes.  Driver: ss with hand-built frame
sequences injected into a real server and a real client session (op R), payload bytes = the stream's tag."""
from .base import *
from . import sessgen as G

RULE = ("ss: frame sequences built by hand and injected as raw bytes (random fragmentation) into a real server Session "
        "and a real client Session: valid sessions mutated by swapping ids, stale ids after FIN, ids never opened, id "
        "reuse after FIN, duplicated SYN for an open id, interleaved SYN/PSH/FIN/SYNACK of 2-6 ids, unknown commands, "
        "late Stream::send_data (forwarding-task path) on a stream whose FIN already arrived followed by send_data on "
        "the other streams and on a stream opened later (both roles, both directions), a single 65536..70000-byte "
        "chunk on stream A whose content is a well-formed frame sequence for stream B (PSH/FIN/SYN/SYNACK + Waste), "
        "Settings/Heartbeat frames in between; every payload byte of stream b is tag(b) = (b*29+7) mod 256 (ids chosen "
        "with distinct tags); after the sequence every stream object ever handed out is read to the end. Oracle: "
        "PipeRef + tag check: every byte read on an object of id b carries tag(b), is exactly what was addressed to b "
        "while that incarnation was open, streams of other ids stay readable / open, the table sizes equal the number "
        "of open ids, new-stream announcements are exactly the SYNs. Non-trivial = at least 2 ids live at some point "
        "and at least one frame for an id that is not open; distinct by sha256 of the case.")
SIDE_LEMMAS = 4
ASSUMPTIONS = ["HashMap lookups by u32 key are exact (std)",
               "the model is tied to session.rs handle_frame by differential execution on the cases counted below (sampling)"]
Case = Case


def tag(b):
    return (b * 29 + 7) & 255


def corpus_cases():
    return corpus("C02")


def build(r, cid, tier, side):
    nmax = 40 if tier == "quick" else 400
    ids = r.sample([1, 2, 3, 4, 5, 6, 7, 9, 11, 200, 65536, 2 ** 31, 2 ** 32 - 1], r.randint(2, 6))
    stale = r.sample([8, 10, 12, 300], 2)
    live = set()
    ever = {}
    frames = []
    ops = []
    max_live = 0
    unknown_hit = False
    client_ids = []
    if side == "c":
        # a client registers ids by opening streams: ids 1..k
        k = r.randint(2, 5)
        for _ in range(k):
            ops.append("O:c")
        ids = list(range(1, k + 1))
        live = set(ids)
        for i in ids:
            ever[i] = 1
        max_live = k
    n = r.randint(6, nmax)
    for _ in range(n):
        c = r.random()
        pool = ids + stale
        b = r.choice(pool)
        if c < 0.45:
            frames.append(G.enc(G.CMD_PSH, b, bytes([tag(b)]) * r.choice([0, 1, 1, 2, 3, 8, 20])))
            if b not in live:
                unknown_hit = True
        elif c < 0.62:
            frames.append(G.enc(G.CMD_SYN, b))
            if side == "s":
                live.add(b)
                ever[b] = ever.get(b, 0) + 1
        elif c < 0.78:
            frames.append(G.enc(G.CMD_FIN, b))
            if b not in live:
                unknown_hit = True
            live.discard(b)
        elif c < 0.88:
            frames.append(G.enc(G.CMD_SYNACK, b, r.choice([b"", b"", b"no"])))
            if b not in live:
                unknown_hit = True
        elif c < 0.93:
            frames.append(G.enc(r.choice([0, 8, 9, 11, 77, 255]), b if r.random() < 0.5 else 0, b"" if r.random() < 0.7 else bytes([tag(b)]) * 3))
        else:
            frames.append(G.enc(G.CMD_SETTINGS if side == "s" else 10, 0, r.choice([b"v=2", b"v=1\nclient=x", b"padding-md5=zz\nv=2", b"", b"v=300"])))
        max_live = max(max_live, len(live))
        # observations in between
        if r.random() < 0.25 and frames:
            wire = b"".join(frames)
            frames = []
            for piece in splits(r, wire, r.randint(1, 4)):
                if piece:
                    ops.append("R:%s:%s" % (side, hx(piece)))
            if side == "s":
                ops.append("N:s")
            ops.append("T:%s" % side)
            if ever:
                b2 = r.choice(list(ever))
                ops.append("D:%s:%d:%d:%d" % (side, b2, r.randrange(ever[b2]), r.choice([1, 2, 5, 64])))
    wire = b"".join(frames)
    for piece in splits(r, wire, r.randint(1, 5)):
        if piece:
            ops.append("R:%s:%s" % (side, hx(piece)))
    if side == "s":
        ops.append("N:s")
    ops.append("T:%s" % side)
    # read every object ever handed out to its end / to Pending
    for b in sorted(ever):
        for k in range(ever[b]):
            ops += ["D:%s:%d:%d:64" % (side, b, k)] * 4 + ["D:%s:%d:%d:3" % (side, b, k)] * 2
            if side == "c":
                ops.append("Y:c:%d:%d" % (b, k))
    # a reply frame written by the session must not have disturbed anything: log of what it wrote
    ops.append("L:%s" % side)
    # closing the session ends every remaining stream
    ops.append("E:%s" % side)
    for b in sorted(ever):
        ops.append("D:%s:%d:%d:64" % (side, b, ever[b] - 1))
    ops.append("T:%s" % side)
    nt = max_live >= 2 and unknown_hit
    return G.ss_case(cid, 0, False, ops, "inject-" + ("server" if side == "s" else "client"), nt)


def tagged(b, n):
    return hx(bytes([tag(b)]) * n)


def build_late_send(r, cid, w):
    """two or three streams; the peer's FIN for A arrives at side w; w's local user keeps calling send_data on A
    (the forwarding-task path), then on B and on a stream opened later: everything submitted on the other
    streams must arrive, in both directions"""
    o = "s" if w == "c" else "c"
    ns = r.randint(2, 3)
    ops = ["O:c"] * ns + ["X:c:-", "N:s"]
    a = r.randint(1, ns)
    b = r.choice([x for x in range(1, ns + 1) if x != a])
    if r.random() < 0.6:                       # data queued for A before its FIN
        for _ in range(r.randint(1, 3)):
            ops.append("U:%s:%d:0:%s" % (o, a, tagged(a, r.randint(1, 20))) if r.random() < 0.5 else "P:%s:%d:%s" % (o, a, tagged(a, r.randint(1, 20))))
    if r.random() < 0.5:
        ops.append("U:%s:%d:0:%s" % (w, b, tagged(b, r.randint(1, 20))))
    ops += ["G:%s:3:%d:-" % (o, a), "X:%s:%s" % (o, r.choice(["-", "3,4,0", "1"])), "T:%s" % w]
    for _ in range(r.randint(1, 3)):           # late sends on the finished stream: pump path
        ops.append("U:%s:%d:0:%s" % (w, a, tagged(a, r.randint(0, 20))))
    for _ in range(r.randint(1, 4)):           # ... must not hurt B
        ops.append("U:%s:%d:0:%s" % (w, b, tagged(b, r.randint(1, 30))))
        if r.random() < 0.3:
            ops.append("U:%s:%d:0:%s" % (w, a, tagged(a, r.randint(1, 5))))
    newid = None
    if r.random() < 0.6:                       # a stream opened later
        newid = ns + 1
        ops += ["O:c", "X:c:-", "N:s", "U:%s:%d:0:%s" % (w, newid, tagged(newid, r.randint(1, 30)))]
    ops.append("U:%s:%d:0:%s" % (o, b, tagged(b, r.randint(1, 30))))      # the other direction on B
    ops += ["X:%s:%s" % (w, r.choice(["-", "3,4,0", "7,0", "1"])), "X:%s:-" % o]
    for sid in range(1, ns + 2):
        ops += ["D:%s:%d:0:64" % (o, sid)] * 4
        ops += ["D:%s:%d:0:64" % (w, sid)] * 3
    ops += ["T:c", "T:s", "L:%s" % w]
    return G.ss_case(cid, r.choice([0, 2]), False, ops, "late-send-after-fin-" + ("client" if w == "c" else "server"), True)


def smuggle_content(r, b, newid, total):
    """a byte string that is itself a well-formed frame sequence: PSH frames for stream b (tagged), a FIN for b,
    a SYN and a SYNACK for other ids, then Waste frames up to `total` bytes"""
    parts = [G.enc(G.CMD_PSH, b, bytes([tag(b)]) * r.randint(1, 40)) for _ in range(r.randint(1, 3))]
    parts.append(G.enc(G.CMD_FIN, b))
    parts.append(G.enc(G.CMD_SYN, newid))
    parts.append(G.enc(G.CMD_SYNACK, b, b"smuggled"))
    parts.append(G.enc(G.CMD_PSH, b, bytes([tag(b)]) * 5))
    body = b"".join(parts)
    while len(body) < total:
        rest = total - len(body)
        if rest < 7:
            body += bytes(rest)           # an incomplete header of zeros at the very end
            break
        n = min(rest - 7, 60000)
        body += G.enc(0, 0, bytes(n))
    return body


def build_smuggle(r, cid, w, total=None):
    """stream A carries, as ONE chunk of 65536..70000 bytes, content that is a frame sequence addressed to the
    other open stream B: nothing of it may appear on / end / disturb B or open anything"""
    o = "s" if w == "c" else "c"
    a, b = r.sample([1, 2], 2)
    total = total or r.choice([65536, 65536, 65537, 65543, 66000, 70000, r.randint(65536, 70000)])
    body = smuggle_content(r, b, 77, total)
    ops = ["O:c", "O:c", "X:c:-", "N:s"]
    ops.append("U:%s:%d:0:%s" % (w, b, tagged(b, 3)))
    ops.append(("P:%s:%d:%s" % (w, a, hx(body))) if r.random() < 0.5 else ("U:%s:%d:0:%s" % (w, a, hx(body))))
    ops.append("U:%s:%d:0:%s" % (w, b, tagged(b, 2)))
    ops += ["X:%s:%s" % (w, r.choice(["-", "3,4,0", "65542,0", "8192"])), "N:s", "T:%s" % o, "Y:c:%d:0" % b]
    ops += ["D:%s:%d:0:64" % (o, b)] * 4
    ops += ["D:%s:%d:0:100000" % (o, a)] * 4
    ops += ["U:%s:%d:0:%s" % (w, b, tagged(b, 4)), "X:%s:-" % w, "D:%s:%d:0:64" % (o, b), "D:%s:%d:0:64" % (o, b), "T:c", "T:s"]
    return G.ss_case(cid, r.choice([0, 2]), False, ops, "frames-inside-a-64k-chunk-" + ("c2s" if w == "c" else "s2c"), True)


def kernel_perms(tier):
    """all orders of a 5-frame kernel over two ids on a server"""
    import itertools
    kern = [G.enc(G.CMD_SYN, 1), G.enc(G.CMD_PSH, 1, bytes([tag(1)]) * 2), G.enc(G.CMD_FIN, 1),
            G.enc(G.CMD_PSH, 2, bytes([tag(2)]) * 3), G.enc(G.CMD_SYN, 1)]
    out = []
    for i, perm in enumerate(itertools.permutations(range(5))):
        if tier == "quick" and i % 3:
            continue
        ops = ["R:s:" + hx(G.enc(G.CMD_SYN, 2))] + ["R:s:" + hx(kern[j]) for j in perm]
        ops += ["N:s", "T:s"] + ["D:s:1:0:64"] * 2 + ["D:s:1:1:64"] * 2 + ["D:s:2:0:64"] * 2
        out.append(G.ss_case("perm%d" % i, 0, False, ops, "kernel-permutation", True))
    return out


def gen_cases(tier, seed):
    r = rng(seed, "C02")
    cs = []
    n = {"quick": 420, "thorough": 9000}[tier]
    for i in range(n):
        cs.append(build(r, "i%d" % i, tier, "s" if i % 3 else "c"))
    cs += kernel_perms(tier)
    for i in range(60 if tier == "quick" else 1200):
        cs.append(build_late_send(r, "ls%d" % i, "cs"[i % 2]))
    for i in range(8 if tier == "quick" else 60):
        cs.append(build_smuggle(r, "sm%d" % i, "cs"[i % 2]))
    # streams opened CONCURRENTLY must get distinct ids (two streams with one id share a queue: the bytes of one land on the
    # other): every interleaving of the first steps of two opens, on the scheduled driver of the write-path package (seed C02-3)
    from . import c11 as _c11
    for c in _c11.gen_cases(tier, seed):
        if c.kind == "exhaustive-2tasks":
            bits = c.args[c.args.index("sched") + 1:]
            if tier == "quick" and any(b != "1" for b in bits[8:10]):
                continue
            cs.append(Case("ids_" + c.cid, c.drv, c.args, "concurrent-opens-" + c.kind, True))
    # a frame for ANOTHER stream (FIN for an id that was never opened, FIN / data for a neighbour) handled while this
    # stream's open_stream is between its two table inserts must not take this stream's inbound queue away (seed C02-4):
    # task 1 opens and reads, task 2 opens, task 3 feeds; every position of the foreign frame among the first steps of task 1
    from .conc_common import render, drain_suffix
    for foreign in (["F:fin:7"], ["F:fin:2"], ["F:psh:2", "F:fin:2"], ["F:sa:7:1", "F:fin:7"]):
        progs = [[], ["O", "B0", "R"], ["O"], foreign + ["F:psh:1"]]
        for pos in range(0, 6):
            pre2 = r.choice([0, 2, 3, 12])
            sched = [2] * pre2 + [1] * pos + [3] * len(foreign) + [1] * (14 - pos) + [3] + [1, 2] * 12 + drain_suffix(4, 6)
            cs.append(Case("hr%d" % len(cs), "conc", render("plain", progs, sched), "foreign-frame-during-open", True, {"expect_t1": "ok,ok,data"}))
    return cs


def oracle(c, ir):
    if c.drv == "conc":
        from . import c11 as _c11
        from .conc_common import parse_out
        o = parse_out(ir)
        if o is None:
            return "unparsable implementation output: " + ir[:200]
        for t, (pc, res) in o["tasks"].items():
            if "stream-id-not-sequential" in res:
                return "task %d's open_stream returned a stream whose id is not the next unused one: two concurrent opens shared an id (results %s)" % (t, res)
        syns = [f.split(".")[1] for _, fr in o["bursts"] for f in fr if f.split(".")[0] == "1"]
        if len(set(syns)) != len(syns):
            return "two streams were opened with the same id: SYN ids on the wire %s" % syns
        data_sids = {f.split(".")[1] for _, fr in o["bursts"] for f in fr if f.split(".")[0] == "2"}
        if not data_sids <= set(syns):
            return "data for stream(s) %s that were never opened" % sorted(data_sids - set(syns))
        want = (c.meta or {}).get("expect_t1")
        if want:
            pc, res = o["tasks"].get(1, ("?", []))
            if pc != "done" or ",".join(res) != want:
                return ("stream of task 1: the peer's data frame was fed after the open had completed, yet the reader got %s (state %s), expected %s: "
                        "a frame addressed to another stream disturbed this one" % (res, pc, want))
        return None
    if c.drv != "ss":
        return "unknown driver"
    return G.ss_oracle(c, ir, tag_of=tag)


def same(c, ir, mr):
    return ir == mr
