"""C02 -- streams sharing a session never see each other's bytes.  Driver: ss with hand-built frame
sequences injected into a real server and a real client session (op R), payload bytes = the stream's tag."""
from .base import *
from . import sessgen as G

RULE = ("ss: frame sequences built by hand and injected as raw bytes (random fragmentation) into a real server Session "
        "and a real client Session: valid sessions mutated by swapping ids, stale ids after FIN, ids never opened, id "
        "reuse after FIN, duplicated SYN for an open id, interleaved SYN/PSH/FIN/SYNACK of 2-6 ids, unknown commands, "
        "Settings/Heartbeat frames in between; every payload byte of stream b is tag(b) = (b*29+7) mod 256 (ids chosen "
        "with distinct tags); after the sequence every stream object ever handed out is read to the end. Oracle: "
        "PipeRef + tag check: every byte read on an object of id b carries tag(b), is exactly what was addressed to b "
        "while that incarnation was open, streams of other ids stay readable / open, the table sizes equal the number "
        "of open ids, new-stream announcements are exactly the SYNs. Non-trivial = at least 2 ids live at some point "
        "and at least one frame for an id that is not open; distinct by sha256 of the case.")
SIDE_LEMMAS = 4
ASSUMPTIONS = ["HashMap lookups by u32 key are exact (std)",
               "the model is tied to session.rs handle_frame by differential execution on the cases counted below (sampling)"]
Case = Case


def tag(b):
    return (b * 29 + 7) & 255


def corpus_cases():
    return corpus("C02")


def build(r, cid, tier, side):
    nmax = 40 if tier == "quick" else 400
    ids = r.sample([1, 2, 3, 4, 5, 6, 7, 9, 11, 200, 65536, 2 ** 31, 2 ** 32 - 1], r.randint(2, 6))
    stale = r.sample([8, 10, 12, 300], 2)
    live = set()
    ever = {}
    frames = []
    ops = []
    max_live = 0
    unknown_hit = False
    client_ids = []
    if side == "c":
        # a client registers ids by opening streams: ids 1..k
        k = r.randint(2, 5)
        for _ in range(k):
            ops.append("O:c")
        ids = list(range(1, k + 1))
        live = set(ids)
        for i in ids:
            ever[i] = 1
        max_live = k
    n = r.randint(6, nmax)
    for _ in range(n):
        c = r.random()
        pool = ids + stale
        b = r.choice(pool)
        if c < 0.45:
            frames.append(G.enc(G.CMD_PSH, b, bytes([tag(b)]) * r.choice([0, 1, 1, 2, 3, 8, 20])))
            if b not in live:
                unknown_hit = True
        elif c < 0.62:
            frames.append(G.enc(G.CMD_SYN, b))
            if side == "s":
                live.add(b)
                ever[b] = ever.get(b, 0) + 1
        elif c < 0.78:
            frames.append(G.enc(G.CMD_FIN, b))
            if b not in live:
                unknown_hit = True
            live.discard(b)
        elif c < 0.88:
            frames.append(G.enc(G.CMD_SYNACK, b, r.choice([b"", b"", b"no"])))
            if b not in live:
                unknown_hit = True
        elif c < 0.93:
            frames.append(G.enc(r.choice([0, 8, 9, 11, 77, 255]), b if r.random() < 0.5 else 0, b"" if r.random() < 0.7 else bytes([tag(b)]) * 3))
        else:
            frames.append(G.enc(G.CMD_SETTINGS if side == "s" else 10, 0, r.choice([b"v=2", b"v=1\nclient=x", b"padding-md5=zz\nv=2", b"", b"v=300"])))
        max_live = max(max_live, len(live))
        # observations in between
        if r.random() < 0.25 and frames:
            wire = b"".join(frames)
            frames = []
            for piece in splits(r, wire, r.randint(1, 4)):
                if piece:
                    ops.append("R:%s:%s" % (side, hx(piece)))
            if side == "s":
                ops.append("N:s")
            ops.append("T:%s" % side)
            if ever:
                b2 = r.choice(list(ever))
                ops.append("D:%s:%d:%d:%d" % (side, b2, r.randrange(ever[b2]), r.choice([1, 2, 5, 64])))
    wire = b"".join(frames)
    for piece in splits(r, wire, r.randint(1, 5)):
        if piece:
            ops.append("R:%s:%s" % (side, hx(piece)))
    if side == "s":
        ops.append("N:s")
    ops.append("T:%s" % side)
    # read every object ever handed out to its end / to Pending
    for b in sorted(ever):
        for k in range(ever[b]):
            ops += ["D:%s:%d:%d:64" % (side, b, k)] * 4 + ["D:%s:%d:%d:3" % (side, b, k)] * 2
            if side == "c":
                ops.append("Y:c:%d:%d" % (b, k))
    # a reply frame written by the session must not have disturbed anything: log of what it wrote
    ops.append("L:%s" % side)
    # closing the session ends every remaining stream
    ops.append("E:%s" % side)
    for b in sorted(ever):
        ops.append("D:%s:%d:%d:64" % (side, b, ever[b] - 1))
    ops.append("T:%s" % side)
    nt = max_live >= 2 and unknown_hit
    return G.ss_case(cid, 0, False, ops, "inject-" + ("server" if side == "s" else "client"), nt)


def kernel_perms(tier):
    """all orders of a 5-frame kernel over two ids on a server"""
    import itertools
    kern = [G.enc(G.CMD_SYN, 1), G.enc(G.CMD_PSH, 1, bytes([tag(1)]) * 2), G.enc(G.CMD_FIN, 1),
            G.enc(G.CMD_PSH, 2, bytes([tag(2)]) * 3), G.enc(G.CMD_SYN, 1)]
    out = []
    for i, perm in enumerate(itertools.permutations(range(5))):
        if tier == "quick" and i % 3:
            continue
        ops = ["R:s:" + hx(G.enc(G.CMD_SYN, 2))] + ["R:s:" + hx(kern[j]) for j in perm]
        ops += ["N:s", "T:s"] + ["D:s:1:0:64"] * 2 + ["D:s:1:1:64"] * 2 + ["D:s:2:0:64"] * 2
        out.append(G.ss_case("perm%d" % i, 0, False, ops, "kernel-permutation", True))
    return out


def gen_cases(tier, seed):
    r = rng(seed, "C02")
    cs = []
    n = {"quick": 420, "thorough": 9000}[tier]
    for i in range(n):
        cs.append(build(r, "i%d" % i, tier, "s" if i % 3 else "c"))
    cs += kernel_perms(tier)
    return cs


def oracle(c, ir):
    if c.drv != "ss":
        return "unknown driver"
    return G.ss_oracle(c, ir, tag_of=tag)


def same(c, ir, mr):
    return ir == mr
