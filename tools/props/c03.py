"""C03 -- frame codec. Drivers: enc (Encoder), dec (streaming Decoder)."""
from .base import *

RULE = ("enc: all 256 command bytes x boundary stream ids x boundary payload lengths (incl. > 65535); "
        "dec: concatenations of valid frames, every split position for wires <= 64 bytes and random k-way "
        "splits above, arbitrary byte strings, truncated tails. Non-trivial = input contains >= 2 frames, or a "
        "split inside a 7-byte header, or an unknown command byte, or a length >= 65535; distinct by sha256 of the case.")
SIDE_LEMMAS = 6
ASSUMPTIONS = ["bytes::BytesMut / tokio_util::codec traits behave as documented",
               "the model is tied to codec.rs by differential execution on the cases counted below (sampling)"]
Case = Case
SIDS = [0, 1, 2, 255, 256, 65535, 65536, 2**31 - 1, 2**31, 2**32 - 1]


def ref_encode(c, sid, data):
    cb = c if c <= 10 else 0
    return bytes([cb]) + sid.to_bytes(4, "big") + len(data).to_bytes(2, "big") + data


def ref_stream_decode(chunks):
    buf, out = b"", []
    for ch in chunks:
        buf += ch
        while len(buf) >= 7:
            ln = int.from_bytes(buf[5:7], "big")
            if len(buf) < 7 + ln:
                break
            c = buf[0] if buf[0] <= 10 else 0
            out.append("F %d %d %s" % (c, int.from_bytes(buf[1:5], "big"), hx(buf[7:7 + ln])))
            buf = buf[7 + ln:]
        out.append("R %d |" % len(buf))
    return " ".join(out)


def corpus_cases():
    return corpus("C03")


def gen_cases(tier, seed):
    r = rng(seed, "C03")
    cs = []
    n = 0

    def add(drv, args, kind, nt):
        nonlocal n
        n += 1
        cs.append(Case("c%d" % n, drv, args, kind, nt))
    # ---- encoder
    for c in range(256):
        sid = SIDS[c % len(SIDS)]
        ln = LEN_BOUNDARY[c % len(LEN_BOUNDARY)]
        add("enc", [c, sid, hx(rbytes(r, ln))], "enc", c > 10 or ln >= 65535)
    for ln in LEN_BOUNDARY + LEN_OVER:
        for sid in (0, 2**32 - 1):
            add("enc", [2, sid, hx(rbytes(r, ln))], "enc-boundary" if ln <= 65535 else "enc-oversize", ln >= 65535)
    # ---- encoder into a shared output buffer: a refused frame in the middle must leave the buffer untouched (the frames
    # encoded before and after it stay decodable) -- seed C03-4
    for i in range(30 if tier == "quick" else 300):
        k = r.randint(2, 6)
        toks = []
        for j in range(k):
            over = r.random() < 0.35
            ln = r.choice(LEN_OVER) if over else r.choice([0, 1, 7, 100, 65535])
            toks.append("%d:%d:%d:%d" % (r.choice([0, 1, 2, 3, 7, 10, 77]), r.choice(SIDS), ln, r.randint(0, 255)))
        add("encseq", toks, "enc-shared-buffer", any(int(t.split(":")[2]) > 65535 for t in toks))
    # ---- decoder: valid concatenations, every split for short wires
    nshort = 40 if tier == "quick" else 400
    for i in range(nshort):
        k = r.randint(1, 4)
        wire = b"".join(ref_encode(r.choice([0, 1, 2, 3, 4, 7, 9, 10, 11, 200, 255]), r.choice(SIDS), rbytes(r, r.choice([0, 0, 1, 2, 5, 9]))) for _ in range(k))
        wire += r.choice([b"", b"", rbytes(r, r.randint(1, 6)), ref_encode(2, 1, b"abcdef")[:r.randint(7, 12)]])
        for pos in range(0, len(wire) + 1):
            if len(wire) > 64 and pos % 3:
                continue
            add("dec", [hx(wire[:pos]), hx(wire[pos:])], "dec-split2", True)
    nlong = 120 if tier == "quick" else 4000
    for i in range(nlong):
        k = r.randint(1, 6)
        frames = []
        for _ in range(k):
            ln = r.choice(LEN_BOUNDARY) if r.random() < 0.35 else r.randint(0, 300)
            if tier == "quick" and ln > 9000 and r.random() < 0.7:
                ln = r.randint(0, 300)
            frames.append(ref_encode(r.randint(0, 255) if r.random() < 0.3 else r.randint(0, 10), r.choice(SIDS) if r.random() < 0.5 else r.getrandbits(32), rbytes(r, ln)))
        wire = b"".join(frames)
        if r.random() < 0.4:
            wire += ref_encode(2, 7, rbytes(r, 50))[:r.randint(1, 56)]
        add("dec", [hx(p) for p in splits(r, wire, r.randint(1, 8))], "dec-random-split", k >= 2)
    # ---- decoder: arbitrary bytes
    narb = 300 if tier == "quick" else 20000
    for i in range(narb):
        ln = r.choice([0, 1, 6, 7, 8, 13, 14, 20, 50, 200, 1000])
        data = bytearray(rbytes(r, ln))
        if ln >= 7 and r.random() < 0.7:
            data[5] = 0; data[6] = r.randint(0, 12)      # small length so that several frames parse
        add("dec", [hx(p) for p in splits(r, bytes(data), r.randint(1, 4))], "dec-arbitrary", ln >= 14)
    return cs


def oracle(c, ir):
    if c.drv == "enc":
        cb, sid, data = int(c.args[0]), int(c.args[1]), unhx(c.args[2])
        if len(data) > 65535:
            return None if ir == "ERR" else "encoder accepted a %d-byte payload: %s" % (len(data), ir[:60])
        exp = "OK " + hx(ref_encode(cb, sid, data))
        return None if ir == exp else "encode(%d,%d,len %d): expected %s.. got %s.." % (cb, sid, len(data), exp[:60], ir[:60])
    if c.drv == "encseq":
        buf, verd = b"", []
        for tok in c.args:
            cb, sid, ln, seed = (int(x) for x in tok.split(":"))
            data = bytes((seed + i) & 255 for i in range(ln))
            if ln > 65535:
                verd.append("err")
            else:
                verd.append("ok"); buf += ref_encode(cb, sid, data)
        fnv = 2166136261
        for b in buf:
            fnv = ((fnv ^ b) * 16777619) & 0xFFFFFFFF
        exp = "%s | len=%d sum=%d fnv=%d" % (" ".join(verd), len(buf), sum(buf) & 0xFFFFFFFF, fnv)
        return None if ir == exp else ("frames encoded one after the other into one buffer (a refused frame must leave it as it was): expected %s got %s"
                                       % (exp, ir[:200]))
    if c.drv == "dec":
        exp = ref_stream_decode([unhx(a) for a in c.args])
        return None if ir == exp else "stream decode differs from the reference parser: expected %s got %s" % (exp[:200], ir[:200])
    return "unknown driver"


def same(c, ir, mr):
    return ir == mr


# ---- cross-check of the extraction: the same cases evaluated inside Coq by vm_compute must give what the extracted
# OCaml model printed (DESIGN 3.2: "the two evaluators must agree")
def _coq_bytes(b):
    return "[" + "; ".join(str(x) for x in b) + "]"


def extra_checks(cases, impl, model, tier):
    import os, re, subprocess, sys
    sys.path.insert(0, os.path.dirname(os.path.dirname(os.path.abspath(__file__))))
    import vlib
    pick = [c for c in cases if c.cid in model and sum(len(a) for a in c.args) < 400][: (120 if tier == "quick" else 600)]
    if not pick:
        return []
    d = os.path.join(vlib.CACHE, "xcheck")
    os.makedirs(d, exist_ok=True)
    lines = ["From Coq Require Import List NArith.", "From AnyTLS Require Import Bytes Cmd Generated Frame.", "Import ListNotations.", "Open Scope N_scope.",
             "Definition showf (f : frame) : list N := [byte_of_cmd (fcmd f); fsid f; lenN (fdata f)] ++ fdata f.",
             "Definition show_enc (o : option bytes) : list N := match o with Some e => 1 :: e | None => [0] end.",
             "Fixpoint show_dec (carry : bytes) (chunks : list bytes) : list N := match chunks with [] => [] | c :: r => "
             "let '(fs, carry') := feed carry c in flat_map (fun f => 777777 :: showf f) fs ++ [888888; lenN carry'] ++ show_dec carry' r end."]
    for c in pick:
        if c.drv == "enc":
            cb, sid, data = int(c.args[0]), int(c.args[1]), unhx(c.args[2])
            lines.append("Eval vm_compute in (show_enc (encode {| fcmd := cmd_of_byte %d; fsid := %d; fdata := %s |}))." % (cb, sid, _coq_bytes(data)))
        else:
            lines.append("Eval vm_compute in (show_dec [] [%s])." % "; ".join(_coq_bytes(unhx(a)) for a in c.args))
    f = os.path.join(d, "c03_cases.v")
    open(f, "w").write("\n".join(lines) + "\n")
    args = []
    for ln in open(os.path.join(vlib.COQ, "_CoqProject")):
        ln = ln.strip()
        if ln.startswith("-Q"):
            _, pth, l = ln.split()
            args += ["-Q", os.path.join(vlib.COQ, pth), l]
    rc, out, err, _ = vlib.run(["coqc", "-noglob"] + args + [f], cwd=d, timeout=600)
    if rc != 0:
        return [{"kind": "extraction-crosscheck", "what": "coqc failed on the vm_compute case file: " + (err or out)[-300:]}]
    blocks = re.findall(r"=\s*(\[.*?\])\s*:\s*list N", out, re.S)
    if len(blocks) != len(pick):
        return [{"kind": "extraction-crosscheck", "what": "expected %d vm_compute results, parsed %d" % (len(pick), len(blocks))}]
    bad = []
    for c, blk in zip(pick, blocks):
        got = [int(x) for x in re.findall(r"\d+", blk)]
        mr = model[c.cid]
        if c.drv == "enc":
            exp = [0] if mr == "ERR" else [1] + list(unhx(mr.split()[1]))
        else:
            exp = []
            toks = mr.split()
            i = 0
            while i < len(toks):
                if toks[i] == "F":
                    data = unhx(toks[i + 3])
                    exp += [777777, int(toks[i + 1]), int(toks[i + 2]), len(data)] + list(data)
                    i += 4
                elif toks[i] == "R":
                    exp += [888888, int(toks[i + 1])]
                    i += 2
                else:
                    i += 1
        if got != exp:
            bad.append(c.cid)
    if bad:
        return [{"kind": "extraction-crosscheck", "what": "vm_compute and the extracted OCaml model disagree on %d of %d cases, first %s" % (len(bad), len(pick), bad[0])}]
    return []
