"""C04 -- padding is invisible to the payload and keeps the wire well-formed.
Drivers: shape (a Session over the recording transport), sizes (generate_record_payload_sizes), pfnew (parser)."""
from .padding_common import *
from . import padding_common as pc

RULE = ("shape: grammar-generated schemes (0-13 lines, 1-8 entries per line, sizes from a boundary table incl. 65528..65535 "
        "and > 65535 up to 10^30, reversed ranges, check marks, junk parts, signs, leading zeros, blanks, CRLF, duplicate and "
        "non-canonical keys, missing lines, any stop incl. 0 and 2^32-1) x client sessions with and without start_client "
        "(packet 1 = Settings + several buffered frames) and server sessions x packets 1..stop+2 whose payload sizes are chosen "
        "around the sizes of the line in force (s-9..s+8, 2s+3, > 65535 via write_data_frame), payload frames incl. Waste-command "
        "frames and zero-filled data. sizes/pfnew: the same grammar plus arbitrary and non-ASCII bytes (outcome class only). "
        "Oracle: reference frame parser on the recorded writes; every packet ends on a frame boundary; deleting padding frames "
        "(cmd 0, stream 0, zero-filled) leaves exactly the submitted frames; no failure, no panic. "
        "Non-trivial = one of lines 1-3 has >= 2 entries or a size >= 65529; distinct by sha256 of the case.")
SIDE_LEMMAS = 7
ASSUMPTIONS = ["rand::random_range(min..=max) returns a value in [min, max] (draws are an explicit argument of the model)",
               "one write_all on the recording transport is one transport write (no short writes); tokio write_all of an empty slice performs no write",
               "text functions are modelled for ASCII scheme text; non-ASCII text is compared by outcome class only",
               "the model is tied to factory.rs / session.rs write_with_padding by differential execution on the cases counted below (sampling)"]
Case = PCase
IMPL_TIMEOUT = 900


def corpus_cases():
    return [PCase(c.cid, c.drv, c.args, c.kind, c.nontrivial) for c in corpus("C04")]


def gen_cases(tier, seed):
    r = rng(seed, "C04")
    cs = []
    n = 0

    def add(drv, args, kind, nt=False, model=True):
        nonlocal n
        n += 1
        c = PCase("c%d" % n, drv, args, kind, nt, model=model)
        if drv == "shape":
            c.nontrivial = nontrivial_shape(c)
        cs.append(c)
    nshape = 700 if tier == "quick" else 8000
    for i in range(nshape):
        txt = gen_scheme(r, over="safe" if r.random() < 0.6 else False, fancy=r.random() < 0.5, junk=r.random() < 0.5)
        raw = txt.encode()
        sch = Scheme(raw)
        role = "c" if r.random() < 0.9 else "s"
        ops = gen_shape_ops(r, sch, role, big_ok=(i % (10 if tier == "quick" else 4) == 0))
        add("shape", [role, hx(raw)] + ops, "shape-" + ("client" if role == "c" else "server"), model=is_ascii(raw))
    # the same shaping over a transport that accepts only a few bytes per write (short writes: every record must be written
    # with write_all semantics, padding-only records included) -- implementation + oracle only (seed C04-4)
    for i in range(60 if tier == "quick" else 600):
        txt = gen_scheme(r, over="safe", fancy=r.random() < 0.3, junk=False)
        raw = txt.encode()
        sch = Scheme(raw)
        ops = gen_shape_ops(r, sch, "c", big_ok=False)
        k = r.choice([1, 3, 7, 16, 100, 500])
        add("shape", ["c", hx(raw), "maxw=%d" % k] + ops, "shape-short-writes", model=False)
    # boundary table: one size s, payload lengths around it, at packet 1 and packet 2
    sizes = [1, 7, 8, 9, 30, 65527, 65528, 65529, 65535, 65536, 70000, 2**31, 2**32 - 1, 2**63]
    for s in sizes:
        for delta in (-8, -7, -1, 0, 1, 9):
            for pk in (1, 2):
                raw = ("stop=3\n%d=%d-%d,c,%d-%d" % (pk, s, s, s, s)).encode()
                tot = s + delta if s <= 70000 else 50 + delta
                if tot < HDR or (tier == "quick" and s > 1000 and delta not in (-8, 0, 1)):
                    continue
                ops = (["F:2.1.3.1.1"] if pk == 2 else [])
                ops += ["D:1.%d.1.1" % (tot - HDR)] if tot - HDR > 65535 else ["F:2.1.%d.1.1" % (tot - HDR)]
                add("shape", ["c", hx(raw)] + ops, "shape-boundary")
    # size generation and parsing, pure
    nsz = 1500 if tier == "quick" else 40000
    for i in range(nsz):
        txt = gen_scheme(r, over=True, fancy=True, junk=True)
        raw = txt.encode()
        if r.random() < 0.08:
            raw = raw.replace(b" ", r.choice([" ", " ", "\u0085", "é"]).encode(), 1) + r.choice([b"", b"\xff", b"\xc3"])
        pkt = r.choice([0, 1, 1, 2, 2, 3, 4, 5, 7, 8, 10, 12, 13, 4294967295])
        add("sizes", [hx(raw), pkt], "sizes", nt=True, model=is_ascii(raw))
    for i in range(300 if tier == "quick" else 5000):
        x = r.random()
        if x < 0.5:
            raw = gen_scheme(r).encode()
            if r.random() < 0.5:
                raw = raw.replace(b"stop", r.choice([b"Stop", b"stop ", b"st op", b"\tstop", b"stop\xc2\xa0"]), 1)
        elif x < 0.8:
            v = r.choice(["", "-1", "+0", "4294967295", "4294967296", "00000000000000000000007", "1 2", "0x5", "٣", "3\r", " 3", "3=4", "+", "-0", "1e2"])
            raw = ("stop=%s\n1=5-5" % v).encode()
        else:
            raw = rbytes(r, r.randint(0, 40))
        add("pfnew", [hx(raw)], "pfnew", nt=True, model=is_ascii(raw))
    return cs


def after_impl(cases, impl):
    for c in cases:
        if c.drv == "shape" and c.cid in impl:
            try:
                _, d = check_shape(c, impl[c.cid], check_wire=False, check_sizes=False)
                c.draws = d
            except Exception:
                c.draws = None


def sizes_consistent(entries, sizes):
    """impl sizes (i32 list) vs entries ('c' | (lo,hi)): same length, check marks aligned, sizes in range"""
    if len(entries) != len(sizes):
        return "%d sizes for %d usable entries" % (len(sizes), len(entries))
    for e, s in zip(entries, sizes):
        if e == "c":
            if s != -1:
                return "check mark produced %d" % s
        elif not (e[0] <= s <= e[1]):
            return "size %d outside %d-%d" % (s, e[0], e[1])
    return None


def oracle(c, ir):
    if c.drv == "shape":
        f, _ = check_shape(c, ir, check_wire=True, check_sizes=False)
        return f
    if c.drv == "sizes":
        sch = Scheme(unhx(c.args[0]))
        if not sch.ok:
            return None if ir == "ERR" else "scheme without usable stop accepted"
        if ir.startswith("PANIC") or not ir.startswith("S"):
            return "size generation failed: %s" % ir[:80]
        sizes = [int(x) for x in ir.split()[1:]]
        # what the wire can carry: a size is a check mark (-1) or fits one padding frame
        for s in sizes:
            if s != -1 and not (1 <= s <= MAX_SIZE):
                return "generated size %d cannot be expressed as one record (1..65535) and is not the check mark" % s
        return sizes_consistent(sch.entries(int(c.args[1])), sizes)
    if c.drv == "pfnew":
        sch = Scheme(unhx(c.args[0]))
        exp = "OK %d %s" % (sch.stop, sch.md5) if sch.ok else "ERR"
        return None if ir == exp else "parser: expected %s got %s" % (exp, ir[:60])
    return "unknown driver"


def same(c, ir, mr):
    if c.drv == "shape":
        if ir.startswith("PANIC") or mr.startswith("PANIC"):
            return ir.startswith("PANIC") and mr.startswith("PANIC")
        return canon_shape(ir, None) == canon_shape(mr, None)
    if c.drv == "sizes":
        if ir == "ERR" or mr == "ERR":
            return ir == mr
        try:
            ents = []
            for t in mr.split()[1:]:
                if t == "c":
                    ents.append("c")
                else:
                    a, b = t.split("-")
                    ents.append((int(a), int(b)))
            return sizes_consistent(ents, [int(x) for x in ir.split()[1:]]) is None
        except ValueError:
            return False
    return ir == mr
