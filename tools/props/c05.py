"""C05 -- early client packets are shaped as the padding scheme prescribes (parts a, b, c; the ordering of
bursts under concurrent writers, part d, is checked by the write-path package).
Drivers: auth (send_authentication), shape (a Session over the recording transport)."""
from .padding_common import *

RULE = ("auth: grammar-generated line 0 (degenerate and non-degenerate ranges, check mark first, junk, sizes > 65535, missing line); "
        "shape: client sessions with and without start_client (packet 1 = Settings + buffered frames) and server sessions, packets "
        "1..stop+2, payload sizes chosen around the sizes of the line in force (s-9..s+8, 2s+3), schemes with 1-8 entries per line, "
        "check marks, reversed ranges, sizes up to 65535 (and some above: such an entry cannot be carried by one padding frame and is "
        "ignored like a non-positive one). Oracle: the range-based reference acceptor re-implemented in Python from the property text "
        "(payload-only record = a size in the range; payload completed with padding = a size in the range, or the bare payload when a "
        "size in the range leaves fewer than 8 bytes of room; padding-only record = size + 7; stop at a check mark once no payload "
        "remains; the remainder after the last size in one write), applied to the writes between two flushes; packet k uses line k; "
        "k >= stop and server: exactly one write = the payload. "
        "Non-trivial = the case reaches a packet k >= 1 below stop whose line has a non-degenerate range or a check mark.")
SIDE_LEMMAS = 7
ASSUMPTIONS = ["rand::random_range(min..=max) returns a value in [min, max]; the draws are inferred from the observed write lengths and handed to the model",
               "one write_all on the recording transport is one transport write; a flush ends a packet",
               "part (d) of the property (schedules of concurrent writers) is covered by C11's scheduled driver, not here",
               "the model is tied to write_with_padding / send_authentication by differential execution on the cases counted below (sampling)"]
Case = PCase
IMPL_TIMEOUT = 900
from . import c11 as _c11     # clause (d): ordering of bursts under concurrent writers (scheduled driver `conc`)
from . import c19 as _c19     # sessions whose scheme is replaced by a pushed one (borrowed histories)


def corpus_cases():
    return [PCase(c.cid, c.drv, c.args, c.kind, c.nontrivial) for c in corpus("C05")]


def nontrivial(c):
    if c.drv != "shape":
        return False
    role, raw, packets = shape_plan(c)
    sch = Scheme(raw)
    if not sch.ok or role != "c":
        return False
    npk = sum(len(p) for p in packets if isinstance(p, list))
    for k in range(1, min(npk, sch.stop - 1 if sch.stop else 0) + 1):
        es = sch.entries(k)
        if any(e == "c" or e[0] != e[1] for e in es):
            return True
    return False


def gen_cases(tier, seed):
    r = rng(seed, "C05")
    cs = []
    n = 0

    def add(drv, args, kind, model=True):
        nonlocal n
        n += 1
        c = PCase("c%d" % n, drv, args, kind, False, model=model)
        c.nontrivial = nontrivial(c) if drv == "shape" else True
        cs.append(c)
    for i in range(300 if tier == "quick" else 6000):
        line0 = gen_line(r, over="safe" if r.random() < 0.3 else False, fancy=r.random() < 0.4, junk=r.random() < 0.4)
        x = r.random()
        if x < 0.1:
            txt = "stop=%d" % r.choice([0, 1, 5])
        else:
            txt = "stop=%d\n0=%s\n1=5-5" % (r.choice([0, 1, 8]), line0)
        add("auth", [hx(txt.encode())], "auth")
    for s in [1, 2, 255, 256, 65534, 65535, 65536, 70000, 2**32 - 1]:
        add("auth", [hx(("stop=2\n0=%d-%d" % (s, s)).encode())], "auth-boundary")
    nshape = 600 if tier == "quick" else 6000
    for i in range(nshape):
        txt = gen_scheme(r, over="safe" if r.random() < 0.15 else False, fancy=r.random() < 0.3, junk=r.random() < 0.3,
                         stop=r.choice([1, 2, 3, 3, 4, 5, 8]), nondeg=0.6)
        raw = txt.encode()
        sch = Scheme(raw)
        role = "c" if r.random() < 0.85 else "s"
        ops = gen_shape_ops(r, sch, role, big_ok=(i % (10 if tier == "quick" else 4) == 0))
        add("shape", [role, hx(raw)] + ops, "shape-" + ("client" if role == "c" else "server"), model=is_ascii(raw))
    # the built-in scheme, whole life of a session up to stop+1
    default = open(os.path.join(os.environ.get("VERIF_REPO", "/repo"), "src/padding/factory.rs")).read()
    import re
    m = re.search(r'DEFAULT_PADDING_SCHEME\s*:\s*&str\s*=\s*r#"(.*?)"#', default, re.S)
    if m:
        raw = m.group(1).encode()
        sch = Scheme(raw)
        for i in range(40 if tier == "quick" else 1000):
            ops = gen_shape_ops(r, sch, "c", big_ok=False)
            add("shape", ["c", hx(raw)] + ops, "shape-builtin")
    # clause (d): every interleaving of two openers' first steps on a fresh session (quick: depth 8 = 256 schedules)
    for c in _c11.gen_cases(tier, seed):
        if c.kind == "exhaustive-2tasks":
            bits = c.args[c.args.index("sched") + 1:]
            if tier == "quick" and any(b != "1" for b in bits[8:10]):
                continue            # depth 8 in the quick tier: keep the schedules whose 9th and 10th grants go to task 1
            cs.append(PCase("ord_" + c.cid, c.drv, c.args, "ordering-" + c.kind, True))
    # "the scheme" of a session is the one in force: after a pushed update the packets below the NEW stop value are
    # shaped by the new lines, also when the session had already passed the stop value of its first scheme (seed C05-7
    # latched padding off for good at the first stop). C19's process histories with an adopted push followed by writes,
    # judged by the same per-packet rule (tools/props/c19.py: Sim.walk), a capped share in the quick tier
    k = 0
    for c in _c19.gen_cases(tier, seed):
        if c.drv == "c19" and _c19.nontrivial(c) and any(op.startswith("P:") for op in c.args):
            if tier == "quick" and k >= 60:
                break
            k += 1
            c.cid = "c19_" + c.cid
            c.kind = "pushed-scheme:" + c.kind
            c.meta = dict(c.meta or {}, borrowed="c19")
            cs.append(c)
    return cs


def auth_expect(c):
    sch = Scheme(unhx(c.args[0]))
    if not sch.ok:
        return sch, None
    es = sch.entries(0)
    return sch, es


def after_impl(cases, impl):
    _c19.after_impl([c for c in cases if c.drv == "c19"], impl)
    for c in cases:
        if c.cid not in impl or c.drv in ("conc", "mtstart", "c19"):
            continue
        try:
            if c.drv == "shape":
                _, d = check_shape(c, impl[c.cid], check_wire=False, check_sizes=False)
                c.draws = d
            elif c.drv == "auth":
                sch, es = auth_expect(c)
                if es is None:
                    continue
                ops = parse_ops_result(impl[c.cid] + " ;")
                wire = b"".join(e[1] for e in ops[0][0] if e[0] == "W") if ops else b""
                L = int.from_bytes(wire[32:34], "big") if len(wire) >= 34 else 0
                d = []
                for j, e in enumerate(es):
                    if e != "c" and e[0] != e[1]:
                        d.append(min(max(L, e[0]), e[1]) if j == 0 else e[0])
                c.draws = [d]
        except Exception:
            c.draws = None


def oracle(c, ir):
    if c.drv in ("conc", "mtstart"):
        return _c11.oracle(c, ir)      # includes: the n-th burst on the transport was shaped with packet number n
    if c.drv == "c19":
        return _c19.oracle(c, ir)
    if c.drv == "shape":
        f, _ = check_shape(c, ir, check_wire=True, check_sizes=True)
        return f
    if c.drv == "auth":
        sch, es = auth_expect(c)
        if es is None:
            return None if ir == "ERR" else "scheme without usable stop accepted"
        if ir.startswith("PANIC") or ir == "ERR":
            return "authentication preamble failed: %s" % ir[:80]
        ops = parse_ops_result(ir + " ;")
        events = ops[0][0]
        if ops[0][1]:
            return "send_authentication returned an error"
        if not events or events[-1] != ("|",):
            return "preamble not flushed"
        wire = b"".join(e[1] for e in events if e[0] == "W")
        if wire[:32] != AUTH_HASH or len(wire) < 34:
            return "preamble does not start with the 32-byte hash and a length"
        L = int.from_bytes(wire[32:34], "big")
        if wire[34:] != bytes(L):
            return "padding0 is not exactly %d zero bytes (got %d bytes)" % (L, len(wire) - 34)
        if not es or es[0] == "c":
            return None if L == 0 else "line 0 gives no size, padding0 length must be 0, got %d" % L
        lo, hi = es[0]
        return None if lo <= L <= hi else "padding0 length %d is not the size given by line 0 (%d-%d)" % (L, lo, hi)
    return "unknown driver"


def same(c, ir, mr):
    if c.drv in ("conc", "mtstart"):
        return _c11.same(c, ir, mr)
    if c.drv == "c19":
        return _c19.same(c, ir, mr)
    if c.drv == "shape":
        if ir.startswith("PANIC") or mr.startswith("PANIC"):
            return ir.startswith("PANIC") and mr.startswith("PANIC")
        return canon_shape(ir, None) == canon_shape(mr, None)
    return ir == mr
