"""C06 -- only holders of the password get a session. Drivers: authsrv (authenticate_client over a scripted
transport), authtls (real Server::listen + TLS on loopback: does a target get dialled?)."""
import hashlib
from .base import *
from .parsers_util import *

RULE = ("authsrv: right hash x declared padding0 lengths from the boundary table (0..65535) x 1-5-way fragmentations; all 256 "
        "single-bit and 32 single-byte deviations of the hash; structured near-misses (same mask on 2/3/4 bytes = XOR-fold zero, byte "
        "swaps/rotations/permutation/reversal = same multiset, +d/-d = same sum, first-k / last-k bytes equal for k = 1..31, "
        "alternate bytes equal, complement, all-zero, all-0xFF); hashes of related passwords; every truncation of a valid preamble "
        "(open and closed transport); every 2-way split of a short preamble; random preambles. authtls: real TLS connections to "
        "Server::listen (right hash with several paddings/fragmentations, bit/byte deviations, near-misses, related passwords, "
        "truncations, and a slow peer: a few preamble bytes, > 11 s of silence, then frames). "
        "Non-trivial = hash differs from the right one in <= 8 bits, or is right with padding > 0, or the input is fragmented "
        "(>= 2 non-empty chunks), or the case is an end-to-end TLS connection; distinct by sha256 of the case.")
SIDE_LEMMAS = 3
ASSUMPTIONS = ["SHA-256 is the sha2 crate (trusted); that the comparison is `password_hash != *expected_password_hash` on whole arrays and that handle_connection propagates the result with a bare `.await?` before building the session are re-read from the sources on every run (Generated.auth_*, side lemmas in FactsParsers.v)",
               "tokio AsyncReadExt::read_exact loops over partial reads and reports UnexpectedEof at end of input (modelled by Reader.v's read_exact)",
               "the session's reaction to the bytes after the preamble is a parameter of server_conn (M4, another package); the end-to-end TLS cases tie handle_connection's order of operations",
               "model tied to auth.rs / server.rs by differential execution on the cases counted below (sampling)"]
TRUSTED_EXTRA = ["rustls/tokio-rustls (TLS transport of the end-to-end cases), sha2"]
Case = Case
H = hashlib.sha256(b"verif").digest()
PADS = [0, 1, 2, 3, 255, 256, 257, 8191, 8192, 65534, 65535]
RELATED = [b"verif ", b" verif", b"Verif", b"VERIF", b"verif1", b"veri", b"", b"verif\n", b"verig", b"verif\x00"]


def preamble(h, pad):
    return h + be16(pad) + bytes(pad)


def ref_auth(h, data, eof):
    short = "ERR EOF" if eof else "PENDING"
    if len(data) < 32:
        return short
    if data[:32] != h:
        return "ERR AUTH"
    if len(data) < 34:
        return short
    L = int.from_bytes(data[32:34], "big")
    if len(data) < 34 + L:
        return short
    return "OK " + hx(data[34 + L:])


def near_misses(r, h, quick):
    """32-byte strings that agree with h under some weaker notion of equality (XOR fold, multiset, sum, prefix, suffix...)"""
    out = []

    def put(kind, b):
        b = bytes(b)
        if b != h and len(b) == 32:
            out.append((kind, b))
    # same mask on 2 / 4 bytes: the byte-wise XOR difference folds to zero
    pairs = [(3, 28), (0, 31), (0, 1), (15, 16), (30, 31)] + [tuple(sorted(r.sample(range(32), 2))) for _ in range(6 if quick else 60)]
    for (i, j) in pairs:
        for mask in ([0x80, 0x01, 0xff] if quick else [0x80, 0x40, 0x01, 0x0f, 0x55, 0xff, r.randint(1, 255)]):
            b = bytearray(h); b[i] ^= mask; b[j] ^= mask
            put("xor-fold-pair", b)
    for _ in range(6 if quick else 60):
        idx = r.sample(range(32), 4)
        mask = r.randint(1, 255)
        b = bytearray(h)
        for i in idx:
            b[i] ^= mask
        put("xor-fold-quad", b)
    for _ in range(4 if quick else 40):           # three masks a, b, a^b
        i, j, k = r.sample(range(32), 3)
        a, c = r.randint(1, 255), r.randint(1, 255)
        b = bytearray(h); b[i] ^= a; b[j] ^= c; b[k] ^= a ^ c
        put("xor-fold-triple", b)
    # same multiset of bytes
    for (i, j) in [(0, 1), (0, 31), (7, 19)] + [tuple(r.sample(range(32), 2)) for _ in range(4 if quick else 40)]:
        b = bytearray(h); b[i], b[j] = b[j], b[i]
        put("byte-swap", b)
    for k in ([1, 16, 31] if quick else range(1, 32)):
        put("rotation", h[k:] + h[:k])
    put("reversed", h[::-1])
    b = bytearray(h); r.shuffle(b); put("permutation", b)
    # same sum of bytes
    for _ in range(6 if quick else 60):
        i, j = r.sample(range(32), 2)
        d = r.choice([1, 1, 2, 16, 128])
        b = bytearray(h)
        if b[i] + d <= 255 and b[j] - d >= 0:
            b[i] += d; b[j] -= d
            put("sum-preserving", b)
    # equal in the first k / last k bytes only
    for k in range(1, 32):
        b = bytearray(h)
        for i in range(k, 32):
            b[i] ^= 0xA5 if (quick or r.random() < 0.5) else r.randint(1, 255)
        put("first-k-equal", b)
        b = bytearray(h)
        for i in range(0, 32 - k):
            b[i] ^= 0x5A if (quick or r.random() < 0.5) else r.randint(1, 255)
        put("last-k-equal", b)
    # every second byte equal, nibbles swapped, case-like changes
    put("even-bytes-equal", bytes(x if i % 2 == 0 else x ^ 0xff for i, x in enumerate(h)))
    put("odd-bytes-equal", bytes(x if i % 2 == 1 else x ^ 0xff for i, x in enumerate(h)))
    put("nibbles-swapped", bytes(((x << 4) | (x >> 4)) & 255 for x in h))
    put("complement", bytes(x ^ 0xff for x in h))
    put("all-zero", bytes(32))
    put("all-ff", b"\xff" * 32)
    put("incremented", bytes((x + 1) & 255 for x in h))
    put("hex-text-of-hash", h.hex().encode()[:32])
    return out


def corpus_cases():
    cs = corpus("C06")
    for c in cs:
        if c.drv in ('authtls',):
            c.model = False      # end-to-end drivers have no model side (oracle only)
    return cs


def bits_diff(a, b):
    return sum(bin(x ^ y).count("1") for x, y in zip(a, b))


def gen_cases(tier, seed):
    r = rng(seed, "C06")
    cs = []
    n = 0

    def add(h, parts, eof, kind, nt=None):
        nonlocal n
        n += 1
        data = b"".join(parts)
        sent = data[:32]
        if nt is None:
            close = len(sent) == 32 and sent != h and bits_diff(sent, h) <= 8
            padded = sent == h and len(data) >= 34 and int.from_bytes(data[32:34], "big") > 0
            nt = close or padded or sum(1 for p in parts if p) >= 2
        cs.append(Case("a%d" % n, "authsrv", [hx(h), int(eof)] + chunks_arg(parts), kind, nt))

    quick = tier == "quick"
    # right hash, padding boundaries, fragmentations
    for pad in PADS:
        reps = 1 if (quick and pad > 9000) else (3 if quick else 12)
        for _ in range(reps):
            rest = rbytes(r, r.choice([0, 0, 1, 7, 20]))
            add(H, frag(r, preamble(H, pad) + rest), r.random() < 0.3, "right-hash")
    # random other expected hashes
    for _ in range(20 if quick else 200):
        h = rbytes(r, 32)
        pad = r.choice([0, 1, 5, 300])
        add(h, frag(r, preamble(h, pad) + rbytes(r, r.randint(0, 9))), r.random() < 0.3, "right-hash")
    # all 256 single-bit deviations
    for bit in range(256):
        h2 = bytearray(H)
        h2[bit // 8] ^= 1 << (bit % 8)
        add(H, frag(r, preamble(bytes(h2), r.choice([0, 2])) + rbytes(r, 3), 3), r.random() < 0.2, "bit-deviation")
    # all 32 single-byte deviations
    for i in range(32):
        for _ in range(1 if quick else 8):
            h2 = bytearray(H)
            h2[i] = (h2[i] + r.randint(1, 255)) % 256
            add(H, frag(r, preamble(bytes(h2), 1) + rbytes(r, 2), 3), False, "byte-deviation")
    # related passwords
    for pw in RELATED:
        add(H, frag(r, preamble(hashlib.sha256(pw).digest(), 0) + rbytes(r, 4), 3), False, "related-password")
    # structured near-misses: every one must be refused with nothing consumed beyond the 32 bytes
    for kind, h2 in near_misses(r, H, quick):
        tail = preamble(h2, r.choice([0, 0, 2]))[32:] + rbytes(r, r.choice([0, 3]))
        add(H, frag(r, h2 + tail, 3), r.random() < 0.2, "near-" + kind, True)
    h3 = rbytes(r, 32)
    for kind, h2 in near_misses(r, h3, True)[:: (4 if quick else 1)]:
        add(h3, [h2, b"\x00\x00"], False, "near-" + kind, True)
    # hash that is right only in a prefix / suffix
    for k in (1, 8, 16, 31):
        add(H, [H[:k] + bytes(32 - k), b"\x00\x00"], False, "prefix-only", True)
        add(H, [bytes(32 - k) + H[32 - k:], b"\x00\x00"], False, "suffix-only", True)
    # every truncation of a valid preamble
    for pad in (0, 3):
        full = preamble(H, pad)
        for cut in range(len(full) + 1):
            for eof in (0, 1):
                add(H, frag(r, full[:cut], 3), eof, "truncation", True)
    for pad in (255, 256, 65535):
        full = preamble(H, pad)
        for cut in (33, 34, 35, 34 + pad - 1):
            for eof in (0, 1):
                add(H, frag(r, full[:cut], 4), eof, "truncation", True)
    # every 2-way split of a short accepted preamble followed by frame bytes
    full = preamble(H, 3) + b"\x02\x00\x00\x00\x01"
    for parts in all_splits2(full):
        add(H, parts, False, "split2", True)
    add(H, bytewise(full), False, "bytewise", True)
    add(H, bytewise(preamble(bytes(32), 0)), True, "bytewise", True)
    # random garbage
    for _ in range(60 if quick else 2000):
        ln = r.choice([0, 1, 31, 32, 33, 34, 40, 100])
        add(H, frag(r, rbytes(r, ln)), r.random() < 0.5, "random")
    # ---- end to end over TLS
    def tls(h, pad, cut, fr, kind, layout="n"):
        nonlocal n
        n += 1
        cs.append(Case("t%d" % n, "authtls", [hx(h), pad, "-" if cut is None else cut, fr, layout], kind, True, model=False))
    k = 1 if quick else 12
    for pad, fr in ((0, "-"), (30, "7,1,100"), (1000, "500"), (3, "1"), (65535, "16000")):
        for _ in range(k):
            tls(H, pad, None, fr, "tls-right")
    for bit in ([0, 7, 100, 255] if quick else range(0, 256, 3)):
        h2 = bytearray(H)
        h2[bit // 8] ^= 1 << (bit % 8)
        tls(bytes(h2), r.choice([0, 30]), None, r.choice(["-", "5", "33"]), "tls-bit-deviation")
        # frames directly after the 32 bytes: a server that builds the session despite the failed check would dial
        tls(bytes(h2), 0, None, r.choice(["-", "32", "5"]), "tls-bit-deviation-bare", "h")
    for i in ([0, 15, 31] if quick else range(32)):
        h2 = bytearray(H)
        h2[i] = (h2[i] + 1) % 256
        tls(bytes(h2), 0, None, "-", "tls-byte-deviation")
    for pw in (RELATED[:3] if quick else RELATED):
        tls(hashlib.sha256(pw).digest(), 30, None, "-", "tls-related-password")
    for cut in ((10, 32, 33, 40) if quick else (0, 1, 10, 31, 32, 33, 34, 40, 63)):
        tls(H, 30, cut, "-", "tls-truncated")
    nm = near_misses(r, H, True)
    want = ["xor-fold-pair", "xor-fold-quad", "byte-swap", "rotation", "sum-preserving", "first-k-equal", "last-k-equal", "reversed", "complement", "all-ff"]
    for kind in want:
        cands = [b for k2, b in nm if k2 == kind]
        for h2 in (cands[:1] if quick else cands[:6]):
            tls(h2, r.choice([0, 30]), None, "-", "tls-near-" + kind)
            tls(h2, 0, None, "-", "tls-near-%s-bare" % kind, "h")
    # slow peer: TLS up, n bytes of the right hash, silence longer than any plausible authentication timeout, then
    # frames for a local listener: no dial, no reply (a server that stops waiting must drop the connection, not keep it)
    for nbytes, ms in ([(5, 11000)] if quick else [(0, 11000), (5, 11500), (31, 12000), (5, 31000)]):
        cs.append(Case("slow%d_%d" % (nbytes, ms), "authtls", [hx(H), 0, "-", "-", "s", nbytes, ms], "tls-slow-peer", True, model=False))
    tls(bytes(32), 0, None, "-", "tls-zero-hash")
    tls(bytes(32), 0, None, "-", "tls-zero-hash-bare", "h")
    tls(hashlib.sha256(b"Verif").digest(), 0, None, "-", "tls-related-password-bare", "h")
    tls(H[:31] + bytes([H[31] ^ 1]), 0, None, "1", "tls-last-bit")
    # the configured password is hashed as it is: servers configured with passwords that carry surrounding or inner
    # white space, control bytes, upper case or non-ASCII text; the preamble is the SHA-256 of exactly those bytes
    # (session) or of a normalised relative (trimmed, lower-cased, NFC/NFD, without the newline: no session)
    pws = ODD_PASSWORDS if not quick else ODD_PASSWORDS[:5]
    for pw in ODD_PASSWORDS:
        n += 1
        cs.append(Case("hp%d" % n, "hashpw", [hx(pw)], "hash-of-configured-password", True, model=False))
    for pw in pws:
        n += 1
        cs.append(Case("t%d" % n, "authtls", [hx(hashlib.sha256(pw).digest()), 0, "-", "-", "n", "pw=" + hx(pw)],
                       "tls-odd-password-right", True, model=False))
        for rel in relatives(pw)[:(2 if quick else 9)]:
            n += 1
            cs.append(Case("t%d" % n, "authtls", [hx(hashlib.sha256(rel).digest()), 0, "-", "-", r.choice(["n", "h"]), "pw=" + hx(pw)],
                           "tls-odd-password-relative", True, model=False))
    return cs


ODD_PASSWORDS = [b"verif ", b" verif", b"verif\n", b"\tverif\r\n", b"Verif-PW", b"ver if", b"verif\x00", "p\u00e4ss".encode(),
                 "pa\u0308ss".encode(), b"  ", b"verif\x0b", b"\xc2\xa0verif\xc2\xa0", b"VERIF"]


def relatives(pw):
    out = []
    t = pw.decode()
    for v in (t.strip(), t.rstrip(), t.lstrip(), t.rstrip("\n"), t.lower(), t.upper(), t.replace(" ", ""), t.rstrip("\x00"),
              __import__("unicodedata").normalize("NFC", t), __import__("unicodedata").normalize("NFD", t), t.strip() + " "):
        b = v.encode()
        if b != pw and b not in out:
            out.append(b)
    return out


def oracle(c, ir):
    if c.drv == "authsrv":
        h, eof = unhx(c.args[0]), c.args[1] == "1"
        data = b"".join(unhx(a) for a in c.args[2:])
        exp = ref_auth(h, data, eof)
        return None if ir == exp else "authenticate_client: expected %s got %s" % (short(exp), short(ir))
    if c.drv == "hashpw":
        exp = hashlib.sha256(unhx(c.args[0])).hexdigest()
        return None if ir == exp else ("hash_password(%r) = %s, but the SHA-256 of the configured password is %s"
                                       % (unhx(c.args[0]), ir, exp))
    if c.drv == "authtls" and c.args[-1].startswith("pw="):
        pw = unhx(c.args[-1][3:])
        h = unhx(c.args[0])
        f = dict(t.split("=") for t in ir.split() if "=" in t)
        if "DIAL" not in f:
            return "end-to-end driver failed: " + ir
        if h == hashlib.sha256(pw).digest():
            return None if f["DIAL"] == "1" else ("the server is configured with the password %r; a preamble that is the SHA-256 of "
                                                  "exactly that password was not given a session: %s" % (pw, ir))
        if f["DIAL"] != "0" or f["REPLY"] != "0":
            return ("the server is configured with the password %r; a preamble that is NOT its SHA-256 (the hash of a related "
                    "password) got a session: %s" % (pw, ir))
        return None
    if c.drv == "authtls":
        h, pad, cut = unhx(c.args[0]), int(c.args[1]), c.args[2]
        f = dict(t.split("=") for t in ir.split() if "=" in t)
        if "DIAL" not in f:
            return "end-to-end driver failed: " + ir
        if len(c.args) > 4 and c.args[4] == "s":
            if f["DIAL"] != "0" or f["REPLY"] != "0":
                return ("a peer that sent only %s preamble bytes, stayed silent %s ms and then sent frames got a session "
                        "without the password: %s" % (c.args[5], c.args[6], ir))
            return None
        if h == H and cut == "-":
            return None if f["DIAL"] == "1" else "right password but the target was never dialled: " + ir
        if h != H:
            if f["DIAL"] != "0":
                return "a connection whose preamble is not the password hash made the server dial the target: " + ir
            if f["REPLY"] != "0":
                return "the server sent %s bytes of protocol reply to an unauthenticated connection" % f["REPLY"]
            return None
        # right hash, truncated inside the preamble
        if int(cut) < 34 + pad:
            if f["DIAL"] != "0" or f["REPLY"] != "0":
                return "truncated preamble (cut %s) produced a session: %s" % (cut, ir)
        return None
    return "unknown driver"


def short(s, n=120):
    return s if len(s) <= n else s[:n] + "..."


def same(c, ir, mr):
    return ir == mr
