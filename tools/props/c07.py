"""C07 -- traffic goes to exactly the requested destination. Drivers: destenc (client encoder through a real
session), destdec (server decoder read_socks_addr), udpinit (UDP initial request, names resolved through the
cache), dns (histories on resolve_host_with_cache), dial (end to end: client encoder -> frames -> the real
TcpProxyHandler -> resolver cache -> TcpStream::connect, observed at loopback listeners on 127.0.0.k:port)."""
import ipaddress, socket
from .base import *
from .parsers_util import *

RULE = ("destenc: IPv4/IPv6 literals (several spellings), names of 1,2,63,254,255,256,300 bytes, multi-byte UTF-8 names, "
        "near-literals, the UDP magic name x ports {0,1,80,255,256,443,65535}; destdec/udpinit: every address type, name "
        "lengths {1,2,63,254,255}, those ports, every 2-way split of short wires, random 1-5-way splits with empty chunks, "
        "byte-at-a-time, every truncation (open/closed stream), bad ATYP, length 0, invalid UTF-8, IP-literal names, names "
        "containing the UDP magic; dns: histories of requests/seeds/clears over localhost (system resolver) and seeded names "
        "(1-3 addresses, ages inside and beyond the TTL), same host with different ports, other hosts in between; dial: "
        "end-to-end request histories (literals, localhost, seeded names) against listeners on distinct 127.0.0.k:port, "
        "oracle: accepted (address, port) = requested. "
        "Non-trivial = history with >= 2 requests for one name with different ports, or a name of length >= 254, or IPv6, "
        "or a fragmented / truncated wire; distinct by sha256 of the case.")
SIDE_LEMMAS = 3
ASSUMPTIONS = ["std::net address parsing/printing (parse::<Ipv4Addr>/<Ipv6Addr>/<IpAddr>, to_string) is trusted; the oracles 'is an IP literal' are explicit arguments of the theorems and the check compares canonical octets",
               "the resolver (getaddrinfo / trust-dns) is an explicit function of time in the theorems; offline only `localhost` and cache-seeded names can be exercised",
               "the cache uses std::time::Instant: entry ages are set with the seeding hook, generated ages stay >= 2 s away from the TTL boundary",
               "route: names containing `udp-over-tcp.arpa` go to the UDP handler (reference protocol reservation, stated as the definition of route)",
               "model tied to client.rs / handler.rs / udp_proxy.rs / dns_cache.rs by differential execution on the cases counted below (sampling)"]
TRUSTED_EXTRA = ["std::net text parsing/printing of IP addresses; Python ipaddress (canonicalisation in the comparison)"]
Case = Case
TTL_MS = 60000


def corpus_cases():
    cs = corpus("C07")
    for c in cs:
        if c.drv in ('dial', 'udpe2e'):
            c.model = False      # end-to-end drivers have no model side (oracle only)
    return cs


def host_class(host):
    try:
        s = host.decode("ascii")
    except UnicodeDecodeError:
        return ("N", host)
    try:
        return ("V4", ipaddress.IPv4Address(s).packed)
    except Exception:
        pass
    try:
        if "%" not in s:
            return ("V6", ipaddress.IPv6Address(s).packed)
    except Exception:
        pass
    return ("N", host)


def ref_dest(data, eof, udp=False):
    """reference decoder of ATYP|ADDR|PORT (with the isConnect byte for udp): canonical result string pieces"""
    cur = Cur(data)
    try:
        if udp:
            if cur.take(1)[0] != 1:
                raise Bad("FMT")
            atyp = cur.take(1)[0]
        else:
            if len(data) == 0:
                if eof:
                    raise Bad("ATYP")      # `read` returns 0 at EOF and the zeroed buffer is taken as ATYP 0
                raise Need()
            atyp = cur.take(1)[0]
        kind, val = ref_addr(cur, atyp)
        port = int.from_bytes(cur.take(2), "big")
        return ("OK", kind, val, port, cur.rest())
    except Need:
        return ("ERR", "EOF") if eof else ("PENDING",)
    except Bad as b:
        return ("ERR", b.cls)


def local_table():
    tbl = {}
    for nm in (b"localhost",):
        try:
            ips = []
            for fam, _, _, _, sa in socket.getaddrinfo(nm.decode(), 80, type=socket.SOCK_STREAM):
                p = ipaddress.ip_address(sa[0]).packed
                if p not in ips:
                    ips.append(p)
            tbl[nm] = ips
        except Exception:
            tbl[nm] = []
    return tbl


def table_arg(tbl):
    ents = ["%s=%s" % (hx(k), ",".join(hx(i) for i in v)) for k, v in tbl.items() if v]
    return ";".join(ents) if ents else "-"


def gen_cases(tier, seed):
    r = rng(seed, "C07")
    quick = tier == "quick"
    cs = []
    n = 0

    def add(drv, args, kind, nt, model=True):
        nonlocal n
        n += 1
        cs.append(Case("d%d" % n, drv, args, kind, nt, model=model))

    # ------------------------------------------------------------ client encoder
    hosts = [b"1.2.3.4", b"0.0.0.0", b"255.255.255.255", b"127.0.0.1", b"10.0.0.254",
             b"::1", b"::", b"2001:db8::1", b"2001:0db8:0000:0000:0000:0000:0000:0001", b"FE80::ABCD", b"::ffff:1.2.3.4",
             b"1:2:3:4:5:6:7:8", b"1.2.3", b"1.2.3.4.5", b"256.1.1.1", b"1.2.3.4.", b":::", b"1.2.3.04x", b"[::1]", b"localhost",
             b"example.com", MAGIC, b"x." + MAGIC + b".y", "bücher.example".encode(), "例え.jp".encode(),
             b"a", b"-", b"a b", b"UPPER.Case"]
    for ln in (2, 63, 254, 255, 256, 300):
        hosts.append(rname(r, ln))
    hosts.append(("é" * 127 + "a").encode())          # 255 bytes, 128 chars
    hosts.append(("é" * 128).encode())                # 256 bytes
    for h in hosts:
        kind, val = host_class(h)
        cls = "n" if kind == "N" else ("4:" if kind == "V4" else "6:") + hx(val)
        ports = PORTS if (not quick or len(h) < 100) else [0, 443, 65535]
        for p in ports:
            add("destenc", [hx(h), p, cls], "enc-" + kind, kind == "V6" or len(h) >= 254)
    # ------------------------------------------------------------ server decoder
    dests = [("V4", bytes([1, 2, 3, 4])), ("V4", bytes(4)), ("V4", b"\xff" * 4), ("V6", bytes(15) + b"\x01"), ("V6", bytes(16)),
             ("V6", bytes(range(16))), ("V6", bytes(10) + b"\xff\xff\x01\x02\x03\x04"), ("N", b"1.2.3.4"), ("N", b"::1"), ("N", MAGIC),
             ("N", b"a." + MAGIC), ("N", b"x"), ("N", "bücher.de".encode())]
    for ln in NAME_LENS:
        dests.append(("N", rname(r, ln)))
    for udp in (False, True):
        drv = "udpinit" if udp else "destdec"
        for kind, val in dests:
            if udp and kind == "N" and not utf8_ok(val):
                continue
            for p in (PORTS if len(val) < 100 else [0, 443, 65535]):
                wire = (b"\x01" if udp else b"") + enc_dest(kind, val, p)
                rest = rbytes(r, r.choice([0, 0, 1, 5]))
                seedarg = [hx(val) if kind == "N" else "-"] if udp else []
                nt = kind == "V6" or len(val) >= 254
                add(drv, seedarg + [int(r.random() < 0.3)] + chunks_arg(frag(r, wire + rest)), "dec-" + kind, True if nt else len(wire) > 0)
        # every 2-way split and byte-at-a-time for short wires, every truncation
        for kind, val in (("V4", bytes([10, 0, 0, 1])), ("V6", bytes(range(1, 17))), ("N", b"ab.cd")):
            wire = (b"\x01" if udp else b"") + enc_dest(kind, val, 443) + b"\x99"
            seedarg = [hx(val) if kind == "N" else "-"] if udp else []
            for parts in all_splits2(wire):
                add(drv, seedarg + [0] + chunks_arg(parts), "dec-split2", True)
            add(drv, seedarg + [0] + chunks_arg(bytewise(wire)), "dec-bytewise", True)
            for cut in range(len(wire)):
                for eof in (0, 1):
                    add(drv, seedarg + [eof] + chunks_arg(frag(r, wire[:cut], 3)), "dec-truncated", True)
        # malformed
        pre = b"\x01" if udp else b""
        sd = ["-"] if udp else []
        for atyp in (0, 2, 5, 6, 127, 255):
            add(drv, sd + [0] + chunks_arg(frag(r, pre + bytes([atyp]) + rbytes(r, 8), 3)), "dec-bad-atyp", True)
        add(drv, sd + [0] + chunks_arg([pre + b"\x03\x00" + b"abc\x00\x50"]), "dec-len0", True)
        for bad in (b"\xff", b"\xc3", b"a\x80b", b"\xed\xa0\x80", b"\xf5\x80\x80\x80", b"\xc0\xaf", b"\xe0\x80\xaf", b"\xf0\x8f\xbf\xbf"):
            add(drv, sd + [0] + chunks_arg(frag(r, pre + b"\x03" + bytes([len(bad)]) + bad + b"\x00\x50", 3)), "dec-bad-utf8", True)
        for good in ("é", "€", "\U0001f600", "퟿", "", "\U0010ffff"):
            g = good.encode()
            add(drv, ([hx(g)] if udp else []) + [0] + chunks_arg(frag(r, pre + b"\x03" + bytes([len(g)]) + g + b"\x00\x50", 3)), "dec-utf8-edge", True)
        if udp:
            for ic in (0, 2, 255):
                add(drv, ["-", 0] + chunks_arg([bytes([ic]) + enc_dest("V4", bytes(4), 80)]), "udp-bad-format", True)
        for _ in range(40 if quick else 1500):
            data = rbytes(r, r.choice([1, 2, 3, 7, 8, 19, 20, 30]))
            if udp:
                data = bytes([1, r.choice([1, 1, 4, 4, 3, 0, 9])]) + data
            add(drv, sd + [int(r.random() < 0.5)] + chunks_arg(frag(r, data, 4)), "dec-random", True)
    # ------------------------------------------------------------ resolver cache
    tbl = local_table()
    targ = table_arg(tbl)
    lh = hx(b"localhost")

    def dns(ops, kind, nt):
        add("dns", [targ] + ops, kind, nt)
    dns(["r:%s:80" % lh, "r:%s:443" % lh], "dns-localhost", True)
    dns(["r:%s:443" % lh, "r:%s:80" % lh, "r:%s:80" % lh, "r:%s:65535" % lh, "r:%s:0" % lh], "dns-localhost", True)
    dns(["r:%s:80" % lh, "c", "r:%s:443" % lh], "dns-localhost", True)
    dns(["r:%s:1:%s" % (hx(b"10.1.2.3"), hx(bytes([10, 1, 2, 3]))), "r:%s:2:%s" % (hx(b"::1"), hx(bytes(15) + b"\x01"))], "dns-literal", False)
    dns(["r:%s:80" % hx(b"nonexistent.invalid")], "dns-unresolvable", False)
    # concurrent COLD lookups of one name with different ports (multi-threaded runtime, cache cleared before each round):
    # every request is answered with ITS port, whoever else is filling the cache at that moment (seed C07-5); no model side
    for rounds, k in ([(1500, 8), (600, 24)] if quick else [(6000, 8), (3000, 3), (2000, 24)]):
        add("dnsrace", [rounds, k, lh], "dns-concurrent-cold", True, model=False)
    names = [b"svc.test", b"db.internal", b"a", rname(r, 254), rname(r, 255)]
    ips4 = [bytes([10, 0, 0, k]) for k in range(1, 6)]
    ips6 = [bytes(15) + bytes([k]) for k in range(1, 4)]
    for i in range(120 if quick else 3000):
        ops = []
        nreq = {}
        used = r.sample(names, r.randint(1, 3))
        for _ in range(r.randint(2, 9)):
            x = r.random()
            nm = r.choice(used)
            if x < 0.3:
                k = r.randint(1, 3)
                pool = ips4 + (ips6 if r.random() < 0.3 else [])
                addrs = ",".join("%s.%d" % (hx(ip), r.choice(PORTS + [8080])) for ip in r.sample(pool, k))
                age = r.choice([0, 0, 1000, 30000, TTL_MS - 3000, TTL_MS + 3000, 10 * TTL_MS])
                ops.append("s:%s:%s:%d" % (hx(nm), addrs, age))
            elif x < 0.36:
                ops.append("c")
            elif x < 0.45:
                ops.append("r:%s:%d" % (lh, r.choice(PORTS)))
                nreq.setdefault(b"localhost", set()).add(ops[-1])
            else:
                ops.append("r:%s:%d" % (hx(nm), r.choice(PORTS)))
                nreq.setdefault(nm, set()).add(ops[-1])
        nt = any(len(v) >= 2 for v in nreq.values())
        dns(ops, "dns-history", nt)
    # ------------------------------------------------------------ end to end: decoder + resolver cache + dial
    names = [b"svc.test", b"db.internal", rname(r, 63)]
    def dial(toks, kind):
        add("dial", toks, kind, True, model=False)
    nm = hx(b"svc.test")
    dial(["L:2:0", "L:2:1", "S:%s:2:0:0" % nm, "R:%s:1" % nm, "R:%s:0" % nm, "R:%s:1" % nm], "dial-d5")
    dial(["L:1:0", "L:1:1", "R:%s:0" % lh, "R:%s:1" % lh, "R:%s:0" % lh], "dial-localhost")
    dial(["L:2:0", "L:3:0", "L:3:1", "R:@2:0", "R:@3:1", "R:@3:0", "R:@2:1"], "dial-literal")
    for i in range(24 if quick else 400):
        ks = r.sample([2, 3, 4, 5], r.randint(1, 3))
        toks = []
        for k in ks:
            for slot in range(3):
                if r.random() < 0.7:
                    toks.append("L:%d:%d" % (k, slot))
        ops = []
        valid = set()
        for _ in range(r.randint(2, 6)):
            x = r.random()
            nmx = r.choice(names)
            if x < 0.35:
                age = r.choice([0, 0, 1000, TTL_MS + 5000])
                ops.append("S:%s:%d:%d:%d" % (hx(nmx), r.choice(ks), r.randint(0, 2), age))
                (valid.add if age < TTL_MS else valid.discard)(nmx)
            elif x < 0.5:
                ops.append("R:@%d:%d" % (r.choice(ks + [6]), r.randint(0, 2)))
            elif nmx in valid or (i % 8 == 0 and not any(o.startswith("R:") and o[2] != "@" and unhx(o.split(":")[1]) not in valid for o in ops)):
                # (a name that cannot be resolved makes the server drop the stream without a SYNACK and the client
                #  wait for its SYNACK timeout: at most one such request per case, in few cases)
                ops.append("R:%s:%d" % (hx(nmx), r.randint(0, 2)))
        dial(toks + ops, "dial-history")
    # a UDP association's target (IPv4 and IPv6) end to end: the datagrams arrive at the requested address
    add("udpe2e", [4, 5, 300], "udp-target-e2e", True, model=False)
    add("udpe2e", [6, 5, 300], "udp-target-e2e", True, model=False)
    # ------------------------------------------------------------ the HTTP front-end's target extraction (package http, C17):
    # "the host and port a local application asks for through the HTTP proxy are the host and port the server dials".
    # The request generators and the reference of C17 are reused; C07 judges only the tunnel target.
    try:
        from . import c17 as _c17
        per = {}
        for c in _c17.gen_cases(tier, seed):
            if c.drv not in ("http_fwd", "http_dt") or "malformed" in c.kind or "non-ascii" in c.kind or "64k" in c.kind:
                continue
            if per.get(c.kind, 0) >= (60 if quick else 600):
                continue
            per[c.kind] = per.get(c.kind, 0) + 1
            c.meta = dict(c.meta or {}, borrowed="c17")
            c.cid = "c17_" + c.cid
            c.kind = "c17:" + c.kind
            cs.append(c)
    except Exception as e:       # a generator that cannot run must not hide the rest
        cs.append(Case("borrow_err_c17", "destenc", [hx(b"1.2.3.4"), 80, "4"], "borrow-error", False, {"error": repr(e)}))

    return cs


def ref_dial(args):
    listeners, seeds, out = set(), {}, []
    for a in args:
        f = a.split(":")
        if f[0] == "L":
            listeners.add((int(f[1]), int(f[2])))
    for a in args:
        f = a.split(":")
        if f[0] == "S":
            seeds[unhx(f[1])] = (int(f[2]), int(f[4]))
        elif f[0] == "R":
            slot = int(f[2])
            if f[1].startswith("@"):
                k = int(f[1][1:])
            else:
                name = unhx(f[1])
                if name == b"localhost":
                    k = 1
                elif name in seeds and seeds[name][1] < TTL_MS - 1500:
                    k = seeds[name][0]
                else:
                    k = None
            out.append("OK %d:%d" % (k, slot) if (k, slot) in listeners else "ERR")
    return " ".join(out)


def parse_ok(tokens):
    return tokens[1], int(tokens[2]), tokens[3] if len(tokens) > 3 else "-"


def oracle(c, ir):
    if (c.meta or {}).get("borrowed") == "c17":
        from . import c17 as _c17
        f = _c17.oracle(c, ir)
        # only what concerns the destination: the tunnel target (host, port, CONNECT or not) and crashes
        if f and (f.startswith("tunnel target is") or "panic" in f.lower() or f.startswith("well-formed request") or f.startswith("is_connect")):
            return "HTTP proxy: " + f
        return None
    t = ir.split()
    if c.drv == "destenc":
        host, port, cls = unhx(c.args[0]), int(c.args[1]), c.args[2]
        kind, val = host_class(host)
        if kind == "N" and len(host) > 255:
            return None if ir == "ERR" else "a %d-byte name was not refused by the client encoder: %s" % (len(host), ir[:80])
        exp = "OK " + hx(enc_dest(kind, val, port))
        if ir != exp:
            return "destination %r:%d encoded as %s, expected %s" % (host[:40], port, ir[:90], exp[:90])
        # and what the server's wire format says it means
        back = ref_dest(unhx(t[1]), True)
        if back[0] != "OK" and not (kind == "N" and len(host) == 0):
            return "encoded destination does not decode: %s" % (back,)
        return None
    if c.drv in ("destdec", "udpinit"):
        udp = c.drv == "udpinit"
        a = c.args[1:] if udp else c.args
        eof = a[0] == "1"
        data = b"".join(unhx(x) for x in a[1:])
        exp = ref_dest(data, eof, udp)
        if exp[0] != "OK":
            want = " ".join(exp)
            return None if ir == want else "expected %s got %s" % (want, ir[:100])
        _, kind, val, port, rest = exp
        if t[0] != "OK" or len(t) < 4:
            if udp and kind == "N" and c.args[0] == "-" and ir == "ERR DNS":
                return None
            return "a well-formed destination %s:%d was not accepted: %s" % (dest_tok(kind, val)[:60], port, ir[:100])
        addr, gport, grest = parse_ok(t)
        if gport != port:
            return "port decoded as %d, sent %d" % (gport, port)
        if grest != hx(rest):
            return "bytes following the destination: got %s expected %s" % (grest[:60], hx(rest)[:60])
        if udp:
            if kind == "N" and host_class(val)[0] != "N":
                ok = addr == dest_tok(*host_class(val))     # a name that is an IP literal is that address
            elif kind == "N":
                ok = addr == "V4:0a090807"      # the seeded address of that name, at the requested port
            else:
                ok = addr == dest_tok(kind, val)
        else:
            ok = canon_dest_pair(dest_tok(kind, val), addr)
        return None if ok else "address decoded as %s, sent %s" % (addr[:80], dest_tok(kind, val)[:80])
    if c.drv == "udpe2e":
        from . import c15
        return c15.oracle(c, ir)
    if c.drv == "dial":
        exp = ref_dial(c.args)
        return None if ir.strip() == exp else "dialled %s, requested %s (case: %s)" % (ir.strip(), exp, " ".join(c.args)[:300])
    if c.drv == "dnsrace":
        f = dict(t.split("=") for t in ir.split() if "=" in t)
        if "mismatch" not in f:
            return "concurrent-lookup driver failed: " + ir[:200]
        if f["mismatch"] != "0":
            return ("%s of %s concurrent cold lookups of one host name were answered with the port of ANOTHER request (first: asked:got = %s): "
                    "the destination's port must be the one the client named" % (f["mismatch"], f["total"], f.get("first")))
        if f["err"] != "0":
            return "%s of %s lookups of localhost failed" % (f["err"], f["total"])
        return None
    if c.drv == "dns":
        tbl = {}
        if c.args[0] != "-":
            for ent in c.args[0].split(";"):
                k, v = ent.split("=")
                tbl[unhx(k)] = [unhx(i) for i in v.split(",")]
        seeded = {}
        answers = t
        k = 0
        for op in c.args[1:]:
            f = op.split(":")
            if f[0] == "c":
                seeded = {}
            elif f[0] == "s":
                ips = [unhx(a.split(".")[0]) for a in f[2].split(",")]
                seeded[unhx(f[1])] = (ips, int(f[3]))
            elif f[0] == "r":
                name, port = unhx(f[1]), int(f[2])
                if k >= len(answers):
                    return "missing answer for request %d" % k
                ans = answers[k]
                k += 1
                lit = unhx(f[3]) if len(f) > 3 else None
                allowed = [lit] if lit else list(tbl.get(name, []))
                if not lit and name in seeded and seeded[name][1] < TTL_MS - 1500:
                    allowed += seeded[name][0]
                if not lit and name in seeded and TTL_MS - 1500 <= seeded[name][1] <= TTL_MS + 1500:
                    allowed += seeded[name][0]      # too close to the boundary to call
                if ans == "ERR":
                    if lit or tbl.get(name) or (name in seeded and seeded[name][1] < TTL_MS - 1500):
                        return "request %s:%d failed although the host has addresses" % (name[:30], port)
                    continue
                ip, _, gp = ans.partition(".")
                if int(gp) != port:
                    return "request for %s port %d answered with port %s (history: %s)" % (name[:30].decode("latin1"), port, gp, " ".join(c.args[1:])[:300])
                if unhx(ip) not in allowed:
                    return "request for %s answered with %s which is not an address of that host" % (name[:30].decode("latin1"), ip)
                if not lit:
                    # a successful lookup (re)fills the entry
                    pass
        return None
    return "unknown driver"


def same(c, ir, mr):
    if ir == mr:
        return True
    if (c.meta or {}).get("borrowed") == "c17":
        from . import c17 as _c17
        return _c17.same(c, ir, mr)
    ti, tm = ir.split(), mr.split()
    if c.drv == "destdec" and ti and tm and ti[0] == "OK" and tm[0] == "OK" and len(ti) == len(tm) == 4:
        return ti[2:] == tm[2:] and canon_dest_pair(tm[1], ti[1])
    if c.drv == "udpinit" and ti and tm and ti[0] == "OK" and tm[0] == "OK" and tm[1].startswith("N:"):
        lit = host_class(unhx(tm[1][2:]))
        if lit[0] != "N":
            return ti[1] == dest_tok(*lit) and ti[2:] == tm[2:]
        if c.args[0] == tm[1][2:]:
            return ti[1] == "V4:0a090807" and ti[2:] == tm[2:]
    if c.drv == "udpinit" and tm and tm[0] == "OK" and tm[1].startswith("N:") and c.args[0] == "-":
        return ir == "ERR DNS"
    return False
