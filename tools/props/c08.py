"""C08 -- end of stream reaches the other side, after all the data.
Drivers: ss (in-memory session pair, virtual time: FIN frames injected through the public write_control_frame,
receive side / ordering / other direction / table sizes; Stream::poll_shutdown on the sending side) and
lo (REAL time loopback: application socket - SOCKS5 / HTTP front-end - client session - server session with
TcpProxyHandler - TCP target; the application or the target half-closes and the opposite endpoint is watched
for EOF for a bounded 2 s).  The four sending sites never emit a FIN: KNOWN FINDING F1, matched by call site."""
from .base import *
from . import sessgen as G

RULE = ("ss: 1-3 sibling streams; 0..64 KiB (boundary table) queued for a stream in one direction with a FIN frame "
        "(write_control_frame) right behind the data, relayed in random fragments, both directions, both closing "
        "orders; the receiver reads with scripted capacities (all data, then EOF, never EOF earlier), siblings keep "
        "working, data in the other direction is still delivered after the FIN (write_data_frame, send_data and "
        "AsyncWrite on the now exclusively owned object), table sizes through Session::verif_table_sizes after each "
        "step and after a quiescence of 1 h virtual time, FINs for unknown / finished ids; Stream::poll_shutdown "
        "followed by a bounded 1 h virtual wait at the peer's reader. lo (real time, bounded 2 s watch): SOCKS5 and "
        "HTTP CONNECT applications half-closing after n bytes, targets half-closing after n bytes, reverse direction "
        "afterwards; a slow target (4 KiB receive buffer, does not read) while the application uploads 4-24 MiB, the "
        "client session is closed once the upload left it, the target reads only afterwards and must receive every "
        "byte and then EOF. Oracle: PipeRef with shutdown propagation expected + exact data / EOF / table-size checks; a "
        "missing EOF at one of the four listed call sites is reported as KNOWN-FINDING (by site), anything else "
        "(FIN overtaking data, FIN removing another id, leak after a received FIN, EOF before all data, reverse "
        "direction broken) is a VIOLATION. A bounded wait is not evidence of 'never'. Non-trivial = data queued "
        "before the close and at least one sibling stream, or a loopback case; distinct by sha256 of the case.")
SIDE_LEMMAS = 4
ASSUMPTIONS = ["'no task is retained' is observed (runtime idle under virtual time), not proved",
               "lo cases run in real time with a bounded 2 s watch for EOF: absence of EOF within the bound is labelled as such, not as 'never'",
               "the model is tied to session.rs handle_frame (Fin arm) / stream.rs poll_shutdown by differential execution on the ss cases (sampling); lo cases have no model side"]
Case = Case
IMPL_TIMEOUT = 600

SIZES = [0, 1, 7, 8, 255, 256, 8191, 8192, 8193, 65534, 65535, 65536]
SITES = {"socks/app_eof": "socks5.client_to_proxy_eof", "http/app_eof": "http.client_to_proxy_eof",
         "socks/tgt_eof": "server.target_to_client_eof", "http/tgt_eof": "server.target_to_client_eof"}


def corpus_cases():
    return corpus("C08")


def frag(r):
    return r.choice(["-", "3,4,0", "7,0", "1,1,1,1,1,1,1,0", "1000", "4096", "65543", "100,0"])


def build_fin(r, cid, tier):
    ns = r.randint(1, 3)
    ops = ["O:c"] * ns + ["X:c:" + frag(r), "N:s", "T:s", "T:c"]
    sid = r.randint(1, ns)
    d = r.choice("cs")              # direction that ends first: d's side sends data + FIN
    o = "s" if d == "c" else "c"
    sibs = [x for x in range(1, ns + 1) if x != sid]
    sizes = [r.choice(SIZES) if r.random() < 0.6 else r.randint(1, 3000) for _ in range(r.randint(0, 4))]
    # sibling traffic before
    for b in sibs:
        ops.append("W:%s:%d:%d" % (r.choice("cs"), b, r.randint(1, 50)))
    for n in sizes:
        ops.append("W:%s:%d:%d" % (d, sid, n) if r.random() < 0.6 else "S:%s:%d:0:%d" % (d, sid, n))
        if r.random() < 0.2:
            ops.append("X:%s:%s" % (d, frag(r)))
            ops.append("D:%s:%d:0:%d" % (o, sid, r.choice([1, 100, 8192, 100000])))
    ops.append("G:%s:3:%d:-" % (d, sid))        # the FIN, right behind the data
    if r.random() < 0.3:
        ops.append("W:%s:%d:5" % (d, sid))      # data after the FIN: for an id the peer has finished, dropped there
    ops.append("X:%s:%s" % (d, frag(r)))
    ops += ["T:%s" % o, "T:%s" % d]
    # the receiver gets everything, then EOF
    cap = r.choice([3, 100, 8192, 65535, 100000]) if sum(sizes) < 3000 else r.choice([8192, 65535, 100000])
    nreads = sum((min(n, 65535) + cap - 1) // cap + (1 if n > 65535 else 0) for n in sizes) + 3
    ops += G.drain(o, sid, 0, [cap], min(nreads, 300))
    if nreads > 300:
        ops += G.drain(o, sid, 0, [100000], 8)
    # siblings are untouched
    for b in sibs:
        ops.append("X:c:-")
        ops.append("X:s:-")
        ops.append("D:s:%d:0:100" % b)
        ops.append("D:c:%d:0:100" % b)
    # the other direction keeps working: o -> d on the same id (o's object is now exclusively owned)
    for _ in range(r.randint(1, 3)):
        e = r.choice("WSA")
        n = r.choice([1, 5, 300, 8192, 70000]) if tier != "quick" or r.random() < 0.8 else 70000
        ops.append("W:%s:%d:%d" % (o, sid, n) if e == "W" else "%s:%s:%d:0:%d" % (e, o, sid, n))
    ops.append("X:%s:%s" % (o, frag(r)))
    ops += G.drain(d, sid, 0, [100000], 8)
    # ... until it ends too
    second = r.random() < 0.7
    if second:
        ops.append("G:%s:3:%d:-" % (o, sid))
        ops.append("X:%s:%s" % (o, frag(r)))
        ops += G.drain(d, sid, 0, [100], 2)
    # stale FINs / FINs for unknown ids change nothing
    ops.append("G:%s:3:%d:-" % (r.choice("cs"), r.choice([sid, 77, 0])))
    ops += ["X:c:-", "X:s:-", "Q:3600000", "T:c", "T:s"]
    for b in sibs:
        ops.append("W:c:%d:3" % b)
        ops.append("X:c:-")
        ops.append("D:s:%d:0:100" % b)
    return G.ss_case(cid, r.randrange(len(G.SCHEMES)), r.random() < 0.3, ops, "fin-" + ("c2s" if d == "c" else "s2c") + ("-both" if second else ""),
                     bool(sizes) and ns >= 2)


def many_tiny_then_fin(r, cid, nframes, scheme, sibling):
    """hundreds of complete tiny frames (optionally interleaved with a sibling stream's) and then the FIN reach the receiver in
    ONE transport read, after which the sender is silent: the reader gets every byte and then end-of-stream, without any
    further transport activity (seed C08-6: a per-pass frame budget in the receive loop strands the tail and the FIN)"""
    ops = ["O:c", "O:c", "X:c:-", "N:s", "T:s", "T:c"]
    sizes = [r.choice([1, 1, 1, 2, 3]) for _ in range(nframes)]
    sib = 0
    for k in sizes:
        ops.append("W:c:1:%d" % k)
        if sibling and r.random() < 0.3:
            ops.append("W:c:2:1")
            sib += 1
    ops.append("G:c:3:1:-")                    # the FIN, right behind the data
    ops.append("X:c:-")                        # everything written so far, as one chunk
    ops += G.drain("s", 1, 0, [4096], nframes + 3)
    if sib:
        ops += G.drain("s", 2, 0, [4096], sib + 2)
    ops += ["W:s:1:5", "X:s:-"] + G.drain("c", 1, 0, [100], 2) + ["T:s", "T:c"]
    return G.ss_case(cid, scheme, False, ops, "many-tiny-then-fin-one-read", True)


def build_shutdown(r, cid, w):
    """the application shuts the write side of a stream down (AsyncWrite::poll_shutdown); needs the exclusively
    owned object, i.e. the peer's FIN for that id arrived first"""
    ns = r.randint(1, 2)
    sid = r.randint(1, ns)
    o = "s" if w == "c" else "c"
    ops = ["O:c"] * ns + ["X:c:-", "N:s"]
    ops += ["G:%s:3:%d:-" % (o, sid), "X:%s:-" % o, "T:%s" % w]
    n = r.choice([0, 1, 100, 8192, 70000])
    ops += ["A:%s:%d:0:%d" % (w, sid, n), "H:%s:%d:0" % (w, sid), "X:%s:%s" % (w, frag(r)), "Q:3600000", "X:%s:-" % w]
    ops += G.drain(o, sid, 0, [100000], 4)
    ops += ["S:%s:%d:0:3" % (w, sid), "T:c", "T:s"]
    return G.ss_case(cid, 0, False, ops, "shutdown-" + w, True)


def gen_cases(tier, seed):
    r = rng(seed, "C08")
    cs = []
    n = {"quick": 260, "thorough": 5000}[tier]
    for i in range(n):
        cs.append(build_fin(r, "f%d" % i, tier))
    for i in range(8 if tier == "quick" else 80):
        cs.append(build_shutdown(r, "h%d" % i, "cs"[i % 2]))
    for j, nf in enumerate([70, 130, 300, 500] if tier == "quick" else [65, 70, 100, 130, 200, 300, 500, 1000]):
        cs.append(many_tiny_then_fin(r, "mtf%d" % j, nf, (2, 4)[j % 2], j % 2 == 1))
    # real-time loopback: the four call sites of the known finding, on every run
    k = 0
    for rep in range(1 if tier == "quick" else 4):
        for front in ("socks", "http"):
            for sc in ("app_eof", "tgt_eof"):
                for n_, m_ in ((1000, 300), (70000, 10)) if rep == 0 else ((r.randint(0, 200000), r.randint(1, 5000)),):
                    k += 1
                    cs.append(Case("lo%d" % k, "lo", [front, sc, n_, m_, 2000], "loopback-%s-%s" % (front, sc), True, model=False))
    # a slow target: the upload is still queued in the server when the client session ends
    slow = [("socks", 12 << 20, 300)] if tier == "quick" else \
           [(f, r.choice([4, 8, 12, 16, 24]) << 20, r.choice([0, 100, 500, 2000])) for f in ("socks", "http") for _ in range(3)]
    for i, (front, n_, m_) in enumerate(slow):
        cs.append(Case("slow%d" % i, "lo", [front, "slow_target", n_ + r.randint(0, 9999), m_, 4000], "loopback-slow-target", True, model=False))
    return cs


def lo_oracle(c, ir):
    front, sc, n, m = c.args[0], c.args[1], int(c.args[2]), int(c.args[3])
    kv = dict(t.split("=", 1) for t in ir.split() if "=" in t)
    if kv.get("reply") != "ok" or kv.get("tgt_conn") != "1":
        return "loopback setup failed (reply=%s tgt_conn=%s): %s" % (kv.get("reply"), kv.get("tgt_conn"), ir[:120])
    if sc == "slow_target":
        # everything the application sent before the session was closed must reach the (slow) target, then EOF
        if kv.get("closed") != "1":
            return "loopback setup failed: the client session could not be closed: " + ir[:120]
        exp = G.gen("c", 1, 0, n)
        if kv.get("fwd") != "%d.%08x" % (len(exp), G.fnv(exp)):
            got = (kv.get("fwd") or "0.").split(".")[0]
            return ("upload truncated: the application sent %d bytes before its session was closed, the slow target "
                    "received %s bytes%s" % (n, got, " and then end-of-stream" if kv.get("eof") == "1" else ""))
        if kv.get("eof") != "1":
            return "the target received all %d bytes but no end-of-stream within %s ms after the session ended" % (n, c.args[4])
        return None
    src, back = ("c", "s") if sc == "app_eof" else ("s", "c")
    exp = G.gen(src, 1, 0, n)
    if kv.get("fwd") != "%d.%08x" % (len(exp), G.fnv(exp)):
        if kv.get("eof") == "1":
            return "end-of-stream before all data: %s of %d bytes arrived" % (kv.get("fwd"), n)
        return "data before the close did not arrive intact: got %s expected %d.%08x" % (kv.get("fwd"), len(exp), G.fnv(exp))
    if kv.get("extra") != "0":
        return "bytes that were never sent arrived after the data: extra=%s" % kv.get("extra")
    expb = G.gen(back, 1, 0, m)
    if kv.get("rev") != "%d.%08x" % (len(expb), G.fnv(expb)):
        return "the other direction stopped working after the half-close: got %s expected %d bytes" % (kv.get("rev"), m)
    if kv.get("eof") != "1":
        return ("site=%s: the sender finished (half-close after %d bytes) but the opposite endpoint saw no end-of-stream "
                "within the bounded %s ms watch (a bounded wait is not evidence of 'never')" % (SITES[front + "/" + sc], n, c.args[4]))
    return None


def oracle(c, ir):
    if c.drv == "lo":
        return lo_oracle(c, ir)
    if c.drv == "ss":
        return G.ss_oracle(c, ir, propagate_shutdown=True)
    return "unknown driver"


def match_known(c, failure, findings):
    for k in findings:
        site = (k.get("match") or {}).get("site")
        if site and ("site=%s:" % site) in failure:
            return k
    return None


def same(c, ir, mr):
    return ir == mr
