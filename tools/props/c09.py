"""C09 -- a dying session releases everyone waiting on it, promptly (scheduled driver `conc`)."""
from .base import *
from .conc_common import *
import itertools

RULE = ("programs: 1-3 worker tasks (open / data writes / parked reads / pending opens awaiting their verdict, each with the open "
        "timer as fallback) on a plain or freshly started client session plus one termination cause -- owner close, peer EOF (also 3 / 7 / 12 bytes "
        "into a frame), read error, fatal Alert (fed to recv_loop), or a transport write failure (at a burst boundary, and at byte offsets 1..900 "
        "inside a burst) -- injected at every position of a bounded interleaving (quick: all "
        "placements of the cause among the first steps of two workers; then random schedules), followed by a round-robin drain long enough "
        "for every task to finish. Non-trivial = the cause fires while at least one worker is in the middle of a call or parked; "
        "distinct by sha256 of (programs, schedule).")
SIDE_LEMMAS = 3
ASSUMPTIONS = ["tokio::sync::Mutex is FIFO-fair (modelled by `waiters`); a transport write either completes or fails (a peer that stops reading, so that a write blocks on back-pressure forever, is outside the model)",
               "transport faults are injected at burst boundaries in the correspondence runs; byte offsets inside a frame are covered by a separate stream that compares only outcomes (closed, shut, results), not the wire",
               "open_stream's closed-check and its id allocation / registration are separate steps in the model (hook point open.checked): a close() that runs in between leaves an entry in the drained tables, the open then fails on the closed flag (C09_concurrent_open_fails); the two uncontended table-lock awaits inside the registration are one step",
               "the forwarding task (process_stream_data) may miss the close notification and stay parked on its channel: a leaked task, not a blocked caller; not modelled",
               "the model is tied to session.rs by differential execution on explicit schedules (sampling)"]
Case = Case
IMPL_SHARDS = 16

CAUSES = {"close": ("X", None), "eof": ("F:eof", None), "err": ("F:err", None), "alert": ("F:alert", None), "fail": ("FAIL", "write"),
          "cut3": ("F:cut:3", None), "cut7": ("F:cut:7", None), "cut12": ("F:cut:12", None)}


def corpus_cases():
    return corpus("C09")


def worker(r, t, kind):
    if kind == "writer":
        return ["O", "B0"] + ["D:" + payload(t, k) for k in range(r.randint(1, 3))] + ["T"]
    if kind == "reader":
        return ["O", "B0", "D:" + payload(t, 0), "R", "R", "T"]
    if kind == "opener":
        return ["O", "B0", "D:" + payload(t, 0), "A", "T"]
    if kind == "sender":
        # a proxied stream as the relays use it: Stream::send_data into the outbound channel
        return ["O", "B0"] + ["S:" + payload(t, k) for k in range(r.randint(1, 3))] + ["R", "T"]
    if kind == "raw":
        return ["W:2:%d:%s" % (40 + t, payload(t, k)) for k in range(r.randint(1, 3))]
    return ["O", "T"]


def gen_cases(tier, seed):
    r = rng(seed, "C09")
    cs = []

    def add(mode, progs, sched, kind, nt):
        toks = render(mode, progs, sched)
        cs.append(Case("c%d" % (len(cs) + 1), "conc", toks, kind, nt, {"ntasks": len(progs)}))

    def drain(progs):
        return drain_suffix(len(progs), 8 * max([len(p) for p in progs if not is_pump_prog(p)] + [1]) + 10)
    # systematic: one cause placed at every position of a fixed 2-worker interleaving
    for cause, (tok, follow) in CAUSES.items():
        for mode in ("plain", "start"):
            for kinds in (("writer", "reader"), ("opener", "writer"), ("reader", "opener")):
                progs = [[], worker(r, 1, kinds[0]), worker(r, 2, kinds[1])]
                killer = [tok] + (["B0", "W:2:77:ffff"] if follow else [])
                progs.append(killer)
                base = [1, 2] * (10 if tier == "quick" else 17)
                step = 1 if tier == "thorough" else 2
                for pos in range(0, len(base) + 1, step):
                    sched = base[:pos] + [3] * len(killer) * 3 + base[pos:]
                    add(mode, progs, sched + drain(progs), "systematic-" + cause, pos > 0)
    # transport failure at byte offsets inside a burst (header byte 0..6, payload middle)
    for off in (1, 3, 6, 7, 8, 9, 12, 40, 900, 1010, 1040, 1075, 1100, 1130):   # every burst is >= 1135 bytes (1001+ , 67, 67)
        for mode in ("plain", "start"):
            for kinds in (("writer", "reader"), ("opener", "writer")):
                progs = [[], worker(r, 1, kinds[0]), worker(r, 2, kinds[1]), ["FAIL:%d" % off, "B0", "W:2:77:ffff"]]
                for pos in (0, 3, 6, 9, 13):
                    base = [1, 2] * 9
                    sched = base[:pos] + [3] * 9 + base[pos:]
                    add(mode, progs, sched + drain(progs), "midburst-fail", True)
    # the forwarding task (process_stream_data) and senders: one cause at every position of a 3-task interleaving
    for cause, (tok, follow) in CAUSES.items():
        for kinds in (("sender", "sender"), ("sender", "writer"), ("sender", "reader")):
            progs = [[], worker(r, 1, kinds[0]), worker(r, 2, kinds[1]), pump_prog(150)]
            killer = [tok] + (["B0", "W:2:77:ffff"] if follow else [])
            progs.append(killer)
            base = [1, 3, 2, 3] * (8 if tier == "quick" else 14)
            step = 1 if tier == "thorough" else 3
            for pos in range(0, len(base) + 1, step):
                sched = base[:pos] + [4] * len(killer) * 3 + base[pos:]
                add("plain", progs, sched + drain(progs) + [3] * 40, "systematic-pump-" + cause, pos > 0)
    # every KIND of transport error ends the session: the read side reports <kind> (F:err:<kind>), or every write fails with
    # <kind> from now on (FAILK:<kind>, then a write that meets it). The model has one read error and one write failure;
    # the error kind is not a parameter of anything the property allows (seed C09-6)
    for kind in ("reset", "aborted", "pipe", "timedout", "intr", "wouldblock", "eof", "notconn", "invalid", "oom", "other"):
        for tok, follow in (("F:err:" + kind, False), ("FAILK:" + kind, True)):
            for mode in ("plain", "start"):
                progs = [[], worker(r, 1, "reader"), worker(r, 2, r.choice(["opener", "writer"]))]
                killer = [tok] + (["B0", "W:2:77:ffff"] if follow else [])
                progs.append(killer)
                base = [1, 2] * 10
                for pos in ((4, 13) if tier == "quick" else (0, 4, 9, 13, 17, 20)):
                    sched = base[:pos] + [3] * len(killer) * 3 + base[pos:]
                    add(mode, progs, sched + drain(progs), "error-kind-" + ("read" if not follow else "write"), True)
    # a transport that stalls (the peer stops reading: writes stay pending, no error): outside the model (a model write
    # completes or fails), run on the implementation only and judged by the oracle. Two opens complete, the transport
    # stalls, one task's write hangs inside the transport holding the writer mutex, then a cause fires.
    for cause in ("close", "eof", "alert", "err"):
        tok = CAUSES[cause][0]
        for off in (0, 5, 700):
            for kinds in (("reader", "opener"), ("opener", "writer"), ("sender", "reader")):
                w1, w2 = worker(r, 1, kinds[0]), worker(r, 2, kinds[1])
                progs = [[], w1, w2, ["STALL:%d" % off, "B0", "W:2:77:ffff"], [tok]]
                if "sender" in kinds:
                    progs.insert(3, pump_prog(60))
                st, cl = len(progs) - 2, len(progs) - 1
                for pre in (11, 12, 14, 22):
                    sched = ([1, 2] * pre)[:2 * pre] + [st] * 9 + [1, 2] * 3 + [cl] * 4
                    toks = render("plain", progs, sched + drain(progs))
                    # off = 0 is the model's CStall (Model/Conc.v: `stalled`): the model is run on the same schedule
                    cs.append(Case("c%d" % (len(cs) + 1), "conc", toks, "stalled-transport-" + cause, True, {"ntasks": len(progs)}, model=(off == 0)))
    # random
    n = 600 if tier == "quick" else 15000
    for i in range(n):
        nt = r.choice([1, 2, 2, 3])
        mode = r.choice(["plain", "start"])
        with_pump = mode == "plain" and r.random() < 0.35
        progs = [[]] + [worker(r, t, r.choice(["writer", "reader", "opener", "raw", "idle"] + (["sender"] * 4 if with_pump else []))) for t in range(1, nt + 1)]
        if with_pump:
            progs.append(pump_prog(200))
        cause = r.choice(list(CAUSES))
        tok, follow = CAUSES[cause]
        killer = [tok] + (["B0", "W:2:77:ffff"] if follow else [])
        if r.random() < 0.3:
            killer = ["F:sa:%d:%d" % (r.randint(1, nt), r.randint(0, 1))] + killer
        if r.random() < 0.2:
            killer = ["F:psh:%d" % r.randint(1, nt)] + killer
        if r.random() < 0.15:
            killer = killer + [r.choice(["X", "F:eof", "FAIL"])]      # a second cause
        progs.append(killer)
        L = r.randint(4, 50)
        sched = [r.randint(1, len(progs) - 1) for _ in range(L)]
        if mode == "plain" and r.random() < 0.7:
            sched = [t if r.random() < 0.85 else 0 for t in sched]
        add(mode, progs, sched + drain(progs), "random-" + cause + ("-pump" if with_pump else ""), True)
    return cs


def midburst(c):
    return any(a.startswith("FAIL:") for a in c.args)


def stalled(c):
    return any(a.startswith("STALL:") for a in c.args)


def oracle_stalled(c, o, ir):
    """the transport stopped accepting bytes. Waiters must still be released; what is blocked behind the stalled write
    (the writer itself, tasks queued on the writer mutex, close() waiting for that mutex, the transport shutdown) is the
    recorded finding F4 and is reported with that tag."""
    args = " ".join(c.args)
    progs = [[x for x in p.split() if x != "-"] for p in args.split(" sched ")[0].split("|")[1:]]
    if not o["closed"]:
        return "a termination cause occurred but the session is not visibly closed (stalled transport)"
    f4 = []
    for t, (pc, res) in o["tasks"].items():
        if t == 0:
            if pc not in ("done", "recv", "-", "queued", "close.before_writer"):
                return "the receive task is stuck at %s (stalled transport)" % pc
            if pc in ("queued", "close.before_writer"):
                f4.append("the receive task's close() waits for the writer mutex")
            continue
        prog = progs[t] if t < len(progs) else []
        if is_pump_prog(prog):
            if pc not in ("done", "pump.wait", "pump.loop", "h.call", "queued", "stalled-in-transport"):
                return "the forwarding task is stuck at %s (stalled transport)" % pc
            continue
        if pc == "done":
            if len(res) == len(prog):
                for call, rr in zip(prog, res):
                    if call == "R" and rr not in ("eof", "data", "nostream", "readerr"):
                        return "task %d: reader ended with %s" % (t, rr)
            continue
        if pc == "stalled-in-transport":
            f4.append("task %d's write never returns (pending inside the transport, writer mutex held)" % t)
        elif pc == "queued":
            nxt = prog[len(res)] if len(res) < len(prog) else "?"
            f4.append("task %d is queued on the writer mutex for ever (call %s)" % (t, "close()" if nxt == "X" else nxt))
        else:
            # anybody else must have been released: readers, pending opens, later calls
            return "task %d never finished: stuck at %s with results %s although it does not wait for the transport (stalled transport)" % (t, pc, res)
    if not o["shut"]:
        f4.append("the transport is never shut down")
    if f4:
        return "[F4-stalled-transport] " + "; ".join(f4)
    return None


def oracle(c, ir):
    o = parse_out(ir)
    if o is None:
        return "unparsable implementation output: " + ir[:200]
    if stalled(c):
        return oracle_stalled(c, o, ir)
    frames = [f for _, fr in o["bursts"] for f in fr]
    if "TRUNCATED" in frames and not midburst(c):
        return "a burst on the transport was cut although no fault was injected inside it: %s" % ir[:300]
    if "STRAY" in frames and not midburst(c):
        return "a complete burst on the transport does not parse as whole frames: %s" % ir[:300]
    args = " ".join(c.args)
    progs = [p.split() for p in args.split(" sched ")[0].split("|")[1:]]
    # a cause has fired if an explicit close / EOF / error / alert call was executed, or some write hit the failed transport
    has_cause = any(tok in ("X", "F:eof", "F:err", "F:alert") or tok.startswith("F:cut:") or tok.startswith("F:err:") for p in progs for tok in p) or \
        any("io" in res for _, (_, res) in o["tasks"].items())
    # nobody is left blocked: after the drain every task has finished its program
    for t, (pc, res) in o["tasks"].items():
        if t == 0:
            if pc not in ("done", "recv", "-"):
                return "the receive task is stuck at %s after the drain" % pc
            continue
        if t < len(progs) and is_pump_prog([x for x in progs[t] if x != "-"]):
            # the forwarding task: not a caller. On a live session it idles in its loop; on a dead one it has returned,
            # or it sits in recv() of the channel for ever (it missed the close notification: a leaked task, recorded
            # in the evidence, outside the property text) -- but it must not be stuck inside a write or on a lock
            if pc not in ("done", "pump.wait", "pump.loop", "h.call"):
                return "the forwarding task is stuck at %s after the drain" % pc
            continue
        if pc != "done":
            return "task %d never finished: stuck at %s with results %s (a caller blocked forever)" % (t, pc, res)
    if has_cause:
        if not o["closed"]:
            return "a termination cause occurred but the session is not visibly closed"
        if not o["shut"]:
            return "the session is closed but its transport was never shut down"
        # every reader reached EOF, every pending open resolved with an error, later writes failed
        for t, (pc, res) in o["tasks"].items():
            if t == 0 or t >= len(progs):
                continue
            prog = [x for x in progs[t] if x != "-"]
            if is_pump_prog(prog):
                continue
            if len(res) != len(prog):
                return "task %d: %d results for %d calls" % (t, len(res), len(prog))
            for call, rr in zip(prog, res):
                if call in ("A", "T") and rr not in ("ok", "erropen", "closed", "timeout", "nostream", "dropped"):
                    return "task %d: open verdict %s" % (t, rr)
            # the last call of every worker is the timer-backed verdict: it must not be a success that arrived from nowhere
            if prog and prog[-1] == "R" and res[-1] not in ("eof", "data", "nostream", "readerr"):
                return "task %d: reader ended with %s" % (t, res[-1])
    return None


def same(c, ir, mr):
    if midburst(c):
        # a fault inside a burst leaves a partial burst on the real transport; compare everything but the wire
        return ir.split("|", 1)[-1] == mr.split("|", 1)[-1] and ir.split("W", 1)[0] == mr.split("W", 1)[0]
    return ir == mr


def match_known(c, failure, findings):
    if not failure.startswith("[F4-stalled-transport] ") or not stalled(c):
        return None
    for k in findings:
        if k.get("match", {}).get("oracle_tag") == "F4-stalled-transport":
            return k
    return None
