"""C10 -- opening a stream reports the server's verdict exactly once.
Drivers: c10 (the real Client with the in-memory connector under virtual time, n opens racing on one session,
scripted peer) and lo (real-time loopback: SOCKS5 / HTTP front-end replies and what reaches the target)."""
from .base import *
from . import sessgen as G

RULE = ("c10: 1-8 create_proxy_stream calls racing on one client session (real Client, session pool, connector hook, "
        "tokio virtual time); the scripted peer answers SYNACK ok / SYNACK with a reason before (1 ms .. 29 999 ms), "
        "(reasons: ordinary texts, whitespace-only, NUL, one byte, 65535 bytes, non-UTF-8 -- every non-empty payload is a refusal) "
        "or after (30 001 ms ..) the 30 s wait, twice, for ids that were never opened, after a FIN for the id, or "
        "dies (EOF, read error, Alert, local close) at any time; noise frames (PSH, SYN, HeartRequest) in between; "
        "each future must complete exactly once (no 'hang' after 65 s) with the class and at the instant predicted "
        "from the script by the reference rule 'first of {SYNACK for my id while registered, end of session while "
        "registered, my timer}'. lo (real time): SOCKS5 and HTTP CONNECT against a target that accepts (reply "
        "succeeded/200, bytes pipelined with the SOCKS5 request arrive only after the connect, intact) or refuses "
        "(general failure/502, no connection and no byte reaches any target, the application socket is closed). "
        "Non-trivial = at least 2 racing opens or a death or an answer within 2 ms of the timeout; distinct by "
        "sha256 of the case.")
SIDE_LEMMAS = 5
ASSUMPTIONS = ["tokio::time::timeout polls the inner future before the timer (model: opener_poll); equal instants are avoided by the generator",
               "the 15 s connect-timeout branch of the server handler needs an unreachable address: covered by the model (DialTimeout) and by reading, not by a driver",
               "the model is tied to client.rs create_proxy_stream / session.rs SynAck arm / stream.rs notify_synack by differential execution on the c10 cases (sampling); lo cases have no model side"]
Case = Case
IMPL_TIMEOUT = 600


def corpus_cases():
    return corpus("C10")


def predict(n, evs):
    """reference rule written from the property text"""
    evs = sorted(evs, key=lambda e: e[0])
    raw = {e[2] for e in evs if e[1] == "ack" and len(e) > 4 and e[4]}
    out = []
    for sid in range(1, n + 1):
        reg, alive, res = True, True, None
        timeline = [e for e in evs if e[0] < 30000] + [(30000, "timeout")] + [e for e in evs if e[0] > 30000]
        for e in timeline:
            t, k = e[0], e[1]
            if k == "timeout":
                res = "timeout@30000"
                break
            if k == "ack":
                if alive and reg and e[2] == sid:
                    # an empty payload is success; EVERY non-empty payload is the server's refusal
                    res = ("ok@%d" % t) if e[3] == b"" else (("srv.raw@%d" % t) if sid in raw else ("srv.%08x@%d" % (G.fnv(e[3]), t)))
                    break
            elif k == "fin":
                if alive and e[2] == sid:
                    reg = False
            elif k in ("alert", "eof", "rerr", "close"):
                if alive:
                    alive = False
                    if reg:
                        res = "closed@%d" % t
                        break
        out.append(res or "hang")
    return out


def parse_events(args):
    evs = []
    for a in args:
        p = a.split(":")
        t, k = int(p[0]), p[1]
        if k == "ack":
            evs.append((t, k, int(p[2]), unhx(p[3]), len(p) > 4 and p[4] == "r"))
        elif k in ("fin", "psh", "syn"):
            evs.append((t, k, int(p[2])))
        else:
            evs.append((t, k))
    return evs


def build(r, cid, tier):
    n = r.randint(1, 8)
    times = set()

    def tm(lo=1, hi=29998):
        while True:
            c = r.random()
            t = r.randint(lo, hi) if c < 0.7 else r.choice([1, 2, 29998, 29999, 30001, 30002, 45000, 59999])
            if t not in times and t != 30000:
                times.add(t)
                return t
    evs = []
    close_timing = False
    for sid in range(1, n + 1):
        c = r.random()
        if c < 0.55:
            t = tm()
            c2 = r.random()
            if c2 < 0.45:
                pl = "-"
            elif c2 < 0.65:
                pl = hx(r.choice([b"no", b"Failed to connect to 1.2.3.4:80: refused", b"x" * 300, b"Connection timeout (15s) to example.com:80\n",
                                  # long refusal texts in valid multi-byte UTF-8 at every alignment (a localized OS error, a non-ASCII host echoed back)
                                  ("\u00e9" * 400).encode(), ("x" + "\u00e9" * 400).encode(), ("\u6f22" * 300).encode(), ("a" + "\u6f22" * 300).encode(),
                                  ("ab" + "\u6f22" * 300).encode(), ("\U0001f600" * 200).encode(), ("Verbindung abgelehnt: \u00fc\u00f6\u00e4 " * 40).encode()]))
            elif c2 < 0.9:
                # every non-empty payload is a refusal: whitespace only, NUL, one byte, very long
                pl = hx(r.choice([b"\r\n", b"\n", b" ", b"\t", b"  \t\r\n ", b"\x00", b"\x0b", b"0", b"-", b" no ", b"y" * 65535, b" " * 65535]))
            else:
                pl = hx(r.choice([b"\xff", b"\xc3", b"\x80\x80", b"ok\xfe", b"\xe2\x82"])) + ":r"     # not UTF-8: class only
            evs.append("%d:ack:%d:%s" % (t, sid, pl))
            close_timing = close_timing or abs(t - 30000) <= 2
            if r.random() < 0.3 and not pl.endswith(":r"):
                evs.append("%d:ack:%d:%s" % (tm(), sid, r.choice(["-", hx(b"late"), hx(b"\n")])))      # answered twice
        elif c < 0.7:
            evs.append("%d:ack:%d:-" % (tm(30001, 60000), sid))                                # after the timeout
        elif c < 0.8:
            evs.append("%d:fin:%d" % (tm(), sid))
            evs.append("%d:ack:%d:-" % (tm(), sid))
        # else: never answered
    for _ in range(r.randint(0, 3)):
        evs.append("%d:ack:%d:%s" % (tm(), r.choice([0, n + 1, 99, 2 ** 32 - 1]), r.choice(["-", hx(b"zz")])))   # unknown ids
    for _ in range(r.randint(0, 3)):
        k = r.choice(["psh", "syn", "hb"])
        evs.append("%d:%s" % (tm(), k) if k == "hb" else "%d:%s:%d" % (tm(), k, r.randint(1, n + 1)))
    death = r.random() < 0.4
    if death:
        evs.append("%d:%s" % (tm(1, 40000), r.choice(["eof", "rerr", "alert", "close"])))
        if r.random() < 0.3:
            evs.append("%d:%s" % (tm(1, 50000), r.choice(["eof", "close", "alert"])))
    r.shuffle(evs)
    return Case(cid, "c10", [n] + evs, "open-race-%d%s" % (n, "-death" if death else ""), n >= 2 or death or close_timing)


def gen_cases(tier, seed):
    r = rng(seed, "C10")
    cs = [build(r, "o%d" % i, tier) for i in range({"quick": 320, "thorough": 5000}[tier])]
    k = 0
    for rep in range(1 if tier == "quick" else 6):
        for front in ("socks", "http"):
            for sc, n in (("refuse", 0), ("pipelined", 200), ("pipelined", 0)):
                k += 1
                cs.append(Case("lo%d" % k, "lo", [front, sc, n if rep == 0 else r.randint(0, 5000), 5, 500], "front-%s-%s" % (front, sc), True, model=False))
                # the same with a client whose padding scheme differs from the server's (the server pushes its own): the
                # verdict must arrive all the same (seed C10-3)
                k += 1
                cs.append(Case("lo%d" % k, "lo", [front, sc, n if rep == 0 else r.randint(0, 5000), 5, 500, "cs"], "front-%s-%s-other-scheme" % (front, sc), True, model=False))
    return cs


def lo_oracle(c, ir):
    front, sc, n = c.args[0], c.args[1], int(c.args[2])
    kv = dict(t.split("=", 1) for t in ir.split() if "=" in t)
    if sc == "refuse":
        if kv.get("reply") != "fail":
            return "the target refused the connection but the application was told %s" % kv.get("reply")
        if kv.get("tgt_conn") != "0":
            return "a connection reached a target although the open failed"
        if kv.get("app_after") != "0":
            return "bytes followed the failure reply: %s" % kv.get("app_after")
        return None
    if kv.get("reply") != "ok":
        return "the target accepted but the application was told %s" % kv.get("reply")
    if kv.get("tgt_conn") != "1":
        return "'connected' was reported although no connection reached the target"
    exp = G.gen("c", 1, 0, n)
    if kv.get("fwd") != "%d.%08x" % (len(exp), G.fnv(exp)):
        return "bytes sent by the application did not arrive intact after the connect: got %s expected %d" % (kv.get("fwd"), n)
    if kv.get("extra") != "0":
        return "bytes that were never sent reached the target"
    return None


def oracle(c, ir):
    if c.drv == "lo":
        return lo_oracle(c, ir)
    if c.drv != "c10":
        return "unknown driver"
    if ir.startswith("PANIC") or ir.startswith("NO-SESSION"):
        return "implementation run failed: " + ir[:200]
    n = int(c.args[0])
    toks = ir.split()
    if any(t.startswith("sessions=") for t in toks):
        return "the racing opens were spread over several sessions (harness precondition broken): " + ir
    if len(toks) != n:
        return "%d opens, %d outcomes: %s" % (n, len(toks), ir[:200])
    exp = predict(n, parse_events(c.args[1:]))
    for i, (a, b) in enumerate(zip(toks, exp)):
        if a == "hang":
            return "open #%d never completed (65 s virtual budget), expected %s" % (i + 1, b)
        if a != b:
            return "open #%d completed with %s, the script implies %s" % (i + 1, a, b)
    return None


def same(c, ir, mr):
    return ir == mr
