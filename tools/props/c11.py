"""C11 -- concurrent writers cannot scramble the wire (scheduled driver `conc`)."""
from .base import *
from .conc_common import *

RULE = ("programs: a freshly started client session (Settings buffered) with 2-4 tasks each doing open; disable-buffering; "
        "1-3 data writes (plus plain sessions with raw control/data writes); schedules: every interleaving of two tasks' first "
        "steps up to a bound, then random schedules with pre-emption at every hook point, each followed by a round-robin drain; plus a "
        "multi-threaded start-up stress with a heartbeat (oracle only: the settings frame is the first frame); keep-alive requests "
        "from the peer fed at every position of a start-up and under random schedules (the receive task's answer is a write_frame "
        "call of task 0, buffered / ordered like every other frame). "
        "Non-trivial = at least two tasks have a step between another task's first and last step (a real interleaving); "
        "distinct by sha256 of (programs, schedule).")
SIDE_LEMMAS = 3
ASSUMPTIONS = ["tokio::sync::Mutex is FIFO-fair and hands the lock to the first waiter (modelled by `waiters`)",
               "critical sections of the buffer mutex and the table RwLocks contain no await that can block on a session lock (atomic steps in the model)",
               "the scheduling points placed in session.rs are the only places where the harness pre-empts a task (single-threaded runtime): pre-emption inside a burst write is not explored, contiguity of a burst is checked on the recorded transport writes",
               "the model is tied to session.rs by differential execution on explicit schedules (sampling)"]
Case = Case
IMPL_SHARDS = 16


def corpus_cases():
    return corpus("C11")


def interleaved(sched, ntasks):
    first, last = {}, {}
    for i, t in enumerate(sched):
        first.setdefault(t, i); last[t] = i
    n = 0
    for a in first:
        for b in first:
            if a != b and first[a] < first[b] < last[a]:
                n += 1
    return n >= 1


def gen_cases(tier, seed):
    r = rng(seed, "C11")
    cs = []

    def add(mode, progs, sched, kind):
        toks = render(mode, progs, sched)
        cs.append(Case("c%d" % (len(cs) + 1), "conc", toks, kind, interleaved(sched, len(progs)), {"ntasks": len(progs)}))
    # exhaustive interleavings of the first steps of two openers on a fresh session
    depth = 10 if tier == "quick" else 14
    progs = [[], prog_open_write(1, 1), prog_open_write(2, 1)]
    for bits in itertools.product([1, 2], repeat=depth):
        add("start", progs, list(bits) + drain_suffix(3, 24), "exhaustive-2tasks")
    # the same with a first data frame longer than the record size (the burst is written in several records
    # while the lock is held): every interleaving of the first 8 steps
    progs = [[], prog_open_write(1, 1, big=True), prog_open_write(2, 2, big=True)]
    for bits in itertools.product([1, 2], repeat=8 if tier == "quick" else 12):
        add("start", progs, list(bits) + drain_suffix(3, 30), "exhaustive-2tasks-bigframe")
    # random schedules, 2-4 tasks
    n = 500 if tier == "quick" else 12000
    for i in range(n):
        nt = r.choice([2, 2, 3, 3, 4])
        mode = "start" if r.random() < 0.8 else "plain"
        progs = [[]]
        for t in range(1, nt + 1):
            if mode == "start" or r.random() < 0.5:
                progs.append(prog_open_write(t, r.randint(1, 3), with_await=False, disable_buf=(r.random() < 0.9), big=(r.random() < 0.25)))
            else:
                progs.append(["W:2:%d:%s" % (40 + t, payload(t, k)) for k in range(r.randint(1, 3))])
        if r.random() < 0.3:
            progs.append(["F:sa:%d:%d" % (r.randint(1, nt), r.randint(0, 1)), "F:psh:%d" % r.randint(1, nt)])
        L = r.randint(10, 60)
        sched = [r.randint(1, len(progs) - 1) for _ in range(L)]
        # bursty pre-emption: sometimes let one task run several steps
        if r.random() < 0.5:
            sched = [t for t in sched for _ in range(r.choice([1, 1, 2, 3]))]
        add(mode, progs, sched + drain_suffix(len(progs), 8 * max(len(p) for p in progs) + 8), "random-%s" % mode)
    # the outbound data path of proxied streams: Stream::send_data -> channel -> forwarding task -> write_data_frame.
    # every interleaving of the first steps of one sender and the forwarding task
    progs = [[], prog_open_send(1, 2), pump_prog(40)]
    for bits in itertools.product([1, 2], repeat=11 if tier == "quick" else 15):
        add("plain", progs, list(bits) + drain_suffix(3, 30), "exhaustive-sender-pump")
    # two senders, random schedules, the forwarding task anywhere
    for i in range(300 if tier == "quick" else 8000):
        nt = r.choice([1, 2, 2, 3])
        progs = [[]]
        for t in range(1, nt + 1):
            if r.random() < 0.8:
                progs.append(prog_open_send(t, r.randint(1, 4), disable_buf=(r.random() < 0.9)))
            else:
                progs.append(prog_open_write(t, r.randint(1, 2)))
        progs.append(pump_prog(200))
        if r.random() < 0.2:
            progs.append(["F:fin:%d" % r.randint(1, nt), "F:psh:%d" % r.randint(1, nt)])
        L = r.randint(10, 70)
        sched = [r.randint(1, len(progs) - 1) for _ in range(L)]
        if r.random() < 0.5:
            sched = [t for t in sched for _ in range(r.choice([1, 1, 2, 3]))]
        nsend = sum(1 for p in progs for x in p if x.startswith("S:"))
        pump_t = [i for i, p in enumerate(progs) if is_pump_prog(p)][0]
        # drain: everybody finishes, then the forwarding task gets enough steps to empty the channel (7 per chunk)
        rounds = 8 * max(len(p) for p in progs if not is_pump_prog(p)) + 10
        add("plain", progs, sched + drain_suffix(len(progs), rounds) + [pump_t] * (8 * nsend + 4), "random-pump")
    # frames the RECEIVE task writes: a keep-alive request from the peer is answered through write_frame like everybody
    # else's frame (seed C11-8 answered it past the start-up buffer). Task 0's program holds the answers (one CWrite per
    # request, started when the request is dispatched); the request is fed at every position among the first steps of an
    # opener on a fresh session (start mode: the library's own receive task, free-running) ...
    HR = "W:9:0:-"
    progs = [[HR], prog_open_write(1, 1), ["F:hreq"]]
    for bits in itertools.product([1, 2], repeat=7 if tier == "quick" else 11):
        add("start", progs, list(bits) + [2] + drain_suffix(3, 24), "exhaustive-heartreq-during-startup")
    # ... and with the receive task under the scheduler (plain mode: its write_frame is interleaved step by step with
    # the other writers), 1-3 requests, random schedules
    for i in range(150 if tier == "quick" else 4000):
        nt = r.choice([1, 2, 2, 3])
        nreq = r.randint(1, 3)
        mode = "start" if r.random() < 0.4 else "plain"
        progs = [[HR] * nreq]
        for t in range(1, nt + 1):
            progs.append(prog_open_write(t, r.randint(1, 3), disable_buf=(r.random() < 0.9), big=(r.random() < 0.2)))
        progs.append(["F:hreq"] * nreq)
        L = r.randint(10, 60)
        sched = [r.randint(0 if mode == "plain" else 1, len(progs) - 1) for _ in range(L)]
        if r.random() < 0.5:
            sched = [t for t in sched for _ in range(r.choice([1, 1, 2, 3]))]
        add(mode, progs, sched + drain_suffix(len(progs), 8 * max(len(p) for p in progs) + 12), "random-heartreq-%s" % mode)
    # a transport that accepts part of a burst, then nothing for a long time (the peer does not read), then drains: the
    # writer keeps the lock for the whole burst however long that takes, the writer queued behind it starts afterwards,
    # nothing is torn and nobody gives up (seed C11-7 bounded the write by a timer and let the queued writer into the
    # middle of the frame). Oracle only (the model's stall is permanent: C09 / F4); virtual time
    for i, (k, nap) in enumerate([(0, 45000), (5, 45000), (150, 45000), (1100, 100000), (150, 5000), (2000, 31000), (150, 0), (7, 600000)]):
        if tier == "quick" and i >= 6:
            break
        progs = [[], ["O", "B0"], ["O", "B0"], ["STALL:%d" % k] + (["SLEEP:%d" % nap] if nap else []) + ["UNSTALL"],
                 ["W:2:44:" + payload(4, 0, True)], ["W:2:45:" + payload(5, 0, True), "W:2:45:" + payload(5, 1)]]
        # both opens complete; the peer stops reading; task 4's burst gets stuck k bytes in; task 5 queues behind it;
        # time passes; the peer reads again; everybody finishes
        sched = [1] * 24 + [2] * 24 + [3] + [4] * 10 + [5] * 10 + [3, 3] + drain_suffix(6, 30)
        cs.append(Case("sd%d" % i, "conc", render("plain", progs, sched), "stall-then-drain", True, {"ntasks": 6}, model=False))
    # multi-threaded start-up stress (heartbeat enabled): no model side, oracle only
    for i in range(4 if tier == "quick" else 16):
        cs.append(Case("mt%d" % i, "mtstart", [150 if tier == "quick" else 1000], "mt-startup-stress", True, model=False))
    return cs


def oracle(c, ir):
    if c.drv == "mtstart":
        import re
        m = re.search(r"settings_not_first=(\d+)", ir)
        if not m:
            return "unparsable: " + ir[:200]
        return None if m.group(1) == "0" else "multi-threaded start-up: the settings frame was not the first frame of the session in %s of %s runs (%s)" % (m.group(1), c.args[0], ir)
    o = parse_out(ir)
    if o is None:
        return "unparsable implementation output: " + ir[:200]
    frames = [f for _, fr in o["bursts"] for f in fr]
    if "TRUNCATED" in frames or "STRAY" in frames:
        return "a burst on the transport does not parse as whole frames: %s" % ir[:300]
    mode = c.args[0]
    # every task finished (no faults, no close in these programs)
    progs0 = [p.split() for p in " ".join(c.args).split(" sched ")[0].split("|")[1:]]
    for t, (pc, res) in o["tasks"].items():
        if t == 0:
            continue
        if t < len(progs0) and is_pump_prog([x for x in progs0[t] if x != "-"]):
            # the forwarding task never finishes on a live session: it is at the top of its loop or waiting for data
            if pc not in ("pump.loop", "pump.wait", "h.call"):
                return "the forwarding task is stuck at %s although every sender has finished and the drain granted it steps" % pc
            continue
        if pc != "done":
            return "task %d did not finish (stuck at %s) although nothing closes or fails in this program" % (t, pc)
        if any(x not in ("ok",) for x in res):
            return "task %d: a call failed without any fault or close: %s" % (t, res)
    if o["closed"] or o["shut"]:
        return "session closed without cause"
    # settings first
    if mode == "start" and frames and frames[0] != "SETTINGS":
        return "the first frame on the wire is %s, not the client's settings frame" % frames[0]
    if frames.count("SETTINGS") > 1:
        return "settings frame duplicated"
    # no duplicates, per-task order, SYN before PSH
    data = [f for f in frames if f != "SETTINGS"]
    nreq = sum(1 for p in progs0 for x in p if x == "F:hreq")
    answers = [f for f in data if f.split(".")[0] == "9"]
    if len(answers) > nreq:
        return "%d keep-alive answers on the wire for %d requests" % (len(answers), nreq)
    data = [f for f in data if f.split(".")[0] != "9"]      # answers are identical frames; everything else is unique
    if len(set(data)) != len(data):
        return "a frame appears twice on the wire: %s" % data
    seen_syn = set()
    last_seq = {}
    for f in data:
        cmd, sid, hx_ = f.split(".")
        if cmd == "1":
            seen_syn.add(sid)
        elif cmd == "2":
            if int(sid) < 40 and sid not in seen_syn:
                return "data frame of stream %s precedes its SYN: %s" % (sid, data)
            t, k = int(hx_[0:2], 16), int(hx_[2:4], 16)
            if last_seq.get(t, -1) >= k:
                return "frames of task %d out of order: %s" % (t, data)
            last_seq[t] = k
    # nothing dropped: when buffering was disabled by someone after the last write, all submitted frames are on the wire
    progs = " ".join(c.args).split(" sched ")[0].split("|")[1:]
    submitted = 0
    disabled = (mode == "plain")
    for p in progs:
        for tok in p.split():
            if tok == "O":
                submitted += 1
            elif tok.startswith("D:") or tok.startswith("W:") or tok.startswith("S:"):
                submitted += 1
            elif tok == "B0":
                disabled = True
    if disabled:
        # frames may still sit in the pending buffer only if the last write happened in buffering mode; compare counts conservatively
        on_wire = len(data)
        if on_wire > submitted:
            return "more frames on the wire (%d) than submitted (%d)" % (on_wire, submitted)
    # the forwarding path drops nothing: the drain grants the forwarding task enough steps to empty the channel
    has_pump = any(is_pump_prog([x for x in p if x != "-"]) for p in progs0)
    if has_pump and o["tasks"].get(len(progs0) - 1, ("", []))[0] != "h.call" or has_pump and any(
            is_pump_prog([x for x in p if x != "-"]) and o["tasks"].get(i, ("", []))[0] in ("pump.wait",) for i, p in enumerate(progs0)):
        for t, p in enumerate(progs0):
            toks = [x for x in p if x != "-"]
            if "B0" in toks and any(x.startswith("S:") for x in toks):
                pumpst = [o["tasks"].get(i, ("", []))[0] for i, q in enumerate(progs0) if is_pump_prog([x for x in q if x != "-"])]
                if pumpst and pumpst[0] == "pump.wait":
                    want = [x[2:] for x in toks if x.startswith("S:")]
                    got = [f.split(".")[2] for f in data if f.split(".")[0] == "2" and f.split(".")[2][:2] == "%02x" % t]
                    if got != want:
                        return "stream of task %d: the application sent %s, the wire carries %s (forwarding task idle, channel must be empty)" % (t, want, got)
    # packet numbering follows transport order (C05 ordering clause)
    idx = [i for i, _ in o["bursts"]]
    if c.kind == "stall-then-drain":
        # the stall cuts a record write in two, so the harness cannot read the packet number off the first write's length
        idx = list(range(1, len(idx) + 1))
    if idx != list(range(1, len(idx) + 1)):
        return "bursts were shaped with packet numbers %s, expected 1..%d in transport order" % (idx, len(idx))
    return None


def same(c, ir, mr):
    return ir == mr
