"""C12 -- the session pool never hands out or destroys the wrong session.
Drivers: pool (real Client + SessionPool on in-memory transports, virtual time), bpool (bare SessionPool API),
poolreal (real Server + Client over loopback TLS, real time)."""
from .base import *
from . import _timed as TM

RULE = ("pool: random client histories (sequential / bursts through gated dials / mixed) of requests, stream completions, "
        "external session deaths and all reaper ticks k*I up to last op + T + 2I, over I in {1,2,3,5,10,30}s, "
        "T in {1..60}s (T<I, T=I, I not dividing T included), min_idle in {0,1,2,3}; insertions placed exactly `timeout` before a tick; "
        "bpool: histories of new/add/get/close/cleanup_expired/ticks with duplicate and huge seq keys, timeout 0 included; "
        "big-burst: 12-48 overlapping requests through gated dials (no session of the burst may be closed while it carries its stream); "
        "slow-reaper-pass: bare-pool passes with 2-5 victims of which the first 1-2 sit on transports whose shutdown stalls (close waits 1 s), a "
        "get_idle_session issued 1..1900 ms into the pass (periodic task and cleanup_expired); "
        "poolreal: three real-socket scenarios. Non-trivial = at least one reaper pass after at least one request/insert and >= 3 ops; "
        "distinct by sha256 of the case.")
SIDE_LEMMAS = 5      # Gen/FactsTimed.v: pool_shape, client_glue_shape, pool_defaults, pool_reap_atomic, client_seq_before_add
ASSUMPTIONS = ["tokio timers/RwLock/BTreeMap behave as documented; order of independent timers at equal instants is not modelled (generated cases avoid such ties)",
               "`stream completion` is a ghost event: the code base has no such signal (no FIN is ever sent, C08/F1)",
               "the model is tied to session_pool.rs / client.rs by differential execution on the cases counted below (sampling) and by the regenerated shape constants"]
Case = Case
OWN = ("malformed", "request_failed", "handed_closed", "closed_outside", "reaper_closed_busy", "min_idle", "surplus", "closed_in_use", "identity")


def corpus_cases():
    return corpus("C12")


def gen_cases(tier, seed):
    r = rng(seed, "C12")
    cs = []
    for name, args in TM.REAL_CASES:
        cs.append(Case(name, "poolreal", args, "real-sockets", True))
    n = 150 if tier == "quick" else 3000
    for i in range(n):
        a = TM.gen_client_history(r, long=(tier != "quick" and i % 3 == 0))
        cs.append(Case("p%d" % i, "pool", a, "client-history", TM.pool_nontrivial(a)))
    n = 120 if tier == "quick" else 2000
    for i in range(n):
        a = TM.gen_bare_history(r, long=(tier != "quick" and i % 3 == 0))
        cs.append(Case("b%d" % i, "bpool", a, "bare-api", TM.pool_nontrivial(a)))
    n = 30 if tier == "quick" else 500
    for i in range(n):
        a = TM.gen_dead_idle_then_quiet(r)
        cs.append(Case("dq%d" % i, "pool", a, "dead-idle-then-quiet", True))
    for i in range(12 if tier == "quick" else 150):
        a = TM.gen_big_burst(r)
        cs.append(Case("bb%d" % i, "pool", a, "big-burst", True))
    n = 40 if tier == "quick" else 600
    for i in range(n):
        a = TM.gen_slow_pass(r)
        cs.append(Case("sp%d" % i, "bpool", a, "slow-reaper-pass", True))
    return cs


def is_known(f):
    """F2: the session closed while carrying a stream was in the idle map since its creation (never reused)"""
    return f.kind == "reaper_closed_busy" and f.facts.get("never_reused") == 1


def oracle(c, ir):
    if ir.startswith("PANIC") or ir.startswith("UNKNOWN-DRIVER"):
        return "[malformed] " + ir[:200]
    fs = TM.analyse_bare(c, ir) if c.drv == "bpool" else TM.analyse_client(c, ir)
    fs = [f for f in fs if f.kind in OWN]
    new = [f for f in fs if not is_known(f)]
    if new:
        return new[0].render()
    return fs[0].render() if fs else None


def match_known(c, failure, findings):
    if c.drv not in ("pool", "poolreal") or not failure.startswith("[reaper_closed_busy "):
        return None
    if "never_reused=1" not in failure.split("]")[0]:
        return None
    for k in findings:
        m = k.get("match", {})
        if m.get("kind") == "reaper_closed_busy" and m.get("session") == "in the idle map since creation, never reused":
            return k
    return None


def same(c, ir, mr):
    return ir == mr
