"""C13 -- sessions are reused instead of re-dialled. Same drivers as C12 (pool, poolreal)."""
from .base import *
from . import _timed as TM

RULE = ("pool: random client histories as for C12 plus long strictly sequential request/done chains (up to 40 requests) with and "
        "without reaper ticks and session deaths in between; bursts of 2-4 overlapping requests (gated dials, all completing) followed by 2-5 sequential ones; poolreal: a burst of 3 then 3 sequential requests, and sequential requests over loopback TLS counting accepted "
        "connections. Non-trivial = at least 2 requests; distinct by sha256 of the case.")
SIDE_LEMMAS = 3      # Gen/FactsTimed.v: client_glue_shape, pool_shape, client_seq_before_add
ASSUMPTIONS = ["`non-overlapping` is decided on the history: a request is non-overlapping when every earlier request's stream has been completed",
               "the model is tied to client.rs / session_pool.rs by differential execution on the cases counted below (sampling)"]
Case = Case
OWN = ("malformed", "request_failed", "handed_closed", "redial", "identity", "bounded", "dials_mismatch")


def corpus_cases():
    return corpus("C13")


def gen_seq_chain(r):
    I = r.choice([1000, 3000, 30000])
    T = r.choice([2000, 5000, 60000])
    M = r.choice([0, 1, 2])
    t, ops, created = 7, [], 0
    gap = r.choice([15, 200, I // 2 + 1, I + 7])
    for i in range(r.randint(2, 40)):
        t = TM._avoid_ticks(t + gap, I)
        ops.append((t, "r"))
        t = TM._avoid_ticks(t + r.choice([5, 50, gap]), I)
        # the stream of the request just issued is completed: the driver names it by session, so complete one on each
        # session that may hold it (a surplus `d` is a no-op on both sides)
        for k in range(created + 1):
            ops.append((t, "d%d" % k)); t += 3
        created += 1 if i % 2 == 0 else 0
        if r.random() < 0.05 and created:
            t = TM._avoid_ticks(t + 9, I)
            ops.append((t, "x%d" % r.randrange(created)))
    ops = TM.with_ticks(I, ops, r.choice([0, I, T + I]))
    return [I, T, M] + ["%d:%s" % (a, b) for a, b in ops][:150]


def gen_cases(tier, seed):
    r = rng(seed, "C13")
    cs = []
    for name, args in TM.REAL_CASES:
        cs.append(Case(name, "poolreal", args, "real-sockets", True))
    # the first request on a fresh session fails at the STREAM level (the target refuses: SYNACK with an error); the
    # session is healthy, so the next, non-overlapping request must be served over it: one TLS connection in all
    # (seed C13-4). Implementation + oracle only (the pool model has no failing opens).
    cs.append(Case("real-refused-first", "poolreal", ["4000", "8000", "1", "100:q", "1200:r"], "real-refused-first", True, model=False))
    # ... or fails LOCALLY before the request has written anything (a host name that does not fit the address encoding): the
    # session it was given is healthy and has sent nothing yet; the next request must be served over it (seed C11-6)
    cs.append(Case("real-local-failure-first", "poolreal", ["4000", "8000", "1", "100:Q", "1200:r"], "real-refused-first", True, model=False))
    n = 120 if tier == "quick" else 2500
    for i in range(n):
        a = TM.gen_client_history(r, long=(tier != "quick" and i % 3 == 0))
        cs.append(Case("p%d" % i, "pool", a, "client-history", sum(1 for x in a[3:] if x.split(":")[1][0] in "ra") >= 2))
    n = 60 if tier == "quick" else 800
    for i in range(n):
        a = gen_seq_chain(r)
        cs.append(Case("s%d" % i, "pool", a, "sequential-chain", True))
    n = 40 if tier == "quick" else 500
    for i in range(n):
        a = TM.gen_burst_then_seq(r)
        cs.append(Case("bs%d" % i, "pool", a, "burst-then-sequential", True))
    n = 30 if tier == "quick" else 500
    for i in range(n):
        a = TM.gen_dead_idle_then_quiet(r)
        cs.append(Case("dq%d" % i, "pool", a, "dead-idle-then-quiet", True))
    # bursts larger than any plausible internal bound on pooled sessions: every request of the burst keeps its session,
    # and the requests that follow still find established sessions (seeds C12-7 / C13-8: a pool size cap that closes
    # the oldest pooled -- in-use -- sessions on insertion)
    for i in range(8 if tier == "quick" else 100):
        a = TM.gen_big_burst(r)
        cs.append(Case("bb%d" % i, "pool", a, "big-burst", True))
    return cs


def is_known(f):
    """F3: a reused session is never returned to the idle map"""
    if f.kind == "redial":
        return f.facts.get("all_live_reused_before") == 1
    if f.kind == "bounded":
        return f.facts.get("live_never_reused_within_bound") == 1
    return False


def oracle(c, ir):
    if ir.startswith("PANIC") or ir.startswith("UNKNOWN-DRIVER"):
        return "[malformed] " + ir[:200]
    if c.kind == "real-refused-first":
        import re
        toks = ir.split()
        m = re.search(r"dials=(\d+)", ir)
        if not m or not toks or not toks[0].startswith("refused/"):
            return "[malformed] refused-first scenario: %s" % ir[:200]
        later = [t for t in toks[1:] if not t.startswith("dials=") and not t.startswith("refused/")]
        if not later or any(t.split("/")[0][:1] not in "nu" for t in later):
            return "[request_failed] the request after a refused one failed: %s" % ir[:200]
        if m.group(1) != "1":
            return ("[redial_after_refusal] the first request's target refused the connection (a stream-level failure on a healthy session); the next, "
                    "non-overlapping request dialled a new TLS connection instead of using that session: %s connections in all" % m.group(1))
        return None
    fs = [f for f in TM.analyse_client(c, ir) if f.kind in OWN]
    new = [f for f in fs if not is_known(f)]
    if new:
        return new[0].render()
    return fs[0].render() if fs else None


def match_known(c, failure, findings):
    if c.drv not in ("pool", "poolreal"):
        return None
    head = failure.split("]")[0]
    kind = None
    if failure.startswith("[redial ") and "all_live_reused_before=1" in head:
        kind = "redial"
    if failure.startswith("[bounded ") and "live_never_reused_within_bound=1" in head:
        kind = "bounded"
    if kind is None:
        return None
    for k in findings:
        if k.get("match", {}).get("kind") == kind:
            return k
    return None


def same(c, ir, mr):
    return ir == mr
