"""C14 -- the liveness monitor closes dead sessions and only dead sessions.
Driver hb: a client session with heartbeat (bare Session, or through Client + pool config, with / without stream traffic)
against a scripted peer under virtual time."""
from .base import *

RULE = ("hb: all 49 (interval, timeout) pairs of {1,2,3,5,10,30,60}s (timeout < interval and = interval included) x delay patterns "
        "(0, constant, jittered below T, alternately 0 and T-1, always T-1, late answers >= T+1, single dropped answers) x silence "
        "(never, before the first request, after k exchanges) x modes (bare session, through Client, Client with stream traffic; prefix q: the peer also sends keep-alive requests and padding of its own every 777 ms) x "
        "client->peer transport (unbounded, or bounded to 64 / 256 / 1024 bytes so that padded packets are still being written while the peer answers; "
        "the no-false-close patterns run over all 49 pairs on a bounded transport as well). "
        "Non-trivial = at least 3 requests in the observation window, or a closure; distinct by sha256 of the case.")
SIDE_LEMMAS = 3      # Gen/FactsTimed.v: hb_rule_shape, cli_positive_seconds, hb_baseline_shape
ASSUMPTIONS = ["tokio interval (first tick immediate, MissedTickBehavior::Delay), sleep_until and select! behave as documented; frame writes are instantaneous",
               "order of independent timers at equal instants is not part of the property: generated cases avoid an answer arriving exactly at a tick or at a deadline (delay 0 is causal and allowed)",
               "release of all waiters on close is C09's subject; here closure is observed as the closed flag plus the transport shutdown seen by the peer",
               "the model is tied to session.rs by differential execution on the cases counted below (sampling) and by the regenerated comparison operators"]
Case = Case
SECS = [1, 2, 3, 5, 10, 30, 60]


def corpus_cases():
    return corpus("C14")


def off(r, d):
    """a delay that is not a whole number of seconds (so it cannot coincide with a tick or a deadline), or 0"""
    if d <= 0:
        return 0
    return d if d % 1000 else d + r.choice([1, 7, 333, 999]) if d > 1 else 1


def scripts(r, I, T, nreq):
    """(name, list of delays or None) ; delays in ms; None = never answered"""
    below = lambda: r.choice([0, 1, 7, max(1, T // 2 - 1), T - 1, T - 1, r.randrange(1, T)])
    nz = lambda d: d if (d == 0 or d % 1000) else d - 1
    out = []
    out.append(("instant", [0] * nreq))
    out.append(("const", [nz(r.randrange(1, T))] * nreq))
    out.append(("jitter", [nz(below()) for _ in range(nreq)]))
    out.append(("alt0max", [0 if k % 2 == 0 else T - 1 for k in range(nreq)]))
    out.append(("max", [T - 1] * nreq))
    out.append(("silent0", []))
    k = r.randint(1, max(1, nreq - 1))
    out.append(("silent-after-%d" % k, [nz(below()) for _ in range(k)]))
    out.append(("late", [0] + [T + 1 + r.choice([0, 5, 500])] * (nreq - 1)))
    d = [nz(below()) for _ in range(nreq)]
    d[r.randrange(nreq)] = None
    out.append(("drop1", d))
    return out


def gen_cases(tier, seed):
    r = rng(seed, "C14")
    cs = []
    n = 0
    reps = 1 if tier == "quick" else 6
    for _ in range(reps):
        for Is in SECS:
            for Ts in SECS:
                I, T = Is * 1000, Ts * 1000
                nreq = r.randint(4, 7)
                H = nreq * I + T + I + 500
                for name, sc in scripts(r, I, T, nreq + 2):
                    if tier == "quick" and name in ("const", "drop1") and (Is + Ts) % 2:
                        continue
                    mode = r.choice(["s", "s", "c", "ct", "s64", "s256", "c64", "c256", "ct1024", "s1024"])
                    n += 1
                    args = [mode, I, T, H] + ["x" if d is None else d for d in sc]
                    cs.append(Case("h%d" % n, "hb", args, "%s/%s" % (mode, name.split("-")[0]), True, meta={"pattern": name}))
    # the no-false-close grid again over a BOUNDED client -> peer transport (64 / 256 / 1024 bytes): the padded packets of
    # the session's padding phase are still being written while the peer already reads and answers
    for Is in SECS:
        for Ts in SECS:
            I, T = Is * 1000, Ts * 1000
            nreq = 6
            H = nreq * I + T + I + 500
            for name, sc in (("instant", [0] * (nreq + 2)), ("alt0max", [0 if k % 2 == 0 else T - 1 for k in range(nreq + 2)])):
                mode = r.choice(["s", "c", "ct"]) + str(r.choice([64, 256, 1024]))
                n += 1
                cs.append(Case("hb%d" % n, "hb", [mode, I, T, H] + sc, "%s/%s" % (mode, name), True, meta={"pattern": name, "bounded": True}))
    # a peer with traffic of its own: it sends keep-alive REQUESTS (and padding) every 777 ms whether or not it answers the
    # client's requests (mode prefix q). Requests are not answers: the same rule, the same model run
    for Is, Ts in ((1, 3), (2, 2), (3, 1), (5, 10), (10, 5), (30, 10), (2, 60)):
        I, T = Is * 1000, Ts * 1000
        nreq = 5
        H = nreq * I + T + I + 500
        for name, sc in scripts(r, I, T, nreq + 2):
            if tier == "quick" and name in ("const", "jitter", "drop1", "alt0max"):
                continue
            mode = "q" + r.choice(["s", "c", "ct", "s256", "c1024"])
            n += 1
            cs.append(Case("hq%d" % n, "hb", [mode, I, T, H] + ["x" if d is None else d for d in sc], "%s/%s" % (mode, name.split("-")[0]),
                           True, meta={"pattern": name, "chatty_peer": True}))
    # the peer vanishes (stops reading, never closes) after answering its first k requests at once; the client's transport
    # is a 64 / 256-byte pipe that fills up, so the next write stays pending. Implementation only (the model's writes are
    # instantaneous); judged by the same detection bound; known finding F4.
    for Is, Ts in ((1, 3), (2, 5), (3, 2), (10, 30), (30, 10)):
        I, T = Is * 1000, Ts * 1000
        for k in (1, 3):
            for cap in (64, 256):
                H = k * I + T + 3 * I + 2000
                n += 1
                cs.append(Case("hz%d" % n, "hb", ["z%d" % cap, I, T, H] + [0] * k, "z%d/vanish" % cap, True,
                               meta={"pattern": "vanish-after-%d" % k}, model=False))
    return cs


def parse(ir):
    try:
        left, right = ir.split("|")
        lt = left.split()
        assert lt[0] == "q"
        reqs = [int(x) for x in lt[1:]]
        rt = right.split()
        if rt[0] == "o":
            return reqs, None, rt[1:]
        return reqs, int(rt[1]), rt[2:]
    except (ValueError, AssertionError, IndexError):
        return None, None, ["unreadable"]


def oracle_vanish(c, ir):
    I, T, H = int(c.args[1]), int(c.args[2]), int(c.args[3])
    k = len(c.args) - 4
    try:
        left, right = ir.split("|")
        reqs = [int(x) for x in left.split()[1:]]
        rt = right.split()
    except ValueError:
        return "[malformed] implementation result: %s" % ir[:200]
    answered = reqs[:k]
    last_answer = max(answered) if answered else 0
    limit = last_answer + T + I
    closed_flag = rt[0] == "c" or "flag-set" in rt
    if rt[0] == "c" and int(rt[1]) < last_answer + T:
        return "[false_close] closed at %s although the last answer arrived at %d (timeout %d)" % (rt[1], last_answer, T)
    if not closed_flag and H >= limit + 2:
        return ("[F4-stalled-transport] the peer answered until %d and then vanished without closing (it no longer reads: the client's "
                "%s-byte pipe is full and the next write stays pending); the session is still not closed at %d, limit %d = last answer + timeout %d "
                "+ interval %d: the monitor's own HeartRequest waits for the transport / the writer mutex and the deadline is never examined"
                % (last_answer, c.args[0][1:], H, limit, T, I))
    return None


def oracle(c, ir):
    if str(c.args[0]).startswith("z"):
        return oracle_vanish(c, ir)
    mode, I, T, H = c.args[0], int(c.args[1]), int(c.args[2]), int(c.args[3])
    script = [None if a == "x" else int(a) for a in c.args[4:]]
    reqs, closed, extra = parse(ir)
    if reqs is None or extra:
        return "[malformed] implementation result: %s" % ir[:200]
    delay = lambda k: script[k] if k < len(script) else None
    # keep-alive requests go out every interval while the session is open
    for k, t in enumerate(reqs):
        if t != k * I:
            return "[requests] keep-alive request %d was sent at %d, expected %d" % (k, t, k * I)
    end = closed if closed is not None else H
    if reqs and (len(reqs) - 1) * I > end:
        return "[requests] a keep-alive request was sent at %d, after the session was closed at %d" % (reqs[-1], end)
    expected_n = end // I + 1 if closed is None else None
    if expected_n is not None and len(reqs) != expected_n:
        return "[requests] %d keep-alive requests in %d ms with interval %d" % (len(reqs), H, I)
    # (1) no false close: until some request stays unanswered for T, the session must stay open
    bad = [k for k in range(len(reqs)) if delay(k) is None or delay(k) >= T]
    if closed is not None:
        if not bad:
            return "[false_close] closed at %d although every keep-alive request was answered in less than the timeout %d (interval %d)" % (closed, T, I)
        first_bad_deadline = reqs[bad[0]] + T
        if closed < first_bad_deadline:
            return "[false_close] closed at %d; the first request not answered in time was sent at %d, so no closure is justified before %d" % (closed, reqs[bad[0]], first_bad_deadline)
    # (2) detection: after its last answer the peer is silent: closed within timeout + interval of that answer
    arrivals = [reqs[k] + delay(k) for k in range(len(reqs)) if delay(k) is not None and reqs[k] + delay(k) < end]
    last_answer = max(arrivals) if arrivals else 0
    pending_answers = [reqs[k] + delay(k) for k in range(len(reqs)) if delay(k) is not None and reqs[k] + delay(k) >= end]
    silent_from_here = not pending_answers and all(delay(k) is None for k in range(len(reqs), len(reqs) + 3)) and \
        all(delay(k) is None for k in range(len(script)) if k * I > last_answer)
    if silent_from_here:
        limit = last_answer + T + I
        if closed is None and H >= limit + 2:
            return "[not_detected] the peer's last answer arrived at %d and it has been silent since; the session is still open at %d (limit %d = +timeout %d +interval %d)" % (last_answer, H, limit, T, I)
        if closed is not None and closed > limit:
            return "[not_detected] the peer's last answer arrived at %d; the session was closed only at %d, later than %d" % (last_answer, closed, limit)
    return None


def same(c, ir, mr):
    return ir == mr


def match_known(c, failure, findings):
    if not failure.startswith("[F4-stalled-transport] ") or not str(c.args[0]).startswith("z"):
        return None
    for k in findings:
        if k.get("match", {}).get("oracle_tag") == "F4-stalled-transport":
            return k
    return None
