"""C15 -- UDP datagrams keep their boundaries and contents. Drivers: udpenc (both encoders), udpdec (both
read_udp_packet loops over a StreamReader), udpinit (target of the association)."""
from .base import *
from .parsers_util import *

RULE = ("udpenc (client and server encoder): sizes {0,1,2,255,256,8190..8194,65505..65507,65534,65535,65536,70000}; udpdec (client "
        "and server reader loop): sequences of 1-50 datagrams with those sizes, every 2-way split of short streams (so the 2-byte "
        "prefix is split), byte-at-a-time, random k-way splits with empty chunks, truncated tails, an empty datagram in the "
        "middle, open and closed streams, arbitrary bytes; udpinit: the association's target for IPv4/IPv6/seeded names; udpe2e: "
        "lock-step echo app -> create_udp_proxy -> stream -> real server handler -> loopback UDP target and back (sizes up to 65507). "
        "Non-trivial = >= 2 datagrams, or a split inside a length prefix, or a size >= 65505, or a truncated tail; distinct by sha256.")
SIDE_LEMMAS = 4
ASSUMPTIONS = ["UDP socket send/recv (tokio UdpSocket) deliver one datagram per call (OS); the proofs cover the framing and the reader loops on both sides",
               "whether an empty datagram ends a direction and whether the server socket follows the target's address family are regenerated from the sources (Generated.udp_empty_datagram_ends_*, udp_server_bind_follows_target) and exercised end to end by udpe2e",
               "model tied to udp_client.rs / udp_proxy.rs by differential execution on the cases counted below (sampling)"]
Case = Case
SIZES = [1, 2, 255, 256, 8190, 8191, 8192, 8193, 8194, 65505, 65506, 65507]


def corpus_cases():
    cs = corpus("C15")
    for c in cs:
        if c.drv in ('udpe2e',):
            c.model = False      # end-to-end drivers have no model side (oracle only)
    return cs


def frame(d):
    return be16(len(d)) + d


def ref_loop(data, eof):
    out, p = [], 0
    while True:
        if len(data) - p < 2:
            break
        ln = int.from_bytes(data[p:p + 2], "big")
        if len(data) - p - 2 < ln:
            break
        out.append(data[p + 2:p + 2 + ln])
        p += 2 + ln
    return out, "END ERR EOF" if eof else "END PENDING"


def gen_cases(tier, seed):
    r = rng(seed, "C15")
    quick = tier == "quick"
    cs = []
    n = 0

    def add(drv, args, kind, nt, model=True):
        nonlocal n
        n += 1
        cs.append(Case("u%d" % n, drv, args, kind, nt, model=model))

    def tagged(ln, tag):
        # contents identify the datagram and the offset so that merging/reordering shows in the value
        b = bytearray(rbytes(r, ln))
        if ln >= 2:
            b[0], b[-1] = tag & 255, (tag * 7 + 1) & 255
        return bytes(b)
    for side in "cs":
        for ln in [0] + SIZES + [65534, 65535, 65536, 70000]:
            add("udpenc", [side, hx(tagged(ln, ln))], "enc", ln >= 65505)
        # single datagrams at every boundary size through the reader
        for ln in SIZES + [65534, 65535]:
            if quick and ln > 9000 and side == "c" and ln not in (65507, 65535):
                continue
            d = tagged(ln, 3)
            add("udpdec", [side, 0] + chunks_arg(frag(r, frame(d) + frame(b"tail"), 6)), "dec-boundary", True)
        # short streams: every 2-way split, byte-at-a-time
        ds = [b"A", b"BC", tagged(5, 9), b"D"]
        stream = b"".join(frame(d) for d in ds)
        for parts in all_splits2(stream):
            add("udpdec", [side, 0] + chunks_arg(parts), "dec-split2", True)
        add("udpdec", [side, 0] + chunks_arg(bytewise(stream)), "dec-bytewise", True)
        add("udpdec", [side, 1] + chunks_arg(bytewise(stream)), "dec-bytewise", True)
        for cut in range(len(stream)):
            add("udpdec", [side, cut % 2] + chunks_arg(frag(r, stream[:cut], 3)), "dec-truncated", True)
        # empty datagrams in the middle: forwarded like any other, later datagrams are not lost
        add("udpdec", [side, 0] + chunks_arg(frag(r, frame(b"x") + frame(b"") + frame(b"y"), 3)), "dec-empty-datagram", True)
        add("udpdec", [side, 1] + chunks_arg([frame(b"")]), "dec-empty-datagram", True)
        add("udpdec", [side, 0] + chunks_arg(bytewise(frame(b"") + frame(b"") + frame(b"z") + frame(b""))), "dec-empty-datagram", True)
        # sequences
        for i in range(40 if quick else 1500):
            k = r.randint(1, 50) if r.random() < 0.2 else r.randint(1, 6)
            ds = []
            for j in range(k):
                ln = r.choice(SIZES) if r.random() < (0.05 if quick else 0.2) else (0 if r.random() < 0.08 else r.randint(1, 400))
                ds.append(tagged(ln, j))
            stream = b"".join(frame(d) for d in ds)
            if r.random() < 0.3:
                stream += frame(tagged(50, 99))[:r.randint(1, 51)]
            add("udpdec", [side, int(r.random() < 0.3)] + chunks_arg(frag(r, stream, 8)), "dec-sequence", k >= 2)
        for i in range(40 if quick else 1000):
            data = rbytes(r, r.choice([0, 1, 2, 3, 10, 40]))
            if len(data) >= 2 and r.random() < 0.7:
                data = bytes([0, r.randint(0, 6)]) + data[2:]
            add("udpdec", [side, int(r.random() < 0.5)] + chunks_arg(frag(r, data, 4)), "dec-arbitrary", len(data) >= 4)
    # the target of the association (initial request)
    for kind, val, seedname in (("V4", bytes([127, 0, 0, 9]), "-"), ("V6", bytes(15) + b"\x01", "-"), ("N", b"udp.test", hx(b"udp.test"))):
        for p in (0, 53, 65535):
            wire = b"\x01" + enc_dest(kind, val, p) + frame(b"first")
            add("udpinit", [seedname, 0] + chunks_arg(frag(r, wire, 4)), "target", True)
    # end to end, lock-step echo through Client::create_udp_proxy and the real server handler (IPv4 target)
    add("udpe2e", [4, 1, 2, 255, 256, 8190, 8192, 8194, 65505, 65506, 65507, 1], "e2e-boundaries", True, model=False)
    add("udpe2e", [4, 5, 0, 7, 0, 0, 3], "e2e-empty-datagrams", True, model=False)
    add("udpe2e", [6, 1, 255, 0, 1400, 9000, 65507, 2], "e2e-ipv6-target", True, model=False)
    add("udpe2e", [4] + [r.randint(1, 1400) for _ in range(30)], "e2e-sequence", True, model=False)
    # the target is not up yet when the first datagram is forwarded (the kernel reports the closed port back to the
    # server's socket); once it is up, every datagram must be delivered (seed C15-3)
    # the records returned by the server are a byte stream: a record that arrives in two data frames with a long pause
    # between them (a slow or lossy path under the tunnel) is still one datagram, and the next ones stay aligned (seed C15-5)
    for gap, cut in ([(1600, "h"), (1200, 1)] if quick else [(1600, "h"), (1200, 1), (2500, 2), (700, "h"), (3200, 3)]):
        add("udpsplit", [gap, cut, 300, 1200, 700], "e2e-record-split-with-pause", True, model=False)
    add("udpe2e", ["4L", 5, 300, 1400, 9, 2000], "e2e-target-comes-up-late", True, model=False)
    add("udpe2e", ["6L", 7, 64, 1200], "e2e-target-comes-up-late", True, model=False)
    for _ in range(2 if quick else 40):
        add("udpe2e", [4] + [r.choice(SIZES) if r.random() < 0.2 else r.randint(1, 9000) for _ in range(r.randint(3, 12))], "e2e-sequence", True, model=False)
    return cs


def oracle(c, ir):
    if c.drv == "udpsplit":
        exp = " ".join("%s:t" % n for n in c.args[2:])
        return None if ir.strip() == exp else ("records returned in two data frames %s ms apart (first part: %s bytes): the application got %s, expected %s: "
                                               "a datagram was lost or the record stream lost alignment" % (c.args[0], c.args[1], ir[:200], exp))
    if c.drv == "udpe2e":
        sizes = c.args[1:]
        exp = " ".join("%s:t:t" % n for n in sizes) + " TARGETN=%d" % len(sizes)
        if ir.strip() == "NO-REBIND" and str(c.args[0]).endswith("L"):
            return None       # somebody else took the port in the 300 ms window: inconclusive, not a failure
        return None if ir.strip() == exp else "datagrams through the association: got %s expected %s" % (ir[:300], exp[:300])
    if c.drv == "udpenc":
        d = unhx(c.args[1])
        if len(d) > 65535:
            return None if ir == "ERR" else "a %d-byte datagram was not refused" % len(d)
        exp = "OK " + hx(frame(d))
        return None if ir == exp else "datagram of %d bytes framed as %s.. expected %s.." % (len(d), ir[:40], exp[:40])
    if c.drv == "udpdec":
        eof = c.args[1] == "1"
        data = b"".join(unhx(a) for a in c.args[2:])
        ds, end = ref_loop(data, eof)
        exp = "".join("D %s " % hx(d) for d in ds) + end
        if ir == exp:
            return None
        got = [t for t in ir.split()]
        return "datagrams out differ from datagrams in: expected %d datagrams then %s, got %s" % (len(ds), end, ir[:200] if len(ir) < 400 else "%d tokens ending %s" % (len(got), " ".join(got[-3:])[:80]))
    if c.drv == "udpinit":
        from . import c07
        return c07.oracle(c, ir)
    return "unknown driver"


def same(c, ir, mr):
    if c.drv == "udpinit":
        from . import c07
        return c07.same(c, ir, mr)
    return ir == mr
