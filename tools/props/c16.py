"""C16 -- the SOCKS5 front-end follows the protocol for every client byte stream. Drivers: socks (the real
handle_socks5_connection over loopback TCP, AnyTLS side = in-process server session), socksreq (read_connection_request)."""
import itertools
from .base import *
from .parsers_util import *

RULE = ("socks: every method list of length <= 2 over {0,1,2,255} and sampled lists of length 3-4, NMETHODS 0, versions {4,5,6} in "
        "greeting and request, commands 0..4 and 255, ATYP {1,3,4,0,2,5}, name lengths {1,2,63,254,255}, ports {0,1,80,255,256,443,65535}, "
        "open succeeding/failing, whole writes / byte-at-a-time / random TCP segmentation, open and half-closed client, payload "
        "bytes following the request, truncations at every position; socksreq: the request parser alone on the same inputs plus "
        "malformed ones. Independent RFC 1928 reference in Python. Non-trivial = not the canonical 3-byte greeting + IPv4 CONNECT in "
        "single writes (i.e. another command, address type, refusal, failure, fragmentation or truncation); distinct by sha256.")
SIDE_LEMMAS = 1
ASSUMPTIONS = ["the verdict of the tunnel open (SYNACK ok/error, C10) is an oracle argument of socks_session; in the check it is scripted on the in-process server side",
               "tokio read_exact on a TcpStream loops over TCP segments exactly like Reader.v's read_exact over chunks",
               "real sockets: the driver decides 'no further progress' after 500 ms of silence",
               "model tied to socks5.rs by differential execution on the cases counted below (sampling)"]
TRUSTED_EXTRA = ["loopback TCP (OS), tokio net"]
IMPL_SHARDS = 12
Case = Case
REPLY = lambda rep: bytes([5, rep, 0, 1, 0, 0, 0, 0, 0, 0])


def corpus_cases():
    cs = corpus("C16")
    for c in cs:
        if c.drv in ():
            c.model = False      # end-to-end drivers have no model side (oracle only)
    return cs


def ref_request(cur):
    h = cur.take(4)
    if h[0] != 5:
        raise Bad("VER")
    kind, val = ref_addr(cur, h[3])
    port = int.from_bytes(cur.take(2), "big")
    return h[1], kind, val, port


def ref_session(data, open_ok, eof):
    """RFC 1928 as the property reads it -> (bytes to client, open, tunnel, fwd, ended)"""
    cur = Cur(data)
    w = b""
    try:
        g = cur.take(2)
        if g[0] != 5:
            return w, None, False, b"", True
        ms = cur.take(g[1])
        if 0 not in ms:
            return w + b"\x05\xff", None, False, b"", True
        w += b"\x05\x00"
        try:
            cmd, kind, val, port = ref_request(cur)
        except Bad:
            return w, None, False, b"", True
        if cmd != 1:
            return w + REPLY(7), None, False, b"", True
        if open_ok:
            return w + REPLY(0), (kind, val, port), True, cur.rest(), False
        return w + REPLY(1), (kind, val, port), False, b"", True
    except Need:
        return w, None, False, b"", eof


def gen_cases(tier, seed):
    r = rng(seed, "C16")
    quick = tier == "quick"
    cs = []
    n = 0

    def add(drv, args, kind, nt=True):
        nonlocal n
        n += 1
        cs.append(Case("s%d" % n, drv, args, kind, nt))

    def sess(data, ok, eof, kind, mode="frag", nt=True):
        parts = [data] if mode == "whole" else (bytewise(data) if mode == "bytes" else frag(r, data, 5))
        add("socks", [int(ok), int(eof)] + chunks_arg(parts), kind, nt)

    def greeting(ms, ver=5):
        return bytes([ver, len(ms)]) + bytes(ms)

    def request(cmd, kind, val, port, ver=5, rsv=0, atyp=None):
        a = {"V4": 1, "V6": 4, "N": 3}[kind] if atyp is None else atyp
        body = val if kind != "N" else bytes([len(val) & 255]) + val
        return bytes([ver, cmd, rsv, a]) + body + be16(port)
    v4 = ("V4", bytes([127, 0, 0, 1]))
    # canonical
    add("socks", [1, 0, hx(greeting([0])), hx(request(1, *v4, 80))], "canonical", False)
    # method lists
    lists = [[]] + [list(t) for k in (1, 2) for t in itertools.product([0, 1, 2, 255], repeat=k)]
    more = [list(t) for k in (3, 4) for t in itertools.product([0, 1, 2, 255], repeat=k)]
    lists += r.sample(more, 12 if quick else len(more))
    for ms in lists:
        sess(greeting(ms) + request(1, *v4, 443) + b"hi", True, r.random() < 0.5, "method-list", r.choice(["whole", "frag", "frag"]))
    sess(greeting([1] * 255) + request(1, *v4, 1), True, True, "method-list-255")
    sess(greeting([1] * 254 + [0]) + request(1, *v4, 1), True, True, "method-list-255")
    for ver in (4, 6, 0, 255):
        sess(greeting([0], ver) + request(1, *v4, 80), True, r.random() < 0.5, "greeting-version")
        sess(greeting([0]) + request(1, *v4, 80, ver=ver), True, r.random() < 0.5, "request-version")
    # commands x address types
    dests = [v4, ("V6", bytes(15) + b"\x01"), ("V6", bytes(range(16))), ("N", b"example.com"), ("N", b"1.2.3.4"), ("N", MAGIC)]
    for ln in NAME_LENS:
        dests.append(("N", rname(r, ln)))
    for cmd in (0, 1, 2, 3, 4, 255):
        for kind, val in dests:
            if quick and cmd not in (1, 2, 3) and len(val) > 20:
                continue
            for ok in ((True, False) if cmd == 1 else (True,)):
                port = r.choice(PORTS)
                data = greeting([0, 2]) + request(cmd, kind, val, port, rsv=r.choice([0, 0, 7])) + rbytes(r, r.choice([0, 0, 3, 20]))
                sess(data, ok, r.random() < 0.4, "cmd%d-%s" % (cmd, kind))
    for p in PORTS:
        sess(greeting([0]) + request(1, "N", b"host.test", p) + b"GET", True, False, "ports")
    # unsupported address types, bad lengths, bad utf8
    for atyp in (0, 2, 5, 255):
        sess(greeting([0]) + request(1, "V4", bytes(4), 80, atyp=atyp), True, r.random() < 0.5, "bad-atyp")
    sess(greeting([0]) + bytes([5, 1, 0, 3, 0]) + b"ab\x00\x50", True, True, "name-len0")
    for bad in (b"\xff", b"a\x80", b"\xed\xa0\x80"):
        sess(greeting([0]) + request(1, "N", bad, 80), True, True, "name-bad-utf8")
    # byte-at-a-time and whole
    for cmd in (1, 2):
        for kind, val in (v4, ("N", b"ab"), ("V6", bytes(16))):
            data = greeting([2, 0]) + request(cmd, kind, val, 8080) + b"xy"
            sess(data, True, False, "bytewise", "bytes")
            sess(data, True, True, "whole", "whole")
            sess(data, False, True, "whole-fail", "whole")
    # truncations at every position (closed: must end; open: must wait silently)
    data = greeting([0]) + request(1, "N", b"ab.c", 443)
    for cut in range(len(data)):
        sess(data[:cut], True, True, "truncated-closed")
        if not quick or cut % 3 == 0:
            sess(data[:cut], True, False, "truncated-open")
    # random streams
    for _ in range(30 if quick else 1500):
        d = bytearray(rbytes(r, r.choice([2, 3, 5, 9, 14, 25])))
        if r.random() < 0.8:
            d[0] = 5
            d[1] = r.choice([0, 1, 1, 2])
        sess(bytes(d), r.random() < 0.7, r.random() < 0.7, "random")
    # request parser alone
    for cmd in range(0, 5):
        for kind, val in dests[:5]:
            add("socksreq", [int(r.random() < 0.5)] + chunks_arg(frag(r, request(cmd, kind, val, r.choice(PORTS), rsv=r.choice([0, 1])) + rbytes(r, r.choice([0, 2])), 4)), "req")
    for ln in NAME_LENS:
        add("socksreq", [0] + chunks_arg(frag(r, request(1, "N", rname(r, ln), 65535), 4)), "req-name-len")
    for atyp in (0, 2, 5):
        add("socksreq", [0] + chunks_arg([request(1, "V4", bytes(4), 1, atyp=atyp)]), "req-bad-atyp")
    add("socksreq", [0] + chunks_arg([bytes([5, 1, 0, 3, 0, 1, 2])]), "req-len0")
    add("socksreq", [0] + chunks_arg([bytes([4, 1, 0, 1, 1, 2, 3, 4, 0, 80])]), "req-version")
    rq = request(1, "N", b"abc", 80)
    for cut in range(len(rq)):
        add("socksreq", [cut % 2] + chunks_arg(frag(r, rq[:cut], 3)), "req-truncated")
    return cs


def fields(s):
    return dict(t.split("=", 1) for t in s.split() if "=" in t)


def oracle(c, ir):
    if c.drv == "socks":
        ok, eof = c.args[0] == "1", c.args[1] == "1"
        data = b"".join(unhx(a) for a in c.args[2:])
        w, opn, tunnel, fwd, ended = ref_session(data, ok, eof)
        f = fields(ir)
        if set(f) != {"W", "OPEN", "TUNNEL", "FWD", "END"}:
            return "driver failed: " + ir[:200]
        if f["W"] != hx(w):
            return "bytes sent to the SOCKS client: got %s expected %s" % (f["W"], hx(w))
        if opn is None:
            if f["OPEN"] != "-":
                return "a tunnel was opened (%s) although the client did not send a valid CONNECT" % f["OPEN"]
        else:
            if f["OPEN"] == "-":
                return "CONNECT to %s:%d opened no tunnel" % (dest_tok(opn[0], opn[1])[:60], opn[2])
            addr, _, port = f["OPEN"].rpartition("/")
            if int(port) != opn[2] or not same_dest(opn[0], opn[1], addr):
                return "tunnel opened to %s, requested %s/%d" % (f["OPEN"][:80], dest_tok(opn[0], opn[1])[:60], opn[2])
        if (f["TUNNEL"] == "1") != tunnel:
            return "tunnel state %s, expected %s" % (f["TUNNEL"], int(tunnel))
        if f["FWD"] != hx(fwd):
            return "bytes forwarded into the tunnel: got %s expected %s" % (f["FWD"][:60], hx(fwd)[:60])
        if (f["END"] == "1") != ended:
            return "connection %s, expected %s" % ("ended" if f["END"] == "1" else "left open", "ended" if ended else "open")
        return None
    if c.drv == "socksreq":
        eof = c.args[0] == "1"
        data = b"".join(unhx(a) for a in c.args[1:])
        cur = Cur(data)
        try:
            cmd, kind, val, port = ref_request(cur)
        except Need:
            exp = "ERR EOF" if eof else "PENDING"
            return None if ir == exp else "expected %s got %s" % (exp, ir[:80])
        except Bad as b:
            return None if ir == "ERR " + b.cls else "expected ERR %s got %s" % (b.cls, ir[:80])
        t = ir.split()
        if len(t) != 5 or t[0] != "OK":
            return "valid request not parsed: " + ir[:100]
        if int(t[1]) != cmd or int(t[3]) != port or t[4] != hx(cur.rest()) or not same_dest(kind, val, t[2]):
            return "request parsed as %s, sent cmd=%d %s port=%d" % (ir[:100], cmd, dest_tok(kind, val)[:60], port)
        return None
    return "unknown driver"


def same_dest(kind, val, impl_hex):
    """what the front-end hands on is text; a V4/V6 request must denote the same address, a name the same bytes
    (a name that spells an IP literal is the same destination as that address)"""
    if canon_dest_pair(dest_tok(kind, val), impl_hex):
        return True
    return False


def same(c, ir, mr):
    if ir == mr:
        return True
    if c.drv == "socks":
        fi, fm = fields(ir), fields(mr)
        if set(fi) != set(fm):
            return False
        for k in fi:
            if k == "OPEN":
                if fm[k] == "-" or fi[k] == "-":
                    if fm[k] != fi[k]:
                        return False
                    continue
                am, _, pm = fm[k].rpartition("/")
                ai, _, pi = fi[k].rpartition("/")
                if pm != pi or not canon_dest_pair(am, ai):
                    return False
            elif fi[k] != fm[k]:
                return False
        return True
    if c.drv == "socksreq":
        ti, tm = ir.split(), mr.split()
        if len(ti) == len(tm) == 5 and ti[0] == tm[0] == "OK":
            return ti[1] == tm[1] and ti[3:] == tm[3:] and canon_dest_pair(tm[2], ti[2])
    return False
