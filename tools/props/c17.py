"""C17 -- the HTTP proxy forwards each request to its authority, unchanged in substance.

Drivers (harness/src/drv_http.rs = the real code through http_verif_hooks; extract/drv_http.ml = Model/Http.v):
  http_fwd   <bytes>                         what the handler computes from bytes received in one piece:
                                             find_header_end, from_utf8, parse_http_request, build_forward_request
  http_shp / http_dt / http_parse / http_build / http_fhe     the private functions one by one
  http_read  <eof> <segment>...              read_http_header over loopback TCP, scripted segmentation (real time)
  http_e2e   <open_ok> <resp> <hints> <segment>...   handle_http_proxy_connection end to end: loopback TCP client,
                                             in-process AnyTLS server session behind Client::verif_set_connector

The oracle below is a reference written from the property text and the request grammar of RFC 7230 / RFC 3986
(request-line, the four request-target forms, Host, authority = host [":" port], IP-literal in brackets).
It never looks at the model."""
import ipaddress, re
from .base import *

RULE = ("grammar-based requests: methods (GET POST PUT DELETE HEAD OPTIONS PATCH get M-SEARCH; CONNECT connect Connect) x "
        "target forms (origin, asterisk, absolute with http/https/HTTP/Http/hTTps schemes and path-and-query '', '/', "
        "'/a?b', '?q=1', with '://' inside the query; authority) x hosts (names, IPv4, bracketed IPv6) x ports (none, "
        "empty, 0, 1, 80, 443, 8080, 65535, leading zeros) x Host spellings (Host host HOST hOsT HoSt, OWS variants) x "
        "0-40 other header lines x bodies 0-4 KiB (random bytes, embedded terminators) arriving with the header; header "
        "blocks of 65000-65600 bytes through the TCP read loop and end to end, with aligned and mis-aligned first "
        "segments; a separate malformed stream (mutated request lines, bad ports, missing/duplicate Host, LF-only line "
        "ends, non-ASCII and invalid UTF-8: compared by outcome class, outside the proved domain). Non-trivial = the "
        "reference accepts the request as well-formed and it has at least one of: non-default or empty port, IPv6 "
        "literal, absolute-form, a Host spelling other than 'Host', >= 2 header lines, a body prefix, a header block "
        ">= 60000 bytes, >= 2 TCP segments; distinct by sha256 of the case. A method spelled connect (any case) with a "
        "non-authority target, obs-fold, userinfo, fragments and non-ASCII field values are outside the well-formed domain.")
SIDE_LEMMAS = 4
ASSUMPTIONS = [
    "text functions are modelled and proved for ASCII input; non-ASCII / invalid UTF-8 headers are compared by outcome class only",
    "tokio TcpStream::read returns between 1 and 1024 bytes per call in arrival order; Session::write_data_frame delivers bytes in order (C01)",
    "a normalised Host line may omit the port when it is 80 or 443 (property text: 'default ports 80/443'); omitting 443 under an http:// "
    "target or 80 under https:// is reported as KNOWN-FINDING C17-host-port-elision, not as conformance",
    "the model is tied to http_proxy.rs by differential execution on the cases counted below (sampling)",
]
TRUSTED_EXTRA = ["loopback TCP and the in-process AnyTLS server session used by the http_read / http_e2e drivers (harness/src/drv_http.rs)"]
Case = Case
IMPL_TIMEOUT = 600
EXTRA_VO = ["Legacy/HttpLegacy.vo"]      # the C17_refuted_1..7 witnesses are re-checked on every run
MAXH = 65536
TERM = b"\r\n\r\n"

# ------------------------------------------------------------------------------------------- reference
TCHAR = rb"[!#$%&'*+\-.^_`|~0-9A-Za-z]"
RE_METHOD = re.compile(rb"\A" + TCHAR + rb"+\Z")
RE_VERSION = re.compile(rb"\AHTTP/[0-9]\.[0-9]\Z")
REGNAME = rb"(?:[A-Za-z0-9\-._~!$&'()*+,;=]|%[0-9A-Fa-f]{2})+"
RE_AUTH = re.compile(rb"\A(?:\[(?P<v6>[0-9A-Fa-f:.]+)\]|(?P<name>" + REGNAME + rb"))(?::(?P<port>[0-9]*))?\Z")
RE_PQ = re.compile(rb"\A(?:/[\x21\x22\x24-\x3e\x40-\x7e]*)?(?:\?[\x21\x22\x24-\x7e]*)?\Z")
RE_ORIGIN = re.compile(rb"\A/[\x21\x22\x24-\x3e\x40-\x7e]*(?:\?[\x21\x22\x24-\x7e]*)?\Z")
RE_ABS = re.compile(rb"\A(?P<scheme>[Hh][Tt][Tt][Pp][Ss]?)://(?P<auth>[^/?#]*)(?P<pq>.*)\Z", re.S)
RE_FIELD = re.compile(rb"\A(?P<name>" + TCHAR + rb"+):[ \t]*(?P<value>(?:[\x21-\x7e](?:[ \t\x21-\x7e]*[\x21-\x7e])?)?)[ \t]*\Z")


def ref_authority(a):
    """host [":" port] -> (host text without brackets, is_ip_literal, port or None) | None"""
    m = RE_AUTH.match(a)
    if not m:
        return None
    if m.group("v6") is not None:
        try:
            ipaddress.IPv6Address(m.group("v6").decode())
        except ValueError:
            return None
        host, lit = m.group("v6"), True
    else:
        host, lit = m.group("name"), False
    port = m.group("port")
    if port is None or port == b"":
        return host, lit, None
    if int(port) > 65535:
        return None
    return host, lit, int(port)


def ref_request(raw):
    """Reference reading of the bytes a client sent. None = not a well-formed proxy request (inside the ASCII domain)."""
    i = raw.find(TERM)
    if i < 0:
        return None
    head, rest = raw[:i], raw[i + 4:]
    if any(b > 127 for b in head):
        return None
    lines = head.split(b"\r\n")
    parts = lines[0].split(b" ")
    if len(parts) != 3:
        return None
    method, target, version = parts
    if not RE_METHOD.match(method) or not RE_VERSION.match(version):
        return None
    fields = []
    for l in lines[1:]:
        m = RE_FIELD.match(l)
        if not m:
            return None
        fields.append((m.group("name"), m.group("value"), l))
    hosts = [k for k, f in enumerate(fields) if f[0].lower() == b"host"]
    if len(hosts) > 1:
        return None
    host_auth = None
    if hosts:
        host_auth = ref_authority(fields[hosts[0]][1])
        if host_auth is None:
            return None
    is_connect = method.upper() == b"CONNECT"
    scheme_default = 80
    if is_connect:
        a = ref_authority(target)
        if a is None:
            return None
        default, path = 443, None
        scheme_default = None
    elif target == b"*" or RE_ORIGIN.match(target):
        if host_auth is None:
            return None
        a, default, path = host_auth, 80, target
    else:
        m = RE_ABS.match(target)
        if not m or not RE_PQ.match(m.group("pq")):
            return None
        a = ref_authority(m.group("auth"))
        if a is None:
            return None
        default = 443 if len(m.group("scheme")) == 5 else 80
        scheme_default = default
        pq = m.group("pq")
        path = pq if pq.startswith(b"/") else b"/" + pq
    host, lit, port = a
    return {"method": method, "version": version, "connect": is_connect, "host": host, "literal": lit,
            "port": default if port is None else port, "scheme_default": scheme_default, "path": path,
            "lines": [f[2] for f in fields], "host_index": hosts[0] if hosts else None, "rest": rest,
            "header_len": i + 4}


def canonical_forward(ref):
    """one acceptable rendering of the request the origin server must receive (used for length hints only)"""
    hv = (b"[" + ref["host"] + b"]") if ref["literal"] else ref["host"]
    if ref["port"] not in (80, 443):
        hv += b":%d" % ref["port"]
    ls = list(ref["lines"])
    if ref["host_index"] is None:
        ls.append(b"Host: " + hv)
    else:
        ls[ref["host_index"]] = b"Host: " + hv
    return ref["method"] + b" " + ref["path"] + b" " + ref["version"] + b"\r\n" + b"".join(l + b"\r\n" for l in ls) + b"\r\n"


def check_forward(ref, out):
    """out = the header block sent to the origin server. None | failure text."""
    if not out.endswith(TERM) or out.find(TERM) != len(out) - 4:
        return "forwarded header block is not terminated by exactly one empty line: %r" % out[-60:]
    ls = out[:-4].split(b"\r\n")
    want_line = ref["method"] + b" " + ref["path"] + b" " + ref["version"]
    if ls[0] != want_line:
        return "request line forwarded as %r, expected %r (same method, origin-form target, same version)" % (ls[0][:120], want_line[:120])
    got = ls[1:]
    hidx = [k for k, l in enumerate(got) if l.split(b":", 1)[0].lower() == b"host" and b":" in l]
    if len(hidx) != 1:
        return "forwarded request has %d Host lines, expected exactly one" % len(hidx)
    k = hidx[0]
    others = got[:k] + got[k + 1:]
    want_others = [l for j, l in enumerate(ref["lines"]) if j != ref["host_index"]]
    if others != want_others:
        for j in range(max(len(others), len(want_others))):
            a = others[j] if j < len(others) else None
            b = want_others[j] if j < len(want_others) else None
            if a != b:
                return "header line %d forwarded as %r, expected %r (header lines must be forwarded unchanged and in order)" % (j, a and a[:80], b and b[:80])
    if ref["host_index"] is not None and k != ref["host_index"]:
        return "Host line moved from position %d to %d" % (ref["host_index"], k)
    val = got[k].split(b":", 1)[1].strip(b" \t")
    a = ref_authority(val)
    want = (b"[" + ref["host"] + b"]") if ref["literal"] else ref["host"]
    if a is None:
        return "normalised Host value %r is not host[:port] (expected %r for port %d)" % (val[:80], want[:80], ref["port"])
    h, lit, p = a
    if h != ref["host"] or lit != ref["literal"]:
        return "normalised Host value %r names another host than %r" % (val[:80], want[:80])
    if p is not None:
        if p != ref["port"]:
            return "normalised Host value %r carries port %d, the request names %d" % (val[:80], p, ref["port"])
    else:
        sd = ref["scheme_default"] or 80
        if ref["port"] != sd:
            if ref["port"] in (80, 443):
                return "[host-port-elision] Host normalised to %r: port %d omitted although the scheme default is %d" % (val[:80], ref["port"], sd)
            return "normalised Host value %r omits the non-default port %d" % (val[:80], ref["port"])
    return None


def same_host(a, b):
    if a == b:
        return True
    try:
        return ipaddress.ip_address(a.decode()) == ipaddress.ip_address(b.decode())
    except (ValueError, UnicodeDecodeError):
        return False


# ------------------------------------------------------------------------------------------- oracles
def oracle_fwd(raw, ir):
    if ir.startswith("PANIC"):
        return "the request parser panicked: " + ir[:100]
    ref = ref_request(raw)
    if ref is None:
        if raw.find(TERM) < 0 and ir != "INCOMPLETE":
            return "no header terminator but result %s" % ir[:60]
        return None
    t = ir.split()
    if t[0] != "OK":
        return "well-formed request (%s %s:%d) rejected: %s" % ("CONNECT" if ref["connect"] else "forward", ref["host"][:60], ref["port"], ir[:40])
    host, port, conn, out, body = unhx(t[1]), int(t[2]), t[3] == "1", unhx(t[4]), unhx(t[5])
    if host != ref["host"] or port != ref["port"]:
        return "tunnel target is %r:%d, the request names %r:%d" % (host[:80], port, ref["host"][:80], ref["port"])
    if conn != ref["connect"]:
        return "is_connect=%s for method %r" % (conn, ref["method"])
    if body != ref["rest"]:
        return "bytes after the header: %d kept, %d sent by the client" % (len(body), len(ref["rest"]))
    if conn:
        return None if out == b"" else "CONNECT must not forward a header block"
    return check_forward(ref, out)


def oracle_read(eof, segs, ir):
    s = b"".join(segs)
    i = s.find(TERM)
    if i >= 0 and i + 4 <= MAXH:
        exp = "OK %s %s" % (hx(s[:i + 4]), hx(s[i + 4:]))
        if ir != exp:
            return ("header block of %d bytes (limit %d) followed by %d bytes, segments %s: expected the split at the first "
                    "terminator, got %s" % (i + 4, MAXH, len(s) - i - 4, [len(x) for x in segs], ir[:80]))
        return None
    if i >= 0 or len(s) > MAXH or eof:
        return None if ir == "ERR" else "header block %s: expected an error, got %s" % ("of %d bytes" % (i + 4) if i >= 0 else "unterminated, %d bytes" % len(s), ir[:80])
    return None if ir == "PENDING" else "incomplete header (%d bytes, no EOF): expected the loop to keep reading, got %s" % (len(s), ir[:80])


def oracle_e2e(open_ok, resp, segs, ir):
    if ir.startswith("PANIC"):
        return "panic: " + ir[:100]
    t = ir.split()
    if t[0] == "OPEN":
        opened, t = (unhx(t[1]), int(t[2])), t[3:]
    else:
        opened, t = None, t[1:]
    reply, ordr, relayed, stream = t[0], t[1], t[2] == "1", unhx(t[3])
    if ordr != "ORD1":
        return "the HTTP client saw the proxy's reply before the tunnel existed"
    if reply == "200" and (opened is None or not open_ok):
        return "200 Connection Established although no tunnel was opened successfully"
    if opened is None and stream:
        return "bytes on a stream although no tunnel was opened"
    if not open_ok and (stream or relayed):
        return "data forwarded although the tunnel could not be opened"
    s = b"".join(segs)
    i = s.find(TERM)
    fits = i >= 0 and i + 4 <= MAXH
    ref = ref_request(s) if fits else None
    if not fits:
        if opened is not None or reply != "NONE":
            return "header block %s: no tunnel and no reply expected, got %s" % ("over the limit" if i >= 0 else "incomplete", ir[:60])
        return None
    if ref is None:
        return None
    if opened is None:
        return "well-formed request but no tunnel was opened (%s)" % ir[:60]
    if not same_host(opened[0], ref["host"]) or opened[1] != ref["port"]:
        return "tunnel opened to %r:%d, the request names %r:%d" % (opened[0][:80], opened[1], ref["host"][:80], ref["port"])
    if not open_ok:
        return None if reply == "502" else "open failed: expected a 502 reply, got %s" % reply
    want_reply = "200" if ref["connect"] else "NONE"
    if reply != want_reply:
        return "proxy reply %s, expected %s" % (reply, want_reply)
    if relayed != (len(resp) > 0):
        return "bytes from the origin server did not reach the HTTP client"
    if ref["connect"]:
        if stream != ref["rest"]:
            return "CONNECT: %d bytes followed the header, the tunnel received %d (%r...)" % (len(ref["rest"]), len(stream), stream[:20])
        return None
    j = stream.find(TERM)
    if j < 0:
        return "origin server received no complete header block (%d bytes)" % len(stream)
    f = check_forward(ref, stream[:j + 4])
    if f:
        return f
    if stream[j + 4:] != ref["rest"]:
        return "%d bytes followed the header, the origin server received %d after the rewritten header" % (len(ref["rest"]), len(stream) - j - 4)
    return None


def oracle(c, ir):
    if ir.startswith("PANIC"):
        return "panic in %s: %s" % (c.drv, ir[:120])
    d = c.drv
    if d == "http_fwd":
        return oracle_fwd(unhx(c.args[0]), ir)
    if d == "http_read":
        return oracle_read(c.args[0] == "1", [unhx(a) for a in c.args[1:]], ir)
    if d == "http_e2e":
        return oracle_e2e(c.args[0] == "1", unhx(c.args[1]), [unhx(a) for a in c.args[4:]], ir)
    if d == "http_fhe":
        i = unhx(c.args[0]).find(TERM)
        exp = "NONE" if i < 0 else "SOME %d" % (i + 4)
        return None if ir == exp else "find_header_end: expected %s got %s" % (exp, ir)
    if d == "http_shp":
        v, dflt = unhx(c.args[0]), int(c.args[1])
        a = ref_authority(v) if all(b < 128 for b in v) else None
        if a is None:
            return None
        exp = "OK %s %d" % (hx(a[0]), dflt if a[2] is None else a[2])
        return None if ir == exp else "split_host_port(%r, %d): expected %s got %s" % (v[:60], dflt, exp, ir)
    if d == "http_build":
        try:
            m, v, h, p, path, conn, body = unhx(c.args[0]), unhx(c.args[1]), unhx(c.args[2]), int(c.args[3]), unhx(c.args[4]), c.args[5], unhx(c.args[6])
            ls = [unhx(a) for a in c.args[7:]]
        except ValueError:
            return None
        lit = b":" in h
        if any(len(l) == 0 for l in ls) or ref_authority((b"[" + h + b"]") if lit else h) is None:
            return None
        raw = m + b" " + path + b" " + v + b"\r\n" + b"".join(l + b"\r\n" for l in ls) + b"\r\n"
        if not any(l.lower().startswith(b"host:") for l in ls):
            raw = raw[:-2] + b"Host: placeholder\r\n\r\n"
        ref = ref_request(raw)
        if ref is None or ref["connect"] or not ref["path"]:
            return None
        if not any(l.lower().startswith(b"host:") for l in ls):
            ref["lines"], ref["host_index"] = ref["lines"][:-1], None
        ref.update(host=h, literal=lit, port=p, scheme_default=None)
        if not ir.startswith("OK "):
            return "build_forward_request failed: " + ir[:60]
        f = check_forward(ref, unhx(ir.split()[1]))
        return None if (f is None or f.startswith("[host-port-elision]")) else f
    return None     # http_dt, http_parse: outcome class + comparison with the model


def same(c, ir, mr):
    return ir == mr


def match_known(c, f, findings):
    for k in findings:
        if k.get("match", {}).get("oracle_tag") and f.startswith("[%s]" % k["match"]["oracle_tag"]):
            return k
    return None


def shrink(c, f):
    """drop header lines / the body prefix of an http_fwd case while the same failure persists"""
    import sys, os
    sys.path.insert(0, os.path.join(VERIF, "tools"))
    import vlib
    if c.drv != "http_fwd":
        return c, f
    tag = f[:25]
    raw = unhx(c.args[0])
    for _ in range(6):
        i = raw.find(TERM)
        if i < 0:
            break
        ls, rest = raw[:i].split(b"\r\n"), raw[i + 4:]
        cands = [b"\r\n".join(ls[:k] + ls[k + 1:]) + TERM + rest for k in range(1, len(ls))]
        if rest:
            cands.append(raw[:i + 4])
        if not cands:
            break
        cs = [Case("s%d" % k, "http_fwd", [hx(x)]) for k, x in enumerate(cands)]
        res, _ = vlib.run_impl([x.line() for x in cs], shards=4, timeout=60)
        nxt = None
        for x, rawx in zip(cs, cands):
            r = res.get(x.cid)
            if r is not None:
                fx = oracle(x, r)
                if fx and fx[:25] == tag and (nxt is None or len(rawx) < len(nxt[0])):
                    nxt = (rawx, fx)
        if nxt is None:
            break
        raw, f = nxt
    return Case(c.cid + "_min", "http_fwd", [hx(raw)], c.kind, c.nontrivial, c.meta), f


# ------------------------------------------------------------------------------------------- generators
METHODS = [b"GET", b"POST", b"PUT", b"DELETE", b"HEAD", b"OPTIONS", b"PATCH", b"get", b"M-SEARCH"]
CONNECTS = [b"CONNECT", b"CONNECT", b"connect", b"Connect"]
NAMES = [b"example.com", b"a", b"EXAMPLE.org", b"xn--bcher-kva.example", b"sub.domain.example.co.uk", b"localhost",
         b"a-b_c~d.e", b"127.0.0.1", b"10.0.0.255", b"0.0.0.0", b"host", b"h0st.example"]
V6 = [b"::1", b"2001:db8::1", b"fe80::1:2:3:4", b"::ffff:1.2.3.4", b"2001:db8::8:800:200c:417a", b"::"]
PORTS = [None, None, b"", b"0", b"1", b"80", b"443", b"8080", b"65535", b"00080", b"8443", b"81"]
SPELL = [b"Host", b"Host", b"host", b"HOST", b"hOsT", b"HoSt"]
SCHEMES = [b"http", b"http", b"https", b"HTTP", b"Http", b"hTTps", b"HTTPS"]
PQS = [b"", b"/", b"/a?b", b"?q=1", b"/a/b/c.html?x=http://other/&y=1", b"/index.html", b"/%7Euser/a%20b", b"?", b"//d"]
ORIGINS = [b"/", b"/a/b?x=1&y=2", b"/a%20b", b"/?q", b"//double", b"/http://x/", b"/a:b", b"/[x]"]
VERSIONS = [b"HTTP/1.1", b"HTTP/1.1", b"HTTP/1.0"]
HNAMES = [b"X-A", b"Accept", b"User-Agent", b"Content-Length", b"X-Host", b"Hostile", b"Proxy-Connection",
          b"X-Forwarded-Host", b"Cookie", b"ho-st", b"Hos"]
HVALS = [b"1", b"*/*", b"curl/8.0 (x; y)", b"see host: example.net", b"a:b:c", b"", b"text/html, application/xml;q=0.9",
         b"http://ref.example/?a=b", b"keep-alive", b"[::1]:80"]


def gen_authority(r, v6_rate=0.3):
    if r.random() < v6_rate:
        h, lit = r.choice(V6), True
    else:
        h, lit = r.choice(NAMES), False
    p = r.choice(PORTS)
    txt = (b"[" + h + b"]" if lit else h) + (b"" if p is None else b":" + p)
    return txt, h, lit, (None if p in (None, b"") else int(p))


def gen_headers(r, n):
    out = []
    for _ in range(n):
        out.append(r.choice(HNAMES) + b":" + r.choice([b" ", b" ", b"", b"\t", b"  "]) + r.choice(HVALS) + r.choice([b"", b"", b" "]))
    return out


def gen_body(r, maxlen=4096):
    k = r.choice([0, 0, 0, 1, 4, 5, 17, 300, 1024, 1025, maxlen])
    if k == 0:
        return b""
    b = bytearray(rbytes(r, k))
    if k >= 8 and r.random() < 0.5:
        pos = r.randint(0, k - 4)
        b[pos:pos + 4] = TERM
    return bytes(b)


def gen_request(r, form=None, pad_to=None, nhdr=None, connect_rate=0.25):
    """-> (header block bytes, expected dict) ; expected is cross-checked against ref_request (self-test of the reference)"""
    if form is None:
        x = r.random()
        form = "connect" if x < connect_rate else ("origin" if x < 0.55 else "absolute")
    n = r.choice([0, 0, 1, 2, 3, 5, 8, 13, 40]) if nhdr is None else nhdr
    hs = gen_headers(r, n)
    host_line = None
    if form == "connect":
        method = r.choice(CONNECTS)
        atxt, h, lit, p = gen_authority(r)
        target, default = atxt, 443
        if r.random() < 0.5:
            host_line = (atxt, h, lit, p)
    elif form == "origin":
        method = r.choice(METHODS)
        target = b"*" if (method == b"OPTIONS" and r.random() < 0.5) else r.choice(ORIGINS)
        atxt, h, lit, p = gen_authority(r)
        default = 80
        host_line = (atxt, h, lit, p)
    else:
        method = r.choice(METHODS)
        atxt, h, lit, p = gen_authority(r)
        sch = r.choice(SCHEMES)
        target = sch + b"://" + atxt + r.choice(PQS)
        default = 443 if len(sch) == 5 else 80
        x = r.random()
        if x < 0.5:
            host_line = (atxt, h, lit, p)
        elif x < 0.7:
            host_line = gen_authority(r)          # a Host header that disagrees with the URI: the URI wins
    if host_line is not None:
        hl = r.choice(SPELL) + b":" + r.choice([b" ", b" ", b"", b"  ", b"\t"]) + host_line[0] + r.choice([b"", b"", b" ", b" \t"])
        hs.insert(r.randint(0, len(hs)), hl)
    version = r.choice(VERSIONS)
    head = method + b" " + target + b" " + version + b"\r\n" + b"".join(l + b"\r\n" for l in hs) + b"\r\n"
    if pad_to is not None and len(head) < pad_to:
        need = pad_to - len(head)
        extra = []
        while need > 0:
            k = min(need, r.choice([need, 9000, 30000, 70000]))
            if need - k in range(1, 12):
                k = need
            if k < 12:
                break
            extra.append(b"X-Pad-%d: " % len(extra) + b"p" * (k - 12 - len(b"%d" % len(extra)) + 1))
            need -= len(extra[-1]) + 2
        hs = hs + extra
        head = method + b" " + target + b" " + version + b"\r\n" + b"".join(l + b"\r\n" for l in hs) + b"\r\n"
    exp = {"host": h, "port": default if p is None else p, "connect": form == "connect"}
    return head, exp


def feature_nontrivial(raw, nseg=1):
    ref = ref_request(raw)
    if ref is None:
        return False
    hl = ref["lines"][ref["host_index"]] if ref["host_index"] is not None else b"Host:"
    return (ref["port"] not in (80, 443) or ref["literal"] or b"://" in raw.split(b"\r\n", 1)[0] or not hl.startswith(b"Host:")
            or len(ref["lines"]) >= 2 or len(ref["rest"]) > 0 or ref["header_len"] >= 60000 or nseg >= 2
            or b":\r\n" in raw[:ref["header_len"]] or b": " in raw)


def mutate(r, raw):
    """malformed stream: small damage to a well-formed request"""
    b = bytearray(raw)
    k = r.randint(0, 11)
    if k == 0 and len(b) > 4:
        del b[r.randint(0, min(len(b) - 1, 40))]
    elif k == 1:
        b[r.randint(0, min(len(b) - 1, 60))] = r.choice([0, 9, 10, 13, 32, 58, 47, 63, 91, 93, 127, 128, 0xC3, 0xA0, 0xFF])
    elif k == 2:
        b = bytearray(bytes(b).replace(b"\r\n", b"\n"))
    elif k == 3:
        b = bytearray(bytes(b).replace(b" ", b"  ", 1))
    elif k == 4:
        b = bytearray(bytes(b).replace(b" ", b"\t", 2))
    elif k == 5:
        b = bytearray(bytes(b).replace(b" HTTP/1.1", b"", 1))
    elif k == 6:
        b = bytearray(re.sub(rb"(?i)host:[^\r]*\r\n", b"", bytes(b)))
    elif k == 7:
        b = bytearray(re.sub(rb"(?i)(host:[^\r]*\r\n)", rb"\1\1", bytes(b), 1))
    elif k == 8:
        b = bytearray(re.sub(rb":(\d+)", lambda m: r.choice([b":65536", b":99999", b":+80", b":-1", b":8o", b": 80", b":0x50", b":4294967376"]), bytes(b), 1))
    elif k == 9:
        b = bytearray(bytes(b).replace(b"://", r.choice([b":/", b"://user@", b"://user:pw@", b":///"]), 1))
    elif k == 10:
        pos = r.randint(0, len(b))
        b[pos:pos] = r.choice([b"\xc2\x85", b"\xc2\xa0", b"\xe2\x80\x83", b"\xe3\x80\x80", b"\xc3\xa9", b"\xff", b"\xc0\xaf", b"\xed\xa0\x80"])
    else:
        b = bytearray(r.choice([b"\r\n", b" ", b"\r\n\r\n", b"GET\r\n\r\n", b"GET \r\n\r\n", b" GET / HTTP/1.1\r\nHost: a\r\n\r\n",
                                b"CONNECT  HTTP/1.1\r\n\r\n", b"CONNECT :443 HTTP/1.1\r\n\r\n", b"GET http:// HTTP/1.1\r\n\r\n",
                                b"GET http:///a HTTP/1.1\r\nHost: b\r\n\r\n", b"GET / HTTP/1.1\r\nHost:\r\n\r\n",
                                b"GET / HTTP/1.1\r\nHost: [::1\r\n\r\n", b"GET / HTTP/1.1\r\nHost: ::1\r\n\r\n",
                                b"GET / HTTP/1.1\r\nHost: a:b:c\r\n\r\n", b"GET / HTTP/1.1\r\nHost: [[::1]]:80\r\n\r\n",
                                b"GET / HTTP/1.1 extra\r\nHost: a\r\n\r\n", b"connect /p HTTP/1.1\r\nHost: a\r\n\r\n",
                                b"GET / HTTP/1.1\r\n continued\r\nHost: a\r\n\r\n", b"GET / HTTP/1.1\r\nHost : a\r\n\r\n"]))
    return bytes(b)


def corpus_cases():
    return corpus("C17")


def e2e_hints(raw, open_ok):
    i = raw.find(TERM)
    ref = ref_request(raw) if (0 <= i and i + 4 <= MAXH) else None
    if ref is None:
        return 0, 0
    if not open_ok:
        return 0, 1
    if ref["connect"]:
        return len(ref["rest"]), 1
    return len(canonical_forward(ref)) + len(ref["rest"]), 0


def gen_cases(tier, seed):
    r = rng(seed, "C17")
    rm = rng(seed, "C17-malformed")
    big = tier != "quick"
    cs = []
    n = 0

    def add(drv, args, kind, nt, model=True):
        nonlocal n
        n += 1
        cs.append(Case("h%d" % n, drv, args, kind, nt, model=model))

    def ascii_only(b):
        i = b.find(TERM)
        return all(x < 128 for x in (b if i < 0 else b[:i + 4]))

    # ---- whole requests in one piece: well-formed stream
    for i in range(6000 if big else 1400):
        head, exp = gen_request(r)
        raw = head + gen_body(r)
        ref = ref_request(raw)
        if ref is None or ref["host"] != exp["host"] or ref["port"] != exp["port"] or ref["connect"] != exp["connect"]:
            raise AssertionError("reference parser disagrees with the generator on %r" % raw[:200])
        add("http_fwd", [hx(raw)], "fwd-" + ("connect" if exp["connect"] else "absolute" if b"://" in raw.split(b"\r\n", 1)[0] else "origin"),
            feature_nontrivial(raw))
    for i in range(40 if big else 8):          # long header blocks through the parser / rewriter
        head, exp = gen_request(r, pad_to=r.choice([65000, 65530, 65536, 65600]), nhdr=r.choice([0, 3, 40]))
        add("http_fwd", [hx(head + gen_body(r, 600))], "fwd-64k", True)
    # ---- malformed stream (outcome class + model comparison; the oracle judges the ones the reference accepts)
    for i in range(5000 if big else 900):
        head, _ = gen_request(rm)
        raw = mutate(rm, head + gen_body(rm, 64))
        if rm.random() < 0.3:
            raw = mutate(rm, raw)
        add("http_fwd", [hx(raw)], "fwd-malformed" if ascii_only(raw) else "fwd-non-ascii", False, model=ascii_only(raw))
    # ---- the private functions one by one
    for i in range(3000 if big else 350):
        if r.random() < 0.6:
            v = gen_authority(r)[0]
        else:
            v = mutate(rm, gen_authority(rm)[0] + b"  ")[:40]
        v = r.choice([b"", b" ", b"  "]) * (r.random() < 0.15) + v
        if ascii_only(v) and b" " not in v.strip(b" ") or True:
            add("http_shp", [hx(v), r.choice([80, 443, 0, 65535])], "split_host_port", ref_authority(v) is not None and ascii_only(v), model=ascii_only(v))
    for i in range(2000 if big else 300):
        head, _ = gen_request(r)
        if r.random() < 0.35:
            head = mutate(rm, head)
        if not ascii_only(head) or head.find(TERM) < 0:
            continue
        ls = head[:head.find(TERM)].split(b"\r\n")
        t = ls[0].split()
        if len(t) >= 2:
            add("http_dt", [hx(t[0]), hx(t[1])] + [hx(l) for l in ls[1:] if l], "determine_target", True)
        add("http_parse", [hx(head), hx(gen_body(r, 32))], "parse_http_request", True)
    for i in range(2000 if big else 300):
        host = r.choice(NAMES + V6 + [b"", b"a:", b"[::1]"])
        port = r.choice([0, 1, 9, 10, 79, 80, 81, 99, 100, 442, 443, 444, 999, 1000, 8080, 9999, 10000, 65534, 65535, r.randint(0, 65535)])
        ls = gen_headers(r, r.choice([0, 1, 3, 8]))
        if r.random() < 0.6:
            ls.insert(r.randint(0, len(ls)), r.choice(SPELL) + b": old.example")
        if r.random() < 0.1:
            ls.insert(r.randint(0, len(ls)), b"")
        add("http_build", [hx(r.choice(METHODS)), hx(r.choice(VERSIONS)), hx(host), port, hx(r.choice(ORIGINS + [b"", b"*"])), 0, hx(gen_body(r, 16))] + [hx(l) for l in ls],
            "build_forward_request", True)
    for i in range(1500 if big else 200):
        k = r.choice([0, 1, 3, 4, 5, 8, 30, 200])
        b = bytearray(r.choice([13, 10, 13, 10, 65, 32]) for _ in range(k))
        if k >= 4 and r.random() < 0.5:
            pos = r.randint(0, k - 4)
            b[pos:pos + 4] = TERM
        add("http_fhe", [hx(bytes(b))], "find_header_end", k >= 4)
    # ---- the read loop over loopback TCP
    def segs_of(raw, how):
        if how == "one":
            return [raw]
        if how == "mis":                      # a short first segment mis-aligns every later 1024-byte read
            k = r.choice([1, 7, 100, 513, 1023])
            return [raw[:k], raw[k:]]
        if how == "hdr+body":
            i = raw.find(TERM)
            return [raw[:i + 4], raw[i + 4:]] if 0 <= i and i + 4 < len(raw) else [raw]
        if how == "bytes":
            return [raw[i:i + 1] for i in range(len(raw))]
        return [p for p in splits(r, raw, r.randint(2, 5)) if p]
    for i in range(400 if big else 50):
        head, _ = gen_request(r, nhdr=r.choice([0, 1, 3]))
        raw = head + gen_body(r, 2048)
        if r.random() < 0.15:
            raw = raw[:r.randint(0, len(head) - 1)]
        sg = segs_of(raw, r.choice(["one", "mis", "hdr+body", "split", "split"]))
        add("http_read", [int(r.random() < 0.3)] + [hx(x) for x in sg], "read-small", len(sg) >= 2)
    for i in range(12 if big else 3):
        head, _ = gen_request(r, nhdr=0)
        raw = (head + b"tail")[:48]
        add("http_read", [0] + [hx(x) for x in segs_of(raw, "bytes")], "read-bytewise", True)
    for hl in ([64512, 65000, 65529, 65530, 65533, 65535, 65536, 65537, 65540, 65600, 66000] if not big else list(range(65500, 65560, 3)) + [64512, 65000, 65536, 65537, 65600, 66000, 70000]):
        for how in ("one", "mis", "mis", "hdr+body"):
            head, _ = gen_request(r, pad_to=hl, nhdr=r.choice([0, 2]))
            raw = head + r.choice([b"", b"x", rbytes(r, 1000), rbytes(r, 4096)])
            sg = segs_of(raw, how)
            add("http_read", [0] + [hx(x) for x in sg], "read-64k", True)
    # ---- end to end
    E2E_NAMES = [b"example.com", b"a", b"sub.domain.example.co.uk", b"127.0.0.1", b"10.0.0.255"]
    E2E_V6 = [b"::1", b"2001:db8::1", b"fe80::1:2:3:4"]
    for i in range(600 if big else 110):
        while True:
            head, exp = gen_request(r, nhdr=r.choice([0, 1, 4]), connect_rate=0.4)
            if exp["host"] in E2E_NAMES + E2E_V6:
                break
        raw = head + gen_body(r, 3000)
        tail = r.choice([b"", b"", b"TAIL-" + rbytes(r, r.choice([3, 900, 9000]))])
        sg = segs_of(raw, r.choice(["one", "one", "hdr+body", "mis", "split"])) + ([tail] if tail else [])
        ok = int(r.random() < 0.8)
        wl, wr = e2e_hints(raw + tail, ok)
        add("http_e2e", [ok, hx(b"RESP-" + rbytes(r, r.choice([1, 20, 2000]))), wl, wr] + [hx(x) for x in sg], "e2e", True)
    for i in range(40 if big else 10):
        head, _ = gen_request(rm, nhdr=1)
        raw = mutate(rm, head)
        if not ascii_only(raw):
            continue
        add("http_e2e", [1, hx(b"RESP-x"), 0, 0, hx(raw)], "e2e-malformed", False)
    for hl in ([65000, 65530, 65536, 65537, 65600] if not big else [64000, 65000, 65500, 65530, 65535, 65536, 65537, 65540, 65600, 66000]):
        for how in ("one", "mis"):
            while True:
                head, exp = gen_request(r, pad_to=hl, nhdr=r.choice([0, 2]), connect_rate=0.3)
                if exp["host"] in E2E_NAMES + E2E_V6:
                    break
            raw = head + r.choice([b"", rbytes(r, 1500)])
            wl, wr = e2e_hints(raw, 1)
            add("http_e2e", [1, hx(b"RESP-64k"), wl, wr] + [hx(x) for x in segs_of(raw, how)], "e2e-64k", True)
    return cs
